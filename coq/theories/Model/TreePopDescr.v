(* Description language for the population-level code of gp.py (GP._reproduction, GP._mutation, GP._crossover)
   and its interpreter on the population of Model/TreeHeap.v.  Calls into g.tournament_selection, g.pairwise,
   self._prune_nodes, self._mutate, self._cross, space.grow are the model's functions; random draws are the
   opaque script consumers of the model.  Executable only; proofs are in Model/TreePopModel.v.

     PFitness v          v = [agent.fit for agent in space.agents]
     PCount v w          v = int(space.n_trees * self.p_<w>)                (the number comes from [gp_params])
     PEvenUp v           if v % 2 != 0: v += 1
     PTournament d f n   d = g.tournament_selection(f, n)
     PFor s l body       for s in l: body
     PForPairs s l body  for s in g.pairwise(l): body                        (s[0], s[1])
     PArgmax d f         d = np.argmax(f)
     PCopyTree i j       space.trees[i] = copy.deepcopy(space.trees[j])
     PCopyAgent i j      space.agents[i] = copy.deepcopy(space.agents[j])
     PSetFit f i k       f[i] = k
     PNNodes d i         d = space.trees[i].n_nodes
     PPrune d s          d = self._prune_nodes(s)
     PMutate i m         space.trees[i] = self._mutate(space, space.trees[i], m)
     PGrowInto i         space.trees[i] = space.grow(space.min_depth, space.max_depth)
     PCross i j mf mm    space.trees[i], space.trees[j] = self._cross(space.trees[i], space.trees[j], mf, mm)
     PIf c th el *)
From Coq Require Import List Arith Bool ZArith.
From OV Require Import Model.TreeDef Model.TreeHeap.
Import ListNotations.

Inductive idx := IVar (v : nat) | IFst (v : nat) | ISnd (v : nat).
Inductive pcond := PGt (v k : nat) | PAnd (a b : pcond).
Inductive which := WRep | WMut | WCross.

Inductive pstmt :=
| PFitness (v : nat)
| PCount (v : nat) (w : which)
| PEvenUp (v : nat)
| PTournament (d f n : nat)
| PFor (s l : nat) (body : list pstmt)
| PForPairs (s l : nat) (body : list pstmt)
| PArgmax (d f : nat)
| PCopyTree (i j : idx)
| PCopyAgent (i j : idx)
| PSetFit (f : nat) (i : idx) (k : Z)
| PNNodes (d : nat) (i : idx)
| PPrune (d s : nat)
| PMutate (i : idx) (m : nat)
| PGrowInto (i : idx)
| PCross (i j : idx) (mf mm : nat)
| PIf (c : pcond) (th el : list pstmt).

Inductive pval := PVNat (n : nat) | PVFit (l : list Z) | PVTuple (l : list nat) | PVUnset.

Record pcfg := mkP { q_env : list pval; q_pop : pop; q_picks : list nat; q_ds : list frac }.

Definition plookup (env : list pval) (v : nat) : pval := nth v env PVUnset.
Definition psetv (env : list pval) (d : nat) (x : pval) : list pval := set_nth d x env.

Definition get_nat (env : list pval) (v : nat) : res nat :=
  match plookup env v with PVNat n => Ok n | _ => Stuck end.

(* s, s[0], s[1]; indexing a tuple out of range is an IndexError *)
Definition eval_idx (env : list pval) (i : idx) : res nat :=
  match i with
  | IVar v => get_nat env v
  | IFst v => match plookup env v with PVTuple l => match nth_error l 0 with Some x => Ok x | None => Exn end | _ => Stuck end
  | ISnd v => match plookup env v with PVTuple l => match nth_error l 1 with Some x => Ok x | None => Exn end | _ => Stuck end
  end.

Fixpoint eval_pcond (env : list pval) (c : pcond) : res bool :=
  match c with
  | PGt v k => bind (get_nat env v) (fun n => Ok (k <? n))
  | PAnd a b => bind (eval_pcond env a) (fun x => if x then eval_pcond env b else Ok false)
  end.

(* list[i] read / write: IndexError when out of range *)
Definition rd_list {A : Type} (l : list A) (i : nat) : res A :=
  match nth_error l i with Some x => Ok x | None => Exn end.
Definition wr_list {A : Type} (l : list A) (i : nat) (x : A) : res (list A) :=
  if i <? length l then Ok (set_nth i x l) else Exn.

(* g.pairwise: tuples of two, the last one possibly of one *)
Fixpoint pairs (l : list nat) : list (list nat) :=
  match l with
  | [] => []
  | a :: rest => match rest with [] => [[a]] | b :: l' => [a; b] :: pairs l' end
  end.

Definition upd_pop (P : pop) (h : hstate) (trees : list nat) : pop :=
  mkPop h trees (p_agents P) (p_best P) (p_best_fit P) (p_next_aid P).

Fixpoint for_each {A : Type} (setx : A -> pcfg -> pcfg) (f : pcfg -> res pcfg) (xs : list A) (c : pcfg) : res pcfg :=
  match xs with
  | [] => Ok c
  | x :: xs' => match f (setx x c) with Ok c' => for_each setx f xs' c' | Exn => Exn | Stuck => Stuck end
  end.

Definition set_var (sv : nat) (x : pval) (c : pcfg) : pcfg := mkP (psetv (q_env c) sv x) (q_pop c) (q_picks c) (q_ds c).

Section PRun.
Variable E : genv.
Variable G : gp_params.

Fixpoint pexec (s : pstmt) (c : pcfg) {struct s} : res pcfg :=
  let env := q_env c in
  let P := q_pop c in
  let go := fun (body : list pstmt) =>
              (fix go (l : list pstmt) (c : pcfg) {struct l} : res pcfg :=
                 match l with
                 | [] => Ok c
                 | x :: l' => match pexec x c with Ok c' => go l' c' | Exn => Exn | Stuck => Stuck end
                 end) body in
  match s with
  | PFitness v => Ok (mkP (psetv env v (PVFit (map a_fit (p_agents P)))) P (q_picks c) (q_ds c))
  | PCount v w =>
    Ok (mkP (psetv env v (PVNat (match w with WRep => gp_nrep G | WMut => gp_nmut G | WCross => gp_ncross G end)))
            P (q_picks c) (q_ds c))
  | PEvenUp v =>
    bind (get_nat env v) (fun n => Ok (mkP (psetv env v (PVNat (if Nat.odd n then S n else n))) P (q_picks c) (q_ds c)))
  | PTournament d f n =>
    match plookup env f with
    | PVFit fit =>
      bind (get_nat env n) (fun k =>
        bind (tournament (gp_tsize G) fit k (q_picks c)) (fun r =>
          Ok (mkP (psetv env d (PVTuple (fst r))) P (snd r) (q_ds c))))
    | _ => Stuck
    end
  | PFor sv lv body =>
    match plookup env lv with
    | PVTuple xs => for_each (fun x => set_var sv (PVNat x)) (go body) xs c
    | _ => Stuck
    end
  | PForPairs sv lv body =>
    match plookup env lv with
    | PVTuple xs => for_each (fun p => set_var sv (PVTuple p)) (go body) (pairs xs) c
    | _ => Stuck
    end
  | PArgmax d f =>
    match plookup env f with
    | PVFit fit => Ok (mkP (psetv env d (PVNat (argmax fit))) P (q_picks c) (q_ds c))
    | _ => Stuck
    end
  | PCopyTree i j =>
    bind (eval_idx env i) (fun di => bind (eval_idx env j) (fun sj =>
      bind (rd_list (p_trees P) sj) (fun ts =>
        bind (deepcopy (p_heap P) ts) (fun r =>
          bind (wr_list (p_trees P) di (fst r)) (fun trees' =>
            Ok (mkP env (upd_pop P (snd r) trees') (q_picks c) (q_ds c)))))))
  | PCopyAgent i j =>
    bind (eval_idx env i) (fun di => bind (eval_idx env j) (fun sj =>
      bind (rd_list (p_agents P) sj) (fun ag =>
        bind (wr_list (p_agents P) di (mkAg (p_next_aid P) (a_fit ag) (a_tag ag))) (fun ags' =>
          Ok (mkP env (mkPop (p_heap P) (p_trees P) ags' (p_best P) (p_best_fit P) (S (p_next_aid P)))
                  (q_picks c) (q_ds c))))))
  | PSetFit f i k =>
    match plookup env f with
    | PVFit fit =>
      bind (eval_idx env i) (fun di => bind (wr_list fit di k) (fun fit' =>
        Ok (mkP (psetv env f (PVFit fit')) P (q_picks c) (q_ds c))))
    | _ => Stuck
    end
  | PNNodes d i =>
    bind (eval_idx env i) (fun di => bind (rd_list (p_trees P) di) (fun ts =>
      bind (n_nodes (p_heap P) ts) (fun nn => Ok (mkP (psetv env d (PVNat nn)) P (q_picks c) (q_ds c)))))
  | PPrune d sv =>
    bind (get_nat env sv) (fun n => Ok (mkP (psetv env d (PVNat (prune (gp_ratio G) n))) P (q_picks c) (q_ds c)))
  | PMutate i m =>
    bind (eval_idx env i) (fun di => bind (rd_list (p_trees P) di) (fun ts =>
      bind (get_nat env m) (fun mx =>
        bind (mutate E (p_heap P) ts mx (q_ds c)) (fun r =>
          match r with (t', h', ds') =>
            bind (wr_list (p_trees P) di t') (fun trees' => Ok (mkP env (upd_pop P h' trees') (q_picks c) ds'))
          end))))
  | PGrowInto i =>
    bind (eval_idx env i) (fun di =>
      bind (grow E (g_d0 E) (q_ds c) (p_heap P)) (fun r =>
        match r with (t', h', ds') =>
          bind (wr_list (p_trees P) di t') (fun trees' => Ok (mkP env (upd_pop P h' trees') (q_picks c) ds'))
        end))
  | PCross i j mf mm =>
    bind (eval_idx env i) (fun di => bind (rd_list (p_trees P) di) (fun tf =>
      bind (eval_idx env j) (fun dj => bind (rd_list (p_trees P) dj) (fun tm =>
        bind (get_nat env mf) (fun xf => bind (get_nat env mm) (fun xm =>
          bind (cross (p_heap P) tf tm xf xm (q_ds c)) (fun r =>
            match r with (fo, mo, h', ds') =>
              bind (wr_list (p_trees P) di fo) (fun t1 => bind (wr_list t1 dj mo) (fun t2 =>
                Ok (mkP env (upd_pop P h' t2) (q_picks c) ds')))
            end)))))))
  | PIf cd th el =>
    match eval_pcond env cd with
    | Ok true => go th c
    | Ok false => go el c
    | Exn => Exn
    | Stuck => Stuck
    end
  end.

Fixpoint prun (l : list pstmt) (c : pcfg) : res pcfg :=
  match l with
  | [] => Ok c
  | x :: l' => match pexec x c with Ok c' => prun l' c' | Exn => Exn | Stuck => Stuck end
  end.

End PRun.

(* GP._prune_nodes: `int(n_nodes * (1 - self.prunning_ratio))` clamped from below:
   PruneClampLow k  =  the value when it exceeds k, else k
   (spellings: `if p <= k: return k` / `if p < k: return k` followed by `return p`, `return max(p, k)`) *)
Inductive prune_d := PruneClampLow (k : nat).
Definition run_prune (d : prune_d) (ratio : frac) (n : nat) : nat :=
  match d with PruneClampLow k => Nat.max ((n * (snd ratio - fst ratio)) / snd ratio) k end.
