(* copy.deepcopy of a well-formed tree: a fresh, isomorphic, well-formed tree; nothing old is touched. *)
From Coq Require Import List Arith Bool Lia ZArith Permutation.
From OV Require Import Model.TreeDef Model.TreeHeap.
From OV Require Import Model.TreeHeapBase Model.TreeHeapSlot.
Import ListNotations.

Fixpoint rename (f : nat -> nat) (t : tree) : tree :=
  match t with
  | N i lab l r => N (f i) lab (match l with Some a => Some (rename f a) | None => None end)
                               (match r with Some a => Some (rename f a) | None => None end)
  end.

Lemma tid_rename : forall f t, tid (rename f t) = f (tid t).
Proof. destruct t; reflexivity. Qed.

Lemma nodes_rename : forall f t, nodes (rename f t) = map (fun p => (f (fst p), snd p)) (nodes t).
Proof.
  induction t using tree_ind'. cbn [rename]. rewrite !nodes_N. simpl. rewrite map_app.
  destruct l, r; simpl in *; rewrite ?H, ?H0; reflexivity.
Qed.

Lemma ids_rename : forall f t, ids (rename f t) = map f (ids t).
Proof. intros. rewrite !ids_nodes, nodes_rename, !map_map. reflexivity. Qed.

Lemma labels_rename : forall f t, labels (rename f t) = labels t.
Proof. intros. unfold labels. rewrite nodes_rename, map_map. reflexivity. Qed.

(* labels-only skeleton: what "the same tree" means across copies *)
Inductive ltree := LN (lab : label) (l r : option ltree).

Fixpoint erase (t : tree) : ltree :=
  match t with
  | N _ lab l r => LN lab (match l with Some a => Some (erase a) | None => None end)
                          (match r with Some a => Some (erase a) | None => None end)
  end.

Lemma erase_rename : forall f t, erase (rename f t) = erase t.
Proof.
  induction t using tree_ind'. simpl. destruct l, r; simpl in *; rewrite ?H, ?H0; reflexivity.
Qed.

Section Copy.
Variable tab : list nat.

Lemma Rep_cell : forall st t par fl i, Rep tab st par fl t -> In i (ids t) -> exists c, get st i = Some c.
Proof.
  intros. pose proof (Rep_ids_lt tab st t par fl H i H0). unfold get.
  destruct (nth_error (cells st) i) eqn:E; eauto. apply nth_error_None in E. lia.
Qed.

Lemma Rep_rename : forall st st' rn ra t par fl,
  Rep tab st par fl t ->
  (forall i c, In i (ids t) -> get st i = Some c -> get st' (rn i) = Some (ren_cell rn ra c)) ->
  (forall i c a, In i (ids t) -> get st i = Some c -> c_val c = Some a -> ra a < narr st') ->
  Rep tab st' (option_map rn par) fl (rename rn t).
Proof.
  intros st st' rn ra t. induction t using tree_ind'.
  intros par fl (c & Hg & H1 & H2 & H3 & H4 & H5 & H6 & Hl & Hr) Hc Hv. rewrite ids_N in Hc, Hv.
  cbn [rename Rep]. exists (ren_cell rn ra c). simpl.
  split; [apply Hc; simpl; auto|]. split; [auto|].
  split; [rewrite H2; destruct l; simpl; rewrite ?tid_rename; reflexivity|].
  split; [rewrite H3; destruct r; simpl; rewrite ?tid_rename; reflexivity|].
  split; [rewrite H4; reflexivity|].
  split; [intros; apply H5; destruct par; simpl in *; congruence|].
  split.
  { unfold shape_ok in *. destruct lab.
    - destruct H6 as (-> & -> & a & Ha & _). repeat split; auto. exists (ra a). rewrite Ha. simpl. split; auto.
      eapply Hv; eauto. simpl. auto.
    - destruct H6 as [(A & B & C) | (A & B & C)]; [left | right]; repeat split; auto; destruct l; destruct r; simpl; congruence. }
  split.
  - destruct l as [a|]; auto. simpl in H. apply (H (Some i) true Hl).
    + intros. eapply Hc; eauto. simpl. right. apply in_or_app. auto.
    + intros. eapply Hv; eauto. simpl. right. apply in_or_app. left. eauto.
  - destruct r as [b|]; auto. simpl in H0. apply (H0 (Some i) false Hr).
    + intros. eapply Hc; eauto. simpl. right. apply in_or_app. auto.
    + intros. eapply Hv; eauto. simpl. right. apply in_or_app. right. eauto.
Qed.

Lemma flat_map_singletons : forall st (g : cell -> cell) l,
  (forall i, In i l -> exists c, get st i = Some c) ->
  length (flat_map (fun i => match get st i with Some c => [g c] | None => [] end) l) = length l /\
  forall k i c, nth_error l k = Some i -> get st i = Some c ->
    nth_error (flat_map (fun i => match get st i with Some c => [g c] | None => [] end) l) k = Some (g c).
Proof.
  induction l; simpl; intros Hall.
  - split; auto. intros. destruct k; discriminate.
  - destruct (Hall a (or_introl eq_refl)) as (ca & Ga). rewrite Ga. simpl.
    destruct IHl as (IL & IN). { intros. apply Hall. auto. }
    split; [lia|]. intros k i c Hk Hg. destruct k; simpl in *.
    + inversion Hk; subst. congruence.
    + eapply IN; eauto.
Qed.

Lemma parent_closed_WFt : forall st t, WFt tab st t -> parent_closed st (ids t) = true.
Proof.
  intros st t [HR Hn]. unfold parent_closed. apply forallb_forall. intros i Hi.
  destruct (Rep_root_cell _ _ _ _ _ HR) as (cr & Gr & Pr & _).
  destruct (Nat.eq_dec i (tid t)) as [-> | Hne].
  - rewrite Gr, Pr. reflexivity.
  - destruct (Rep_parent_link _ _ _ _ _ _ HR Hn Hi Hne) as (c & q & u & Gc & Pc & Sc & _).
    rewrite Gc, Pc. apply mem_In. destruct (sub_at_facts _ _ _ _ Hn Sc). auto.
Qed.

Definition copy_ren (st : hstate) (t : tree) : nat -> nat := fun j => length (cells st) + index_of j (ids t).

Lemma deepcopy_WFt : forall st t, WFt tab st t ->
  exists st', deepcopy st (tid t) = Ok (copy_ren st t (tid t), st') /\ heap_ext st st' /\
              WFt tab st' (rename (copy_ren st t) t) /\
              length (cells st') = length (cells st) + length (ids t) /\
              exists ra, forall i c, In i (ids t) -> get st i = Some c ->
                         get st' (copy_ren st t i) = Some (ren_cell (copy_ren st t) ra c).
Proof.
  intros st t HW. pose proof HW as [HR Hn]. unfold deepcopy.
  rewrite (pre_order_WFt tab st t HW).
  rewrite (dedup_nodup_id (ids t) []) by auto.
  rewrite (parent_closed_WFt st t HW).
  set (L := length (cells st)).
  set (vs := dedup (vals_of st (ids t)) []).
  set (rn := fun j => L + index_of j (ids t)).
  set (ra := fun a => narr st + index_of a vs).
  set (copies := flat_map (fun i => match get st i with Some c => [ren_cell rn ra c] | None => [] end) (ids t)).
  destruct (flat_map_singletons st (ren_cell rn ra) (ids t)) as (CL & CN).
  { intros. eapply Rep_cell; eauto. }
  fold copies in CL, CN.
  exists (mkH (cells st ++ copies) (narr st + length vs)).
  assert (Hext : heap_ext st (mkH (cells st ++ copies) (narr st + length vs))).
  { unfold heap_ext, get. simpl. rewrite app_length. repeat split; try lia.
    intros. apply nth_error_app1. auto. }
  assert (Hcells : forall i c, In i (ids t) -> get st i = Some c ->
            get (mkH (cells st ++ copies) (narr st + length vs)) (rn i) = Some (ren_cell rn ra c)).
  { intros i c Hi Hg. unfold get. simpl. unfold rn, L. rewrite nth_error_app2 by lia.
    replace (length (cells st) + index_of i (ids t) - length (cells st)) with (index_of i (ids t)) by lia.
    eapply CN; eauto. apply nth_index_of. auto. }
  split; [reflexivity|]. split; [auto|]. split; [|split; [simpl; rewrite app_length, CL; reflexivity | exists ra; exact Hcells]].
  - split.
    + apply (Rep_rename st _ rn ra t None true HR).
      * exact Hcells.
      * intros i c a Hi Hg Hv. simpl. unfold ra.
        assert (In a vs).
        { unfold vs. apply In_dedup; auto. unfold vals_of. apply in_flat_map. exists i. split; auto.
          rewrite Hg, Hv. simpl. auto. }
        apply index_of_lt in H. lia.
    + rewrite ids_rename. apply NoDup_map_inj_in; auto.
      intros x y Hx Hy E. unfold copy_ren in E. apply index_of_inj with (l := ids t); auto. lia.
Qed.

(* the copy is made of cells that did not exist before *)
Lemma copy_ids_fresh : forall st t x, In x (ids (rename (copy_ren st t) t)) ->
  length (cells st) <= x < length (cells st) + length (ids t).
Proof.
  intros st t x Hx. rewrite ids_rename in Hx. apply in_map_iff in Hx. destruct Hx as (y & <- & Hy).
  unfold copy_ren. apply index_of_lt in Hy. lia.
Qed.

End Copy.
