(* The two hand-written models of core/node.py agree.

     (A) Model/TreeAlgo.v   [pre_stack], [find_node_h par flg], [props_bfs]  over functional trees; an interpreter of
         the description REGENERATED from node.py (Gen/TreeAlgoDescr.v) is proved equal to them (Props/C11.v).
     (B) Model/TreeHeap.v   [pre_order st r], [find_node st r p], [n_nodes st r]  over a heap of cells with stored
         left / right / parent / flag fields; these are what the GP operators [mutate], [cross], [mutation_loop],
         [crossover_loop] call (C08 / C09).

   Here: on every heap that represents a tree ([Rep tab st par fl t] with [NoDup (ids t)], in particular the
   invariant [WFt tab st t] of C08/C09) (B) computes what (A) computes on the represented tree, the [par] / [flg]
   arguments of (A) being the STORED parent / flag fields of the heap ([hpar st], [hflg st]).  For every position p:
   p = 0 (the root), 1 <= p < size, p >= size.  Hence, by C11, (B) is the interpretation of the regenerated
   description of node.py.

   Hypotheses, exactly:
     Rep tab st par fl t      t is laid out in st (child pointers, labels; every non-root node stores the parent and
                              the side it hangs on); the root cell stores parent [par] (any; [None] for WFt)
     NoDup (ids t)            no node reachable twice -- used only to bound the recursion depth of [pre_h] by the
                              number of cells (the fuel of [pre_order])
     parent_alloc st par      (find_node only) if the root stores a parent q, then q is an allocated cell.  In Python
                              a parent reference always designates an object; in the heap model a pointer may dangle,
                              and then the two models differ ([find_node_differs_outside] below): (B) raises where
                              (A) reads [None].  Trivially true for WFt (par = None).

   Result maps:  Some (FnSlot q f) -> Ok (q, f);  Some FnAttrErr -> Exn (the AttributeError of [None.parent]);
   Some FnOther -> Stuck and None -> Stuck -- neither occurs: (A) never produces FnOther, and its fuel always
   suffices (pre_stack_correct), so on a represented tree (B) is never Stuck either. *)
From Coq Require Import List Arith Bool Lia ZArith.
From OV Require Import Model.TreeDef.
From OV Require Import Model.TreeAlgo Model.TreeAlgoProofs Model.TreeAlgoDescr Model.TreeAlgoDescrProofs.
From OV Require Import Model.TreeHeap Model.TreeHeapBase Model.TreeHeapSlot Model.TreeHeapCopy.
Import ListNotations.

(* the stored fields of the heap, as the [par] / [flg] arguments of Model/TreeAlgo.v *)
Definition hpar (st : hstate) (i : nat) : option nat :=
  match get st i with Some c => c_parent c | None => None end.
Definition hflg (st : hstate) (i : nat) : bool :=
  match get st i with Some c => c_flag c | None => true end.

Definition res_of_ids (o : option (list tree)) : res (list nat) :=
  match o with Some po => Ok (map tid po) | None => Stuck end.

Definition res_of_fn (o : option fn_result) : res (option nat * bool) :=
  match o with
  | Some (FnSlot q f) => Ok (q, f)
  | Some FnAttrErr => Exn
  | Some FnOther => Stuck
  | None => Stuck
  end.

(* n_nodes out of the 4-tuple of _properties *)
Definition res_of_count (o : option (nat * nat * Z * Z)) : res nat :=
  match o with Some (nn, _, _, _) => Ok nn | None => Stuck end.
Definition res_of_zcount (o : option (Z * Z * Z * Z)) : res nat :=
  match o with Some (nn, _, _, _) => Ok (Z.to_nat nn) | None => Stuck end.

Definition parent_alloc (st : hstate) (par : option nat) : Prop :=
  forall q, par = Some q -> get st q <> None.

Lemma ids_length : forall t, length (ids t) = size t.
Proof. intros. unfold ids. rewrite map_length. apply length_pre_rec. Qed.

Section Link.
Variable tab : list nat.

Lemma pre_order_Rep : forall st par fl t,
  Rep tab st par fl t -> NoDup (ids t) -> pre_order st (tid t) = Ok (ids t).
Proof.
  intros st par fl t HR Hn. unfold pre_order. eapply pre_h_rep; eauto.
  pose proof (height_le_size t).
  assert (length (ids t) <= length (cells st)).
  { apply NoDup_lt_length; auto. intros. eapply Rep_ids_lt; eauto. }
  lia.
Qed.

(* ------------------------------------------------------------------ 1. pre_order *)
Theorem pre_order_heap_is_pre_stack : forall st par fl t,
  Rep tab st par fl t -> NoDup (ids t) ->
  exists po, pre_stack t = Some po /\ pre_order st (tid t) = Ok (map tid po).
Proof.
  intros st par fl t HR Hn. exists (pre_rec t). split; [apply pre_stack_correct|].
  exact (pre_order_Rep st par fl t HR Hn).
Qed.

Theorem pre_order_heap_is_pre_stack_res : forall st par fl t,
  Rep tab st par fl t -> NoDup (ids t) -> pre_order st (tid t) = res_of_ids (pre_stack t).
Proof.
  intros st par fl t HR Hn. rewrite pre_stack_correct. exact (pre_order_Rep st par fl t HR Hn).
Qed.

(* ------------------------------------------------------------------ 2. find_node *)
(* every node of a represented tree has its cell, with its label; and whatever parent a cell of the tree stores is
   allocated as soon as the parent stored by the root is *)
Lemma Rep_node_cell : forall st t par fl,
  Rep tab st par fl t -> parent_alloc st par ->
  forall c, In c (pre_rec t) ->
  exists cell, get st (tid c) = Some cell /\ c_lab cell = tlab c /\ parent_alloc st (c_parent cell).
Proof.
  intros st t. induction t using tree_ind'.
  intros par fl (c0 & Hg & H1 & H2 & H3 & H4 & H5 & H6 & Hl & Hr) Hp c Hin.
  assert (Hi : parent_alloc st (Some i)).
  { intros q Hq. inversion Hq; subst q. rewrite Hg. discriminate. }
  rewrite pre_rec_N in Hin. destruct Hin as [<- | Hin].
  - exists c0. simpl. repeat split; auto. rewrite H4. exact Hp.
  - apply in_app_or in Hin. destruct Hin as [Hin | Hin].
    + destruct l as [a|]; simpl in *; [|contradiction]. eapply H; eauto.
    + destruct r as [b|]; simpl in *; [|contradiction]. eapply H0; eauto.
Qed.

Theorem find_node_heap_is_find_node_h : forall st par fl t p,
  Rep tab st par fl t -> NoDup (ids t) -> parent_alloc st par ->
  TreeHeap.find_node st (tid t) p = res_of_fn (find_node_h (hpar st) (hflg st) t p).
Proof.
  intros st par fl t p HR Hn Hp. unfold TreeHeap.find_node.
  rewrite (pre_order_Rep st par fl t HR Hn), find_node_h_unfold.
  unfold ids. rewrite !nth_error_map'.
  destruct (nth_error (pre_rec t) p) as [c|] eqn:En.
  - assert (Hlt : p < size t).
    { rewrite <- length_pre_rec. apply nth_error_Some. congruence. }
    apply Nat.ltb_lt in Hlt. rewrite Hlt.
    destruct (Rep_node_cell st t par fl HR Hp c (nth_error_In _ _ En)) as (cell & Gc & Lc & Pc).
    rewrite Gc. unfold fn_at, hpar, hflg. rewrite Gc, <- Lc.
    destruct (c_lab cell); [reflexivity|].
    destruct (c_parent cell) as [q|] eqn:Eq; [|reflexivity].
    destruct (get st q) as [cq|] eqn:Gq; [| exfalso; exact (Pc q eq_refl Gq)].
    destruct (c_parent cq); reflexivity.
  - apply nth_error_None in En. rewrite length_pre_rec in En.
    apply Nat.ltb_ge in En. rewrite En. reflexivity.
Qed.

(* on a represented tree find_node is never Stuck *)
Corollary find_node_heap_never_stuck : forall st par fl t p,
  Rep tab st par fl t -> NoDup (ids t) -> parent_alloc st par -> TreeHeap.find_node st (tid t) p <> Stuck.
Proof.
  intros st par fl t p HR Hn Hp. rewrite (find_node_heap_is_find_node_h st par fl t p HR Hn Hp).
  rewrite find_node_h_unfold. destruct (Nat.ltb p (size t)) eqn:E; [|discriminate].
  rewrite nth_error_map'. destruct (nth_error (pre_rec t) p) as [c|] eqn:En.
  - unfold fn_at. destruct (tlab c); [discriminate|].
    destruct (hpar st (tid c)) as [q|]; [|discriminate]. destruct (hpar st q); discriminate.
  - exfalso. apply nth_error_None in En. rewrite length_pre_rec in En. apply Nat.ltb_lt in E. lia.
Qed.

(* ------------------------------------------------------------------ 3. n_nodes *)
Theorem n_nodes_heap_is_props_bfs : forall st par fl t,
  Rep tab st par fl t -> NoDup (ids t) -> n_nodes st (tid t) = res_of_count (props_bfs t).
Proof.
  intros st par fl t HR Hn. unfold n_nodes.
  rewrite (pre_order_Rep st par fl t HR Hn), props_bfs_correct, ids_length. reflexivity.
Qed.

(* ------------------------------------------------------------------ the established invariant WFt *)
Lemma parent_alloc_None : forall st, parent_alloc st None.
Proof. intros st q H. discriminate. Qed.

Theorem pre_order_WFt_is_pre_stack : forall st t, WFt tab st t ->
  exists po, pre_stack t = Some po /\ pre_order st (tid t) = Ok (map tid po).
Proof. intros st t [HR Hn]. exact (pre_order_heap_is_pre_stack st None true t HR Hn). Qed.

Theorem find_node_WFt_is_find_node_h : forall st t p, WFt tab st t ->
  TreeHeap.find_node st (tid t) p = res_of_fn (find_node_h (hpar st) (hflg st) t p).
Proof.
  intros st t p [HR Hn]. exact (find_node_heap_is_find_node_h st None true t p HR Hn (parent_alloc_None st)).
Qed.

Theorem n_nodes_WFt_is_props_bfs : forall st t, WFt tab st t ->
  n_nodes st (tid t) = res_of_count (props_bfs t).
Proof. intros st t [HR Hn]. exact (n_nodes_heap_is_props_bfs st None true t HR Hn). Qed.

(* ------------------------------------------------------------------ by transitivity: the regenerated description.
   [gp], [gq], [gf], [gr] stand for what translate/t_treealgo.py regenerated (Gen/TreeAlgoDescr.v); Props/C11.v proves
   them equal to the hand-stated descriptions by reflexivity. *)
Theorem pre_order_heap_is_descr : forall gp, gp = Some descr_pre -> forall dp, gp = Some dp ->
  forall st par fl t, Rep tab st par fl t -> NoDup (ids t) ->
  pre_order st (tid t) = res_of_ids (interp_pre dp t).
Proof.
  intros gp -> dp E st par fl t HR Hn. injection E as <-. rewrite interp_pre_eq.
  exact (pre_order_heap_is_pre_stack_res st par fl t HR Hn).
Qed.

(* find_node walks pre_order ([fd_trav descr_find = TPre]): the post_order description is not looked at *)
Lemma interp_find_any_post : forall dq par flg t p,
  interp_find descr_pre dq descr_find par flg t p = find_node_h par flg t p.
Proof.
  intros. unfold interp_find, find_node_h. cbn [fd_trav descr_find]. rewrite interp_pre_eq.
  destruct (pre_stack t) as [lst|]; [| reflexivity].
  destruct (Nat.ltb p (length lst)); [| reflexivity].
  destruct (nth_error lst p) as [node|]; [| reflexivity].
  cbn [fd_tree fd_default descr_find eval_ftree].
  destruct (tlab node); cbn [Bool.eqb eval_ftree eval_ret evalp]; [reflexivity|].
  destruct (par (tid node)) as [q|]; [| reflexivity].
  destruct (par q); reflexivity.
Qed.

Theorem find_node_heap_is_descr : forall gp gf,
  gp = Some descr_pre -> gf = Some descr_find ->
  forall dp df, gp = Some dp -> gf = Some df ->
  forall dq st par fl t p, Rep tab st par fl t -> NoDup (ids t) -> parent_alloc st par ->
  TreeHeap.find_node st (tid t) p = res_of_fn (interp_find dp dq df (hpar st) (hflg st) t p).
Proof.
  intros gp gf -> -> dp df Ep Ef dq st par fl t p HR Hn Hp.
  injection Ep as <-. injection Ef as <-. rewrite interp_find_any_post.
  exact (find_node_heap_is_find_node_h st par fl t p HR Hn Hp).
Qed.

Theorem n_nodes_heap_is_descr : forall gr, gr = Some descr_props -> forall d, gr = Some d ->
  forall st par fl t, Rep tab st par fl t -> NoDup (ids t) ->
  n_nodes st (tid t) = res_of_zcount (interp_props d t).
Proof.
  intros gr -> d E st par fl t HR Hn. injection E as <-.
  rewrite interp_props_eq, (n_nodes_heap_is_props_bfs st par fl t HR Hn), props_bfs_correct.
  simpl. rewrite Nat2Z.id. reflexivity.
Qed.

(* ------------------------------------------------------------------ the call sites inside the operators.
   [mutate] and [cross] call find_node on the root of a deep copy, in the heap the copy returned; the population
   loops call n_nodes on a tree of the population.  The copy of a well-formed tree is a well-formed tree, so: *)
Theorem find_node_on_copy_is_find_node_h : forall st t m st1,
  WFt tab st t -> deepcopy st (tid t) = Ok (m, st1) ->
  exists t', tid t' = m /\ WFt tab st1 t' /\ erase t' = erase t /\
    forall p, TreeHeap.find_node st1 m p = res_of_fn (find_node_h (hpar st1) (hflg st1) t' p).
Proof.
  intros st t m st1 HW Hd.
  destruct (deepcopy_WFt tab st t HW) as (st' & A & _ & C & _).
  rewrite A in Hd. inversion Hd; subst m st1. clear Hd.
  exists (rename (copy_ren st t) t). split; [apply tid_rename|]. split; [exact C|].
  split; [apply erase_rename|]. intros p. rewrite <- (tid_rename (copy_ren st t) t).
  apply find_node_WFt_is_find_node_h. exact C.
Qed.

Theorem find_node_on_copy_is_descr : forall gp gf,
  gp = Some descr_pre -> gf = Some descr_find ->
  forall dp df, gp = Some dp -> gf = Some df ->
  forall st t m st1, WFt tab st t -> deepcopy st (tid t) = Ok (m, st1) ->
  exists t', tid t' = m /\ WFt tab st1 t' /\ erase t' = erase t /\
    forall dq p, TreeHeap.find_node st1 m p = res_of_fn (interp_find dp dq df (hpar st1) (hflg st1) t' p).
Proof.
  intros gp gf -> -> dp df Ep Ef st t m st1 HW Hd.
  injection Ep as <-. injection Ef as <-.
  destruct (find_node_on_copy_is_find_node_h st t m st1 HW Hd) as (t' & A & B & C & D).
  exists t'. split; [exact A|]. split; [exact B|]. split; [exact C|].
  intros dq p. rewrite interp_find_any_post. apply D.
Qed.

(* the WFt forms the property files use *)
Theorem find_node_WFt_is_descr : forall gp gf,
  gp = Some descr_pre -> gf = Some descr_find ->
  forall dp df, gp = Some dp -> gf = Some df ->
  forall dq st t p, WFt tab st t ->
  TreeHeap.find_node st (tid t) p = res_of_fn (interp_find dp dq df (hpar st) (hflg st) t p).
Proof.
  intros gp gf Hp Hf dp df Ep Ef dq st t p [HR Hn].
  exact (find_node_heap_is_descr gp gf Hp Hf dp df Ep Ef dq st None true t p HR Hn (parent_alloc_None st)).
Qed.

Theorem pre_order_WFt_is_descr : forall gp, gp = Some descr_pre -> forall dp, gp = Some dp ->
  forall st t, WFt tab st t -> pre_order st (tid t) = res_of_ids (interp_pre dp t).
Proof. intros gp Hp dp Ep st t [HR Hn]. exact (pre_order_heap_is_descr gp Hp dp Ep st None true t HR Hn). Qed.

Theorem n_nodes_WFt_is_descr : forall gr, gr = Some descr_props -> forall d, gr = Some d ->
  forall st t, WFt tab st t -> n_nodes st (tid t) = res_of_zcount (interp_props d t).
Proof. intros gr Hr d E st t [HR Hn]. exact (n_nodes_heap_is_descr gr Hr d E st None true t HR Hn). Qed.

End Link.

(* ------------------------------------------------------------------ outside the guard.
   A function cell whose stored parent is a dangling pointer (no Python state looks like this: a reference always
   designates an object).  (B) raises on the missing cell, (A) reads the parent of the missing cell as None. *)
Definition dangling_heap : hstate := mkH [mkCell (Fun 0) None None (Some 5) true None] 0.
Definition dangling_tree : tree := N 0 (Fun 0) None None.

Example find_node_differs_outside :
  ~ parent_alloc dangling_heap (Some 5) /\
  TreeHeap.find_node dangling_heap 0 0 = Exn /\
  res_of_fn (find_node_h (hpar dangling_heap) (hflg dangling_heap) dangling_tree 0) = Ok (None, false).
Proof.
  split; [| split; reflexivity].
  intros H. apply (H 5 eq_refl). reflexivity.
Qed.

(* ------------------------------------------------------------------ non-vacuity, against the real code.
   SUM(EXP(x0), MUL(x1, x2)) laid out as TreeSpace.grow links it (cells 0..5 in pre-order).  The answers below are
   the ones /repo returns (run of Node.find_node on the root r = 0 and on the attached sub-root b = 3, whose stored
   parent is r): root, p = 0: AttributeError;  b, p = 0: (None, False). *)
Definition ex_heap : hstate := mkH
  [ mkCell (Fun 0) (Some 1) (Some 3) None true None;
    mkCell (Fun 4) (Some 2) None (Some 0) true None;
    mkCell (Term 0) None None (Some 1) true (Some 0);
    mkCell (Fun 2) (Some 4) (Some 5) (Some 0) false None;
    mkCell (Term 1) None None (Some 3) true (Some 1);
    mkCell (Term 2) None None (Some 3) false (Some 2) ] 3.

Definition ex_sub : tree := N 3 (Fun 2) (Some (N 4 (Term 1) None None)) (Some (N 5 (Term 2) None None)).
Definition ex_root : tree :=
  N 0 (Fun 0) (Some (N 1 (Fun 4) (Some (N 2 (Term 0) None None)) None)) (Some ex_sub).

(* ... and it is a heap of the theorems: well-formed from the root, and [Rep] from the attached sub-root b *)
Definition ex_tab : list nat := [2; 2; 2; 2; 1].

Ltac rep_step :=
  match goal with
  | |- exists c, get _ _ = Some c /\ _ => eexists; split; [reflexivity|]
  | |- _ /\ _ => split
  | |- _ <> None -> _ => intros _; reflexivity
  | |- _ = _ => reflexivity
  | |- True => exact I
  end.
Ltac rep_shape :=
  solve [ eexists; split; [reflexivity | simpl; lia]
        | left; repeat split; (reflexivity || discriminate)
        | right; repeat split; (reflexivity || discriminate) ].

Example ex_heap_represents : WFt ex_tab ex_heap ex_root /\ Rep ex_tab ex_heap (Some 0) false ex_sub.
Proof.
  split; [split|].
  - simpl; repeat rep_step; rep_shape.
  - repeat constructor; simpl; intuition discriminate.
  - simpl; repeat rep_step; rep_shape.
Qed.

Example ex_heap_root_answers :
  map (TreeHeap.find_node ex_heap 0) [0; 1; 2; 3; 4; 5; 6; 7] =
  [Exn; Ok (None, false); Ok (Some 1, true); Ok (None, false); Ok (Some 3, true); Ok (Some 3, false);
   Ok (None, false); Ok (None, false)] /\
  map (fun p => res_of_fn (find_node_h (hpar ex_heap) (hflg ex_heap) ex_root p)) [0; 1; 2; 3; 4; 5; 6; 7] =
  map (TreeHeap.find_node ex_heap 0) [0; 1; 2; 3; 4; 5; 6; 7].
Proof. split; reflexivity. Qed.

Example ex_heap_subroot_answers :
  map (TreeHeap.find_node ex_heap 3) [0; 1; 2; 3] =
  [Ok (None, false); Ok (Some 3, true); Ok (Some 3, false); Ok (None, false)] /\
  map (fun p => res_of_fn (find_node_h (hpar ex_heap) (hflg ex_heap) ex_sub p)) [0; 1; 2; 3] =
  map (TreeHeap.find_node ex_heap 3) [0; 1; 2; 3] /\
  n_nodes ex_heap 3 = Ok 3 /\ n_nodes ex_heap 0 = Ok 6.
Proof. repeat split; reflexivity. Qed.
