(* Canonical serialisation of the object graph reachable from a list of roots, test fixtures, and the
   case checkers used by the correspondence run (props/_c0809_common.py generates the cases, harness/c0809.py
   produces the expected serialisations from the real Node graphs).  Executable only; no proofs.

   Serialisation of roots [r1..rk]:  pre-order of every root (child pointers);  G = the nodes in order of
   first occurrence;  A = the arrays in order of first occurrence, the space's terminal arrays 0..nt-1 first.
   A node is  [index in G; label; left; right; parent; flag; value]  with pointers coded as
   0 = None, 1 = a node/array outside G/A ("foreign"), k+2 = index k.  Identity sharing between inputs and
   outputs is therefore visible (same index), and so are in-place edits of the inputs. *)
From Coq Require Import List Arith Bool ZArith NArith.
From OV Require Import Model.TreeDef Model.TreeHeap.
Import ListNotations.

(* [N] is the tree constructor of TreeDef; the binary naturals are called [num] here *)
Notation num := BinNums.N.

Fixpoint find_idx (x : nat) (l : list nat) (i : nat) : option nat :=
  match l with [] => None | y :: l' => if Nat.eqb x y then Some i else find_idx x l' (S i) end.

Definition ptr_code (G : list nat) (p : option nat) : num :=
  match p with
  | None => 0%N
  | Some i => match find_idx i G 0 with Some k => (N.of_nat k + 2)%N | None => 1%N end
  end.

Definition lab_code (l : label) : num :=
  match l with Term k => (N.of_nat k * 2)%N | Fun op => (N.of_nat op * 2 + 1)%N end.

Definition ser_cell (st : hstate) (G A : list nat) (i : nat) : list num :=
  match get st i with
  | None => [999%N]
  | Some c => [ptr_code G (Some i); lab_code (c_lab c); ptr_code G (c_left c); ptr_code G (c_right c);
               ptr_code G (c_parent c); (if c_flag c then 1 else 0)%N; ptr_code A (c_val c)]
  end.

Fixpoint map_res {A B : Type} (f : A -> res B) (l : list A) : res (list B) :=
  match l with
  | [] => Ok []
  | x :: l' => bind (f x) (fun y => bind (map_res f l') (fun ys => Ok (y :: ys)))
  end.

Definition ser (nt : nat) (st : hstate) (roots : list nat) : res (list (list num)) :=
  bind (map_res (pre_order st) roots) (fun pres =>
    let G := dedup (concat pres) [] in
    let A := dedup (seq 0 nt ++ vals_of st G) [] in
    Ok (map (fun pre => flat_map (ser_cell st G A) pre) pres)).

Fixpoint nlist_eqb (a b : list num) : bool :=
  match a, b with
  | [], [] => true
  | x :: a', y :: b' => N.eqb x y && nlist_eqb a' b'
  | _, _ => false
  end.

Fixpoint nll_eqb (a b : list (list num)) : bool :=
  match a, b with
  | [], [] => true
  | x :: a', y :: b' => nlist_eqb x y && nll_eqb a' b'
  | _, _ => false
  end.

(* expected [[777]] = the implementation raised an exception *)
Definition chk (r : res (list (list num))) (e : list (list num)) : bool :=
  match r with
  | Ok s => nll_eqb s e
  | Exn => nll_eqb [[777%N]] e
  | Stuck => false
  end.

(* ------------------------------------------------------------------ fixtures *)
Inductive shape := ST (k : nat) | SU (op : nat) (a : shape) | SB (op : nat) (a b : shape).

(* the Node graph the harness builds for a shape: parent first, then the left subtree, then the right one *)
Fixpoint build (s : shape) (st : hstate) : nat * hstate :=
  match s with
  | ST k => alloc st (new_cell (Term k) (Some k))
  | SU op a =>
    let (n, st1) := alloc st (new_cell (Fun op) None) in
    let (x, st2) := build a st1 in
    (n, upd (upd st2 n (w_left (Some x))) x (w_parent (Some n)))
  | SB op a b =>
    let (n, st1) := alloc st (new_cell (Fun op) None) in
    let (x, st2) := build a st1 in
    let (y, st3) := build b st2 in
    (n, upd (upd (upd (upd (upd st3 n (w_left (Some x))) x (w_parent (Some n)))
                           n (w_right (Some y))) y (w_parent (Some n))) y (w_flag false))
  end.

Fixpoint build_many (ss : list shape) (st : hstate) : list nat * hstate :=
  match ss with
  | [] => ([], st)
  | s :: ss' => let (r, st1) := build s st in let (rs, st2) := build_many ss' st1 in (r :: rs, st2)
  end.

Definition nn (l : list frac) : list num := [N.of_nat (length l)].

(* ------------------------------------------------------------------ case checkers *)
Definition case_find (nt : nat) (s : shape) (p : nat) (e : list (list num)) : bool :=
  let (r, st) := build s (mkH [] nt) in
  chk (bind (find_node st r p) (fun sl =>
         bind (pre_order st r) (fun G => Ok [[ptr_code G (fst sl); (if snd sl then 1 else 0)%N]]))) e.

Definition case_deepcopy (nt : nat) (s : shape) (e : list (list num)) : bool :=
  let (r, st) := build s (mkH [] nt) in
  chk (bind (deepcopy st r) (fun c => ser nt (snd c) [r; fst c])) e.

Definition case_grow (E : genv) (ds : list frac) (e : list (list num)) : bool :=
  chk (bind (grow E (g_d0 E) ds (empty_heap E)) (fun x =>
         match x with (r, st, ds') => bind (ser (g_nt E) st [r]) (fun s => Ok (s ++ [nn ds'])) end)) e.

Definition case_mutate (E : genv) (s : shape) (maxn : nat) (ds : list frac) (e : list (list num)) : bool :=
  let (r, st) := build s (empty_heap E) in
  chk (bind (mutate E st r maxn ds) (fun x =>
         match x with (m, st', ds') => bind (ser (g_nt E) st' [r; m]) (fun s => Ok (s ++ [nn ds'])) end)) e.

Definition case_cross (nt : nat) (f m : shape) (maxf maxm : nat) (ds : list frac) (e : list (list num)) : bool :=
  let (rf, st1) := build f (mkH [] nt) in
  let (rm, st2) := build m st1 in
  chk (bind (cross st2 rf rm maxf maxm ds) (fun x =>
         match x with (fo, mo, st', ds') => bind (ser nt st' [rf; rm; fo; mo]) (fun s => Ok (s ++ [nn ds'])) end)) e.

(* father and mother the same object *)
Definition case_cross_same (nt : nat) (f : shape) (maxf maxm : nat) (ds : list frac) (e : list (list num)) : bool :=
  let (rf, st1) := build f (mkH [] nt) in
  chk (bind (cross st1 rf rf maxf maxm ds) (fun x =>
         match x with (fo, mo, st', ds') => bind (ser nt st' [rf; fo; mo]) (fun s => Ok (s ++ [nn ds'])) end)) e.

(* agents: [identity class among old ++ new; fit + 1000; tag] *)
Definition zcode (z : Z) : num := Z.to_N (z + 1000)%Z.
Definition ser_agents (old new : list agent) : list num :=
  let G := dedup (map a_id old ++ map a_id new) [] in
  flat_map (fun a => [ptr_code G (Some (a_id a)); zcode (a_fit a); N.of_nat (a_tag a)]) new.

Definition fixture_pop (nt : nat) (ss : list shape) (fits : list Z) : pop :=
  let (ts, st) := build_many ss (mkH [] nt) in
  mkPop st ts (map (fun p => mkAg (fst p) (snd p) (fst p)) (combine (seq 0 (length fits)) fits))
        0 None (length fits).

Definition case_repro (nt tsize : nat) (ss : list shape) (fits : list Z) (n : nat) (picks : list nat)
           (e : list (list num)) : bool :=
  let P := fixture_pop nt ss fits in
  chk (bind (reproduction tsize n picks P) (fun x =>
         let P' := fst x in
         bind (ser nt (p_heap P') (p_trees P ++ p_trees P')) (fun s =>
           Ok (s ++ [ser_agents (p_agents P) (p_agents P'); [N.of_nat (length (snd x))]])))) e.

(* a scripted GP run: snapshots of (best_tree :: trees) and of the agents' fits at every hook call
   (before each _evaluate) and at return *)
Definition snapshot (nt : nat) (P : pop) : res (list (list num)) :=
  bind (ser nt (p_heap P) (p_best P :: p_trees P)) (fun s => Ok (s ++ [map (fun a => zcode (a_fit a)) (p_agents P)])).

Fixpoint run_iters (E : genv) (G : gp_params) (iters : nat) (picks : list nat) (ds : list frac) (fits : list Z)
         (P : pop) (acc : list (list num)) : res (list (list num)) :=
  match iters with
  | 0 => bind (snapshot (g_nt E) P) (fun s =>
           Ok (acc ++ s ++ [[N.of_nat (length picks); N.of_nat (length ds); N.of_nat (length fits)]]))
  | S it =>
    bind (gp_update E G picks ds P) (fun r =>
      match r with (P1, picks1, ds1) =>
        bind (snapshot (g_nt E) P1) (fun s =>
          bind (sweep fits P1) (fun q => run_iters E G it picks1 ds1 (snd q) (fst q) (acc ++ s))) end)
  end.

Definition case_run (E : genv) (G : gp_params) (n_trees iters : nat) (picks : list nat) (ds : list frac)
           (fits : list Z) (e : list (list num)) : bool :=
  chk (bind (create_trees E n_trees ds) (fun c =>
         bind (snapshot (g_nt E) (fst c)) (fun s0 =>
           bind (sweep fits (fst c)) (fun q =>
             run_iters E G iters picks (snd c) (snd q) (fst q) s0)))) e.

(* a history: the space is created with the function set of E0, then `functions` is re-assigned (environment E)
   before the run *)
Definition case_run2 (E0 E : genv) (G : gp_params) (n_trees iters : nat) (picks : list nat) (ds : list frac)
           (fits : list Z) (e : list (list num)) : bool :=
  chk (bind (create_trees E0 n_trees ds) (fun c =>
         bind (snapshot (g_nt E) (fst c)) (fun s0 =>
           bind (sweep fits (fst c)) (fun q =>
             run_iters E G iters picks (snd c) (snd q) (fst q) s0)))) e.

(* general.tournament_selection alone *)
Definition case_tourn (tsize : nat) (fits : list Z) (k : nat) (picks : list nat) (e : list (list num)) : bool :=
  chk (bind (tournament tsize fits k picks) (fun r =>
         Ok [map N.of_nat (fst r); [N.of_nat (length (snd r))]])) e.

Fixpoint mismatches_from (l : list bool) (i : nat) : list nat :=
  match l with [] => [] | b :: l' => if b then mismatches_from l' (S i) else i :: mismatches_from l' (S i) end.
Definition bad_cases (l : list bool) : list nat := mismatches_from l 0.
