(* Population level: every step of GP (reproduction, crossover, mutation, the evaluation sweep that may
   replace best_tree) preserves: every tree and the best tree are well formed, no node is shared between
   any two of them, the population keeps its size.  Hence any sequence of steps does. *)
From Coq Require Import List Arith Bool Lia ZArith Permutation.
From OV Require Import Model.TreeDef Model.TreeHeap.
From OV Require Import Model.TreeHeapBase Model.TreeHeapSlot Model.TreeHeapCopy Model.TreeHeapGrow Model.TreeHeapOps.
Import ListNotations.

Section Trees.
Variable tab : list nat.

Definition all_ids (ts : list tree) : list nat := concat (map ids ts).

Definition trees_ok (st : hstate) (roots : list nat) (ts : list tree) : Prop :=
  Forall2 (fun r t => tid t = r /\ Rep tab st None true t) roots ts /\ NoDup (all_ids ts).

Lemma all_ids_cons : forall t ts, all_ids (t :: ts) = ids t ++ all_ids ts.
Proof. reflexivity. Qed.

Lemma all_ids_nth : forall ts k t x, nth_error ts k = Some t -> In x (ids t) -> In x (all_ids ts).
Proof.
  induction ts; intros k t x Hk Hx; destruct k; simpl in Hk; try discriminate; rewrite all_ids_cons; apply in_or_app.
  - inversion Hk; subst. auto.
  - right. eauto.
Qed.

Lemma all_ids_NoDup_nth : forall ts k t, NoDup (all_ids ts) -> nth_error ts k = Some t -> NoDup (ids t).
Proof.
  induction ts; intros k t Hn Hk; destruct k; simpl in Hk; try discriminate;
    rewrite all_ids_cons in Hn; apply NoDup_app_iff in Hn; destruct Hn as (A & B & C).
  - inversion Hk; subst. auto.
  - eauto.
Qed.

Lemma all_ids_set : forall ts k t x, In x (all_ids (set_nth k t ts)) -> In x (ids t) \/ In x (all_ids ts).
Proof.
  induction ts; intros k t x Hx; [destruct k; simpl in Hx; unfold all_ids in Hx; simpl in Hx; contradiction|].
  destruct k; cbn [set_nth] in Hx; rewrite all_ids_cons in *; apply in_app_or in Hx; destruct Hx as [Hx | Hx]; auto.
  - right. apply in_or_app. auto.
  - right. apply in_or_app. auto.
  - apply IHts in Hx. destruct Hx; auto. right. apply in_or_app. auto.
Qed.

Lemma all_ids_set_NoDup : forall ts k t,
  NoDup (all_ids ts) -> NoDup (ids t) -> (forall x, In x (ids t) -> ~ In x (all_ids ts)) ->
  NoDup (all_ids (set_nth k t ts)).
Proof.
  induction ts; intros k t Hn Ht Hd; [destruct k; simpl; unfold all_ids; simpl; constructor|]. cbn [set_nth].
  rewrite all_ids_cons in Hn. apply NoDup_app_iff in Hn. destruct Hn as (A & B & C).
  destruct k; cbn [set_nth]; rewrite all_ids_cons; apply NoDup_app_iff.
  - repeat split; auto. intros x Hx Hy. apply (Hd x Hx). rewrite all_ids_cons. apply in_or_app. auto.
  - repeat split; auto.
    + apply IHts; auto. intros x Hx Hy. apply (Hd x Hx). rewrite all_ids_cons. apply in_or_app. auto.
    + intros x Hx Hy. apply all_ids_set in Hy. destruct Hy as [Hy | Hy].
      * apply (Hd x Hy). rewrite all_ids_cons. apply in_or_app. auto.
      * eapply C; eauto.
Qed.

Lemma trees_ok_nth : forall st roots ts k r, trees_ok st roots ts -> nth_error roots k = Some r ->
  exists t, nth_error ts k = Some t /\ tid t = r /\ WFt tab st t.
Proof.
  intros st roots ts k r [HF HN]. revert k. induction HF; intros k Hk; destruct k; simpl in Hk; try discriminate.
  - inversion Hk; subst. destruct H as (A & B). exists y. repeat split; auto.
    rewrite all_ids_cons in HN. apply NoDup_app_iff in HN. tauto.
  - rewrite all_ids_cons in HN. apply NoDup_app_iff in HN. destruct HN as (_ & HN & _).
    destruct (IHHF HN k Hk) as (t & A & B & C). exists t. auto.
Qed.

Lemma trees_ok_ext : forall st st' roots ts, heap_ext st st' -> trees_ok st roots ts -> trees_ok st' roots ts.
Proof.
  intros st st' roots ts Hext [HF HN]. split; [|exact HN]. clear HN.
  induction HF; constructor.
  - destruct H. split; auto. eapply Rep_ext; eauto.
  - exact IHHF.
Qed.

Lemma trees_ok_ids_lt : forall st roots ts x, trees_ok st roots ts -> In x (all_ids ts) -> x < length (cells st).
Proof.
  intros st roots ts x [HF _]. induction HF; simpl; intros Hx; [contradiction|].
  rewrite all_ids_cons in Hx. apply in_app_or in Hx. destruct Hx as [Hx | Hx]; auto.
  destruct H. eapply Rep_ids_lt; eauto.
Qed.

Lemma trees_ok_length : forall st roots ts, trees_ok st roots ts -> length ts = length roots.
Proof. intros st roots ts [HF _]. induction HF; simpl; auto. Qed.

Lemma Forall2_set_nth : forall (A B : Type) (R : A -> B -> Prop) l1 l2 k a b,
  Forall2 R l1 l2 -> R a b -> Forall2 R (set_nth k a l1) (set_nth k b l2).
Proof.
  intros A B R l1 l2 k a b HF. revert k. induction HF; intros k HR; [destruct k; simpl; apply Forall2_nil|].
  destruct k; simpl; constructor; auto.
Qed.

Lemma trees_ok_set : forall st roots ts k r t,
  trees_ok st roots ts -> tid t = r -> WFt tab st t -> (forall x, In x (ids t) -> ~ In x (all_ids ts)) ->
  trees_ok st (set_nth k r roots) (set_nth k t ts).
Proof.
  intros st roots ts k r t [HF HN] Ht [HR Hn] Hd. split.
  - apply Forall2_set_nth; auto.
  - apply all_ids_set_NoDup; auto.
Qed.

(* overwriting a slot with a tree made of cells allocated after [st] *)
Lemma trees_ok_set_fresh : forall st st' roots ts k r t,
  trees_ok st roots ts -> heap_ext st st' -> fresh_tree tab st st' r t ->
  trees_ok st' (set_nth k r roots) (set_nth k t ts).
Proof.
  intros st st' roots ts k r t Hok Hext (A & B & C).
  apply trees_ok_set; auto.
  - eapply trees_ok_ext; eauto.
  - intros x Hx Hy. apply C in Hx. eapply trees_ok_ids_lt in Hy; eauto. lia.
Qed.

End Trees.

Lemma length_set_nth : forall (A : Type) (l : list A) k v, length (set_nth k v l) = length l.
Proof. induction l; destruct k; simpl; auto. Qed.

(* ------------------------------------------------------------------ the invariant *)
Definition Inv (E : genv) (n : nat) (P : pop) : Prop :=
  g_nt E <= narr (p_heap P) /\ length (p_trees P) = n /\ length (p_agents P) = n /\
  exists ts, trees_ok (g_arity E) (p_heap P) (p_best P :: p_trees P) ts.

Section Steps.
Variable E : genv.
Hypothesis HA : arity_ok E.
Variable n : nat.
Let tab := g_arity E.

Lemma Inv_tree : forall P k r, Inv E n P -> nth_error (p_trees P) k = Some r ->
  exists t, tid t = r /\ WFt tab (p_heap P) t.
Proof.
  intros P k r (_ & _ & _ & ts & Hok) Hk.
  destruct (trees_ok_nth tab _ _ _ (S k) r Hok Hk) as (t & _ & A & B). eauto.
Qed.

(* replace tree k by a fresh one *)
Lemma Inv_set_tree : forall P st' k r t ags aid,
  Inv E n P -> heap_ext (p_heap P) st' -> fresh_tree tab (p_heap P) st' r t -> length ags = n ->
  Inv E n (mkPop st' (set_nth k r (p_trees P)) ags (p_best P) (p_best_fit P) aid).
Proof.
  intros P st' k r t ags aid (A & B & C & ts & Hok) Hext Hf Hl. unfold Inv. simpl.
  split. { destruct Hext. lia. }
  split. { rewrite length_set_nth. auto. }
  split; auto.
  exists (set_nth (S k) t ts). apply (trees_ok_set_fresh tab _ _ _ _ (S k) r t Hok Hext Hf).
Qed.

Lemma Inv_set_best : forall P st' r t ags bf aid,
  Inv E n P -> heap_ext (p_heap P) st' -> fresh_tree tab (p_heap P) st' r t -> length ags = n ->
  Inv E n (mkPop st' (p_trees P) ags r bf aid).
Proof.
  intros P st' r t ags bf aid (A & B & C & ts & Hok) Hext Hf Hl. unfold Inv. simpl.
  split. { destruct Hext. lia. }
  split; auto. split; auto.
  exists (set_nth 0 t ts). apply (trees_ok_set_fresh tab _ _ _ _ 0 r t Hok Hext Hf).
Qed.

Lemma Inv_agents : forall P ags bf aid, Inv E n P -> length ags = n ->
  Inv E n (mkPop (p_heap P) (p_trees P) ags (p_best P) bf aid).
Proof. intros P ags bf aid (A & B & C & D) Hl. unfold Inv. simpl. auto. Qed.

(* ---- reproduction *)
Lemma repro_loop_inv : forall sel fitness P P', Inv E n P -> repro_loop sel fitness P = Ok P' -> Inv E n P'.
Proof.
  induction sel; intros fitness P P' HI Hr; simpl in Hr.
  - inversion Hr; subst; auto.
  - destruct (nth_error (p_trees P) a) as [ts|] eqn:Et; [|discriminate].
    destruct (nth_error (p_agents P) a) as [ag|] eqn:Ea; [|discriminate].
    destruct (Inv_tree P a ts HI Et) as (t & Ht & HW). subst ts.
    destruct (deepcopy_fresh tab _ t HW) as (st' & Hd & Hext & Hf).
    rewrite Hd in Hr. destruct (argmax fitness <? length (p_trees P)); [|discriminate].
    eapply IHsel; [|exact Hr].
    eapply Inv_set_tree; eauto. rewrite length_set_nth. destruct HI as (_ & _ & C & _). auto.
Qed.

Theorem reproduction_inv : forall tsize k picks P P' picks',
  Inv E n P -> reproduction tsize k picks P = Ok (P', picks') -> Inv E n P'.
Proof.
  intros tsize k picks P P' picks' HI Hr. unfold reproduction, bind in Hr.
  destruct (tournament tsize (map a_fit (p_agents P)) k picks) as [[sel pk]| |]; try discriminate.
  simpl in Hr. destruct (repro_loop sel (map a_fit (p_agents P)) P) as [P1| |] eqn:El; try discriminate.
  inversion Hr; subst. eapply repro_loop_inv; eauto.
Qed.

(* ---- mutation *)
Lemma with_heap_Inv : forall P st' k r t,
  Inv E n P -> heap_ext (p_heap P) st' -> fresh_tree tab (p_heap P) st' r t ->
  Inv E n (with_heap P st' (set_nth k r (p_trees P))).
Proof. intros. unfold with_heap. eapply Inv_set_tree; eauto. destruct H as (_ & _ & C & _). auto. Qed.

Lemma mutation_loop_inv : forall ratio sel ds P P' ds',
  Inv E n P -> mutation_loop E ratio sel ds P = Ok (P', ds') -> Inv E n P'.
Proof.
  induction sel; intros ds P P' ds' HI Hm; simpl in Hm.
  - inversion Hm; subst; auto.
  - destruct (nth_error (p_trees P) a) as [ts|] eqn:Et; [|discriminate].
    destruct (Inv_tree P a ts HI Et) as (t & Ht & HW). subst ts.
    unfold bind in Hm. destruct (n_nodes (p_heap P) (tid t)) as [nn| |]; try discriminate.
    pose proof HI as (Hnt & _).
    destruct (1 <? nn).
    + destruct (mutate E (p_heap P) (tid t) (prune ratio nn) ds) as [[[t' h'] ds1]| |] eqn:Em; try discriminate.
      destruct (mutate_post E HA _ _ _ _ _ _ _ Hnt HW Em) as (Hext & tm & Hf & _).
      eapply IHsel; [|exact Hm]. eapply with_heap_Inv; eauto.
    + destruct (grow E (g_d0 E) ds (p_heap P)) as [[[t' h'] ds1]| |] eqn:Eg; try discriminate.
      pose proof (grow_grown E HA _ _ _ _ _ _ Hnt Eg) as Hgr.
      destruct (grown_fresh E _ _ _ _ Hgr) as (Hext & tg & Hf & _).
      eapply IHsel; [|exact Hm]. eapply with_heap_Inv; eauto.
Qed.

Theorem mutation_inv : forall tsize ratio k picks ds P P' picks' ds',
  Inv E n P -> mutation E tsize ratio k picks ds P = Ok (P', picks', ds') -> Inv E n P'.
Proof.
  intros tsize ratio k picks ds P P' picks' ds' HI Hm. unfold mutation, bind in Hm.
  destruct (tournament tsize (map a_fit (p_agents P)) k picks) as [[sel pk]| |]; try discriminate.
  simpl in Hm. destruct (mutation_loop E ratio sel ds P) as [[P1 ds1]| |] eqn:El; try discriminate.
  inversion Hm; subst. eapply mutation_loop_inv; eauto.
Qed.

(* ---- crossover *)
Lemma crossover_loop_inv : forall ratio sel ds P P' ds',
  Inv E n P -> crossover_loop ratio sel ds P = Ok (P', ds') -> Inv E n P'.
Proof.
  intros ratio sel. remember (length sel) as m eqn:Hm. revert sel Hm.
  induction m as [m IH] using lt_wf_ind. intros sel Hm ds P P' ds' HI Hc.
  destruct sel as [|s0 [|s1 sel']]; simpl in Hc.
  - inversion Hc; subst; auto.
  - discriminate.
  - destruct (nth_error (p_trees P) s0) as [rf|] eqn:Ef; [|discriminate].
    destruct (nth_error (p_trees P) s1) as [rm|] eqn:Em; [|discriminate].
    destruct (Inv_tree P s0 rf HI Ef) as (tf & Htf & HWf). subst rf.
    destruct (Inv_tree P s1 rm HI Em) as (tm & Htm & HWm). subst rm.
    unfold bind in Hc.
    destruct (n_nodes (p_heap P) (tid tf)) as [nf| |]; try discriminate.
    destruct (n_nodes (p_heap P) (tid tm)) as [nm| |]; try discriminate.
    destruct ((1 <? nf) && (1 <? nm)).
    + destruct (cross (p_heap P) (tid tf) (tid tm) (prune ratio nf) (prune ratio nm) ds)
        as [[[[fo mo] h'] ds1]| |] eqn:Ec; try discriminate.
      destruct (cross_post tab _ _ _ _ _ _ _ _ _ _ HWf HWm Ec) as (Hext & tfo & tmo & Hff & Hfm & Hdis & _).
      eapply (IH (length sel')); [simpl in Hm; lia | reflexivity | | exact Hc].
      (* two successive overwrites *)
      destruct HI as (A & B & C & ts & Hok). unfold with_heap, Inv. simpl.
      split. { destruct Hext. lia. }
      split. { rewrite !length_set_nth. auto. }
      split; auto.
      exists (set_nth (S s1) tmo (set_nth (S s0) tfo ts)).
      pose proof (trees_ok_set_fresh tab _ _ _ _ (S s0) fo tfo Hok Hext Hff) as Hok1.
      destruct Hfm as (F1 & F2 & F3).
      apply (trees_ok_set tab _ _ _ (S s1) mo tmo Hok1 F1 F2).
      intros x Hx Hy. apply all_ids_set in Hy. destruct Hy as [Hy | Hy].
      * eapply Hdis; eauto.
      * apply F3 in Hx. eapply trees_ok_ids_lt in Hy; eauto. lia.
    + eapply (IH (length sel')); [simpl in Hm; lia | reflexivity | exact HI | exact Hc].
Qed.

Theorem crossover_inv : forall tsize ratio k picks ds P P' picks' ds',
  Inv E n P -> crossover tsize ratio k picks ds P = Ok (P', picks', ds') -> Inv E n P'.
Proof.
  intros tsize ratio k picks ds P P' picks' ds' HI Hm. unfold crossover, bind in Hm.
  destruct (tournament tsize (map a_fit (p_agents P)) _ picks) as [[sel pk]| |]; try discriminate.
  simpl in Hm. destruct (crossover_loop ratio sel ds P) as [[P1 ds1]| |] eqn:El; try discriminate.
  inversion Hm; subst. eapply crossover_loop_inv; eauto.
Qed.

(* ---- the evaluation sweep: agents get new fits, best_tree may become a deep copy of a tree *)
Lemma sweep_loop_inv : forall todo i fits P P' fits',
  Inv E n P -> (forall r, In r todo -> In r (p_trees P)) ->
  sweep_loop i todo fits P = Ok (P', fits') -> Inv E n P' .
Proof.
  induction todo; intros i fits P P' fits' HI Hin Hs; simpl in Hs.
  - inversion Hs; subst; auto.
  - destruct fits as [|f fits1]; [discriminate|].
    set (ags := match nth_error (p_agents P) i with
                | Some ag => set_nth i (mkAg (a_id ag) f (a_tag ag)) (p_agents P)
                | None => p_agents P end) in *.
    assert (Hl : length ags = n).
    { unfold ags. destruct HI as (_ & _ & C & _). destruct (nth_error (p_agents P) i); auto. rewrite length_set_nth. auto. }
    destruct (better f (p_best_fit P)).
    + assert (Ha : In a (p_trees P)) by (apply Hin; simpl; auto).
      apply In_nth_error in Ha. destruct Ha as (k & Hk).
      destruct (Inv_tree P k a HI Hk) as (t & Ht & HW). subst a.
      destruct (deepcopy_fresh tab _ t HW) as (st' & Hd & Hext & Hf).
      rewrite Hd in Hs. eapply IHtodo; [| |exact Hs].
      * eapply Inv_set_best; eauto.
      * simpl. intros. apply Hin. simpl. auto.
    + eapply IHtodo; [| |exact Hs].
      * apply Inv_agents; auto.
      * simpl. intros. apply Hin. simpl. auto.
Qed.

Lemma In_firstn_in : forall (A : Type) k (l : list A) x, In x (firstn k l) -> In x l.
Proof. induction k; destruct l; simpl; intros x H; try contradiction. destruct H; auto. Qed.

Theorem sweep_inv : forall fits P P' fits', Inv E n P -> sweep fits P = Ok (P', fits') -> Inv E n P'.
Proof.
  intros fits P P' fits' HI Hs. unfold sweep in Hs.
  eapply (sweep_loop_inv _ 0 fits P P' fits' HI); [|exact Hs].
  intros r Hr. eapply In_firstn_in; eauto.
Qed.

End Steps.

(* ------------------------------------------------------------------ initial population, runs *)
Section Run.
Variable E : genv.
Hypothesis HA : arity_ok E.
Let tab := g_arity E.

Lemma trees_ok_cons_fresh : forall st st' roots ts r t,
  trees_ok tab st roots ts -> heap_ext st st' -> fresh_tree tab st st' r t ->
  trees_ok tab st' (r :: roots) (t :: ts).
Proof.
  intros st st' roots ts r t Hok Hext (A & (B1 & B2) & C).
  pose proof (trees_ok_ext tab _ _ _ _ Hext Hok) as [HF HN]. split.
  - constructor; auto.
  - rewrite all_ids_cons. apply NoDup_app_iff. repeat split; auto.
    intros x Hx Hy. apply C in Hx. eapply trees_ok_ids_lt in Hy; eauto. lia.
Qed.

Lemma trees_ok_nil : forall st, trees_ok tab st [] [].
Proof. intros. split; constructor. Qed.

Lemma grow_many_ok : forall k ds st roots st' ds',
  g_nt E <= narr st -> grow_many E k ds st = Ok (roots, st', ds') ->
  heap_ext st st' /\ narr st' = narr st /\ length roots = k /\
  exists ts, trees_ok tab st' roots ts /\ (forall x, In x (all_ids ts) -> length (cells st) <= x) /\
             Forall (fun t => height t <= S (g_d0 E)) ts.
Proof.
  induction k; intros ds st roots st' ds' Hnt Hg; simpl in Hg.
  - inversion Hg; subst. split; [apply heap_ext_refl|]. split; auto. split; auto.
    exists []. split; [apply trees_ok_nil|]. split; [intros x []|constructor].
  - destruct (grow E (g_d0 E) ds st) as [[[t st1] ds1]| |] eqn:Eg; try discriminate.
    destruct (grow_many E k ds1 st1) as [[[rs st2] ds2]| |] eqn:Em; try discriminate.
    inversion Hg; subst. clear Hg.
    pose proof (grow_grown E HA _ _ _ _ _ _ Hnt Eg) as Hgr.
    pose proof Hgr as (_ & Hn1 & _).
    destruct (grown_fresh E _ _ _ _ Hgr) as (Hext1 & tt & (T1 & (T2 & T3) & T4) & Hh & _).
    destruct (IHk ds1 st1 rs st' ds' ltac:(lia) Em) as (Hext2 & Hn2 & Hl & ts & Hok & Hlo & Hhs).
    split. { eapply heap_ext_trans; eauto. }
    split. { lia. }
    split. { simpl. lia. }
    exists (tt :: ts). split.
    + destruct Hok as [HF HN]. split.
      * constructor; auto. split; auto. eapply Rep_ext; eauto.
      * rewrite all_ids_cons. apply NoDup_app_iff. repeat split; auto.
        intros x Hx Hy. apply T4 in Hx. apply Hlo in Hy. lia.
    + split.
      * intros x Hx. rewrite all_ids_cons in Hx. apply in_app_or in Hx. destruct Hx as [Hx | Hx].
        -- apply T4 in Hx. lia.
        -- apply Hlo in Hx. destruct Hext1 as (_ & L & _). lia.
      * constructor; auto.
Qed.

Theorem create_trees_inv : forall n ds P ds',
  create_trees E n ds = Ok (P, ds') ->
  Inv E n P /\ (exists ts, Forall2 (fun r t => tid t = r /\ WFt tab (p_heap P) t) (p_trees P) ts /\
                           Forall (fun t => height t <= S (g_d0 E)) ts).
Proof.
  intros n ds P ds' Hc. unfold create_trees in Hc.
  destruct (grow_many E n ds (empty_heap E)) as [[[rs st] ds1]| |] eqn:Eg; try discriminate.
  assert (Hnt0 : g_nt E <= narr (empty_heap E)) by (simpl; lia).
  destruct (grow_many_ok _ _ _ _ _ _ Hnt0 Eg) as (Hext & Hn & Hl & ts & Hok & _ & Hh).
  destruct rs as [|t0 rs']; [discriminate|].
  destruct (trees_ok_nth tab _ _ _ 0 t0 Hok eq_refl) as (tt0 & _ & Ht0 & HW0). subst t0.
  destruct (deepcopy_fresh tab _ tt0 HW0) as (st' & Hd & Hext' & Hf).
  rewrite Hd in Hc. inversion Hc; subst. clear Hc. split.
  - unfold Inv. simpl. split. { destruct Hext'. simpl in *. lia. }
    split; auto. split. { rewrite map_length, seq_length. reflexivity. }
    eexists. eapply trees_ok_cons_fresh; eauto.
  - simpl. exists ts. split; auto.
    pose proof (trees_ok_ext tab _ _ _ _ Hext' Hok) as Hok'.
    clear - Hok'. destruct Hok' as [HF HN]. revert HN. induction HF; intros HN; constructor.
    + destruct H. rewrite all_ids_cons in HN. apply NoDup_app_iff in HN. repeat split; tauto.
    + apply IHHF. rewrite all_ids_cons in HN. apply NoDup_app_iff in HN. tauto.
Qed.

(* steps of a GP run, in any order and number *)
Inductive step :=
| SRepro (tsize k : nat) (picks : list nat)
| SCross (tsize : nat) (ratio : frac) (k : nat) (picks : list nat) (ds : list frac)
| SMut (tsize : nat) (ratio : frac) (k : nat) (picks : list nat) (ds : list frac)
| SSweep (fits : list Z).

Definition do_step (s : step) (P : pop) : res pop :=
  match s with
  | SRepro tsize k picks => bind (reproduction tsize k picks P) (fun r => Ok (fst r))
  | SCross tsize ratio k picks ds => bind (crossover tsize ratio k picks ds P) (fun r => Ok (fst (fst r)))
  | SMut tsize ratio k picks ds => bind (mutation E tsize ratio k picks ds P) (fun r => Ok (fst (fst r)))
  | SSweep fits => bind (sweep fits P) (fun r => Ok (fst r))
  end.

Fixpoint do_steps (ss : list step) (P : pop) : res pop :=
  match ss with [] => Ok P | s :: ss' => bind (do_step s P) (do_steps ss') end.

Theorem gp_step_inv : forall n s P P', Inv E n P -> do_step s P = Ok P' -> Inv E n P'.
Proof.
  intros n s P P' HI Hs. destruct s; simpl in Hs; unfold bind in Hs.
  - destruct (reproduction tsize k picks P) as [[P1 pk]| |] eqn:Er; try discriminate. inversion Hs; subst.
    eapply reproduction_inv; eauto.
  - destruct (crossover tsize ratio k picks ds P) as [[[P1 pk] d1]| |] eqn:Er; try discriminate. inversion Hs; subst.
    eapply crossover_inv; eauto.
  - destruct (mutation E tsize ratio k picks ds P) as [[[P1 pk] d1]| |] eqn:Er; try discriminate. inversion Hs; subst.
    eapply mutation_inv; eauto.
  - destruct (sweep fits P) as [[P1 f1]| |] eqn:Er; try discriminate. inversion Hs; subst.
    eapply sweep_inv; eauto.
Qed.

Theorem gp_run_inv : forall n ss P P', Inv E n P -> do_steps ss P = Ok P' -> Inv E n P'.
Proof.
  induction ss; intros P P' HI Hs; simpl in Hs.
  - inversion Hs; subst; auto.
  - unfold bind in Hs. destruct (do_step a P) as [P1| |] eqn:E1; try discriminate.
    eapply IHss; [|exact Hs]. eapply gp_step_inv; eauto.
Qed.

(* one iteration as the code runs it: _update = reproduction; crossover; mutation *)
Theorem gp_update_inv : forall n G picks ds P P' picks' ds',
  Inv E n P -> gp_update E G picks ds P = Ok (P', picks', ds') -> Inv E n P'.
Proof.
  intros n G picks ds P P' picks' ds' HI Hu. unfold gp_update, bind in Hu.
  destruct (reproduction (gp_tsize G) (gp_nrep G) picks P) as [[P1 pk1]| |] eqn:E1; try discriminate. simpl in Hu.
  destruct (crossover (gp_tsize G) (gp_ratio G) (gp_ncross G) pk1 ds P1) as [[[P2 pk2] ds2]| |] eqn:E2; try discriminate.
  eapply mutation_inv; [exact HA| |exact Hu].
  eapply crossover_inv; [|exact E2]. eapply reproduction_inv; eauto.
Qed.

(* what the invariant says, unfolded *)
Theorem Inv_meaning : forall n P, Inv E n P ->
  length (p_trees P) = n /\
  exists tb ts, tid tb = p_best P /\ WFt tab (p_heap P) tb /\
    Forall2 (fun r t => tid t = r /\ WFt tab (p_heap P) t) (p_trees P) ts /\
    NoDup (ids tb ++ all_ids ts).
Proof.
  intros n P (_ & Hl & _ & ts & [HF HN]). split; auto.
  inversion HF; subst. destruct H1 as (A & B). rewrite all_ids_cons in HN.
  exists y, l'. split; auto. pose proof HN as HN'. apply NoDup_app_iff in HN'. destruct HN' as (N1 & N2 & _).
  split. { split; auto. } split; auto.
  clear - H3 N2. revert N2. induction H3; intros HN; constructor.
  - destruct H. rewrite all_ids_cons in HN. apply NoDup_app_iff in HN. repeat split; tauto.
  - apply IHForall2. rewrite all_ids_cons in HN. apply NoDup_app_iff in HN. tauto.
Qed.

End Run.
