(* C09: the operators perform the subtree operations they name, stated on the abstraction [abs] and on
   the slot that find_node designates *in the parent*; parents untouched; node multiset conserved. *)
From Coq Require Import List Arith Bool Lia ZArith Permutation.
From OV Require Import Model.TreeDef Model.TreeHeap.
From OV Require Import Model.TreeHeapBase Model.TreeHeapSlot Model.TreeHeapCopy Model.TreeHeapGrow Model.TreeHeapOps.
Import ListNotations.

Section Abs.
Variable tab : list nat.

Lemma abs_f_rep : forall st t par fl fuel,
  Rep tab st par fl t -> height t <= fuel -> abs_f fuel st (tid t) = Some t.
Proof.
  intros st t. induction t using tree_ind'. intros par fl fuel (c & Hg & H1 & H2 & H3 & H4 & H5 & H6 & Hl & Hr) Hh.
  simpl in Hh. destruct fuel; [lia|]. simpl. rewrite Hg, H2, H3. subst lab.
  destruct l as [a|]; simpl.
  - simpl in H. rewrite (H (Some i) true fuel Hl) by (simpl in Hh; lia).
    destruct r as [b|]; simpl.
    + simpl in H0. rewrite (H0 (Some i) false fuel Hr) by (simpl in Hh; lia). reflexivity.
    + reflexivity.
  - destruct r as [b|]; simpl.
    + simpl in H0. rewrite (H0 (Some i) false fuel Hr) by (simpl in Hh; lia). reflexivity.
    + reflexivity.
Qed.

Theorem abs_WFt : forall st t, WFt tab st t -> abs st (tid t) = Some t.
Proof.
  intros st t HW. pose proof HW as [HR Hn]. unfold abs. eapply abs_f_rep; eauto.
  pose proof (height_le_size t). pose proof (WFt_size tab st t HW). lia.
Qed.

(* ------------------------------------------------------------------ find_node through a renaming *)
Definition rmap (rn : nat -> nat) (x : res (option nat * bool)) : res (option nat * bool) :=
  match x with Ok (s, f) => Ok (option_map rn s, f) | Exn => Exn | Stuck => Stuck end.

Lemma find_node_rename : forall st st' rn t p,
  WFt tab st t -> WFt tab st' (rename rn t) ->
  (forall i c, In i (ids t) -> get st i = Some c ->
     exists c', get st' (rn i) = Some c' /\ c_lab c' = c_lab c /\ c_parent c' = option_map rn (c_parent c) /\
                c_flag c' = c_flag c) ->
  find_node st' (rn (tid t)) p = rmap rn (find_node st (tid t) p).
Proof.
  intros st st' rn t p HW HW' Hc. pose proof HW as [HR Hn].
  unfold find_node. rewrite <- tid_rename. rewrite (pre_order_WFt tab st' _ HW'), (pre_order_WFt tab st t HW).
  rewrite ids_rename, nth_error_map.
  destruct (nth_error (ids t) p) as [n|] eqn:En; simpl; [|reflexivity].
  apply nth_error_In in En.
  destruct (Rep_cell tab _ _ _ _ n HR En) as (c & Gc).
  destruct (Hc n c En Gc) as (c' & Gc' & L' & P' & F').
  rewrite Gc, Gc', L'. destruct (c_lab c); simpl.
  - rewrite P', F'. reflexivity.
  - rewrite P'. destruct (c_parent c) as [q|] eqn:Pq; simpl; [|reflexivity].
    assert (Hq : In q (ids t)).
    { destruct (Nat.eq_dec n (tid t)) as [-> | Hne].
      - destruct (Rep_root_cell _ _ _ _ _ HR) as (cr & Gr & Pr & _). congruence.
      - destruct (Rep_parent_link _ _ _ _ _ _ HR Hn En Hne) as (c0 & q0 & u & G0 & P0 & S0 & _).
        rewrite Gc in G0. inversion G0; subst c0. rewrite Pq in P0. inversion P0; subst q0.
        destruct (sub_at_facts _ _ _ _ Hn S0). auto. }
    destruct (Rep_cell tab _ _ _ _ q HR Hq) as (cq & Gq).
    destruct (Hc q cq Hq Gq) as (cq' & Gq' & _ & Pq' & Fq').
    rewrite Gq, Gq', Pq', Fq'. destruct (c_parent cq); reflexivity.
Qed.

Lemma rename_id : forall t, rename (fun i => i) t = t.
Proof.
  induction t using tree_ind'. simpl. destruct l, r; simpl in *; rewrite ?H, ?H0; reflexivity.
Qed.

Lemma option_map_id : forall (o : option nat), option_map (fun i => i) o = o.
Proof. destruct o; reflexivity. Qed.

(* find_node only looks at the tree: it is not affected by allocations and writes elsewhere *)
Lemma find_node_ext : forall st st' t p,
  WFt tab st t -> heap_ext st st' -> find_node st' (tid t) p = find_node st (tid t) p.
Proof.
  intros st st' t p HW Hext. pose proof HW as [HR Hn].
  assert (HW' : WFt tab st' (rename (fun i => i) t)).
  { rewrite rename_id. split; auto. eapply Rep_ext; eauto. }
  rewrite (find_node_rename st st' (fun i => i) t p HW HW').
  - destruct (find_node st (tid t) p) as [[s f]| |]; simpl; auto. rewrite option_map_id. reflexivity.
  - intros i c Hi Hg. exists c. rewrite option_map_id. repeat split; auto.
    destruct Hext as (_ & _ & He). rewrite He; auto. eapply Rep_ids_lt; eauto.
Qed.

(* the copy made by deepcopy: find_node designates the renamed slot *)
Lemma find_node_copy : forall st t p,
  WFt tab st t ->
  exists st', deepcopy st (tid t) = Ok (copy_ren st t (tid t), st') /\
    find_node st' (copy_ren st t (tid t)) p = rmap (copy_ren st t) (find_node st (tid t) p).
Proof.
  intros st t p HW. destruct (deepcopy_WFt tab st t HW) as (st' & A & B & C & D & ra & Hcells).
  exists st'. split; auto. apply find_node_rename; auto.
  intros i c Hi Hg. exists (ren_cell (copy_ren st t) ra c). split; [apply Hcells; auto|]. simpl. auto.
Qed.

End Abs.

(* ------------------------------------------------------------------ subst / sub through a renaming *)
Lemma sub_at_rename : forall f t s side,
  (forall i, In i (ids t) -> f i = f s -> i = s) ->
  sub_at (rename f t) (f s) side = option_map (rename f) (sub_at t s side).
Proof.
  intros f t. induction t using tree_ind'. intros s side Hinj. rewrite ids_N in Hinj. simpl.
  assert (Nat.eqb (f i) (f s) = Nat.eqb i s) as ->.
  { destruct (Nat.eqb i s) eqn:E.
    - apply Nat.eqb_eq in E. subst. apply Nat.eqb_refl.
    - apply Nat.eqb_neq. intro X. apply Nat.eqb_neq in E. apply E. apply Hinj; simpl; auto. }
  destruct (Nat.eqb i s).
  - destruct side; [destruct l | destruct r]; reflexivity.
  - destruct l as [a|]; simpl in *.
    + rewrite H by (intros; apply Hinj; auto; right; apply in_or_app; auto).
      destruct (sub_at a s side); simpl; auto.
      destruct r as [b|]; simpl in *; auto.
      apply H0. intros; apply Hinj; auto; right; apply in_or_app; auto.
    + destruct r as [b|]; simpl in *; auto.
Qed.

Lemma erase_subst_rename : forall f t s side b b',
  (forall i, In i (ids t) -> f i = f s -> i = s) -> erase b = erase b' ->
  erase (subst_at (rename f t) (f s) side b) = erase (subst_at t s side b').
Proof.
  intros f t. induction t using tree_ind'. intros s side b b' Hinj Hb. rewrite ids_N in Hinj. simpl.
  assert (Nat.eqb (f i) (f s) = Nat.eqb i s) as ->.
  { destruct (Nat.eqb i s) eqn:E.
    - apply Nat.eqb_eq in E. subst. apply Nat.eqb_refl.
    - apply Nat.eqb_neq. intro X. apply Nat.eqb_neq in E. apply E. apply Hinj; simpl; auto. }
  destruct (Nat.eqb i s).
  - destruct side; simpl; rewrite Hb.
    + destruct r; simpl; rewrite ?erase_rename; reflexivity.
    + destruct l; simpl; rewrite ?erase_rename; reflexivity.
  - simpl. f_equal.
    + destruct l as [a|]; simpl in *; auto. f_equal. apply H; auto.
      intros; apply Hinj; auto; right; apply in_or_app; auto.
    + destruct r as [a|]; simpl in *; auto. f_equal. apply H0; auto.
      intros; apply Hinj; auto; right; apply in_or_app; auto.
Qed.

Lemma copy_ren_inj : forall st t i s, In i (ids t) -> In s (ids t) -> copy_ren st t i = copy_ren st t s -> i = s.
Proof. unfold copy_ren. intros. eapply index_of_inj; eauto. lia. Qed.

(* ------------------------------------------------------------------ C09: mutation *)
Section MutateSpec.
Variable E : genv.
Hypothesis HA : arity_ok E.
Let tab := g_arity E.

Theorem mutate_spec : forall st t maxn u ds1 m st' ds',
  g_nt E <= narr st -> WFt tab st t ->
  mutate E st (tid t) maxn (u :: ds1) = Ok (m, st', ds') ->
  exists tm st1, abs st' m = Some tm /\ WFt tab st' tm /\ deepcopy st (tid t) = Ok (copy_ren st t (tid t), st1) /\
    match find_node st (tid t) (scale 2 maxn u) with
    | Ok (Some s, side) =>
      (* exactly the selected slot is replaced by the freshly grown subtree *)
      exists old tb st2, sub_at t s side = Some old /\
        grow E (g_d0 E) ds1 st1 = Ok (tid tb, st2, ds') /\ abs st2 (tid tb) = Some tb /\
        height tb <= S (g_d0 E) /\
        erase tm = erase (subst_at t s side tb)
    | Ok (None, _) =>
      (* no slot selected: the result is a wholly fresh grown tree *)
      grow E (g_d0 E) ds1 st1 = Ok (m, st', ds') /\ height tm <= S (g_d0 E)
    | _ => False
    end.
Proof.
  intros st t maxn u ds1 m st' ds' Hnt HW Hm.
  destruct (mutate_post E HA _ _ _ _ _ _ _ Hnt HW Hm) as (Hext & tm & (Htm & HWm & Hrm) & u0 & ds0 & st1 & Hds & Hdc & Hcase).
  inversion Hds; subst u0 ds0. clear Hds.
  destruct (find_node_copy tab st t (scale 2 maxn u) HW) as (st1' & Hdc' & Hfc).
  rewrite Hdc in Hdc'. inversion Hdc'; subst st1'. clear Hdc'.
  exists tm, st1. split. { rewrite <- Htm. apply (abs_WFt tab). auto. }
  split; auto. split; auto.
  rewrite Hfc in Hcase. pose proof HW as [HR Hn].
  destruct (find_node st (tid t) (scale 2 maxn u)) as [[[s|] side]| |] eqn:Ef; simpl in Hcase; auto.
  destruct Hcase as (old' & tb & st2 & Hs' & Hg & (Htb & HWb & Hrb) & Hh & Hst & Htm').
  destruct (find_node_slot tab st t _ s side HW Ef) as (old & Hs).
  destruct (sub_at_facts _ _ _ _ Hn Hs) as (Sin & _).
  exists old, tb, st2. split; auto. split; auto.
  split. { apply (abs_WFt tab). auto. }
  split; auto. rewrite Htm'. apply erase_subst_rename; auto.
  intros i Hi X. eapply copy_ren_inj; eauto.
Qed.

(* the parent is untouched, and the result is made of cells that did not exist *)
Theorem mutate_frame : forall st t maxn ds m st' ds',
  g_nt E <= narr st -> WFt tab st t ->
  mutate E st (tid t) maxn ds = Ok (m, st', ds') ->
  (forall i, i < length (cells st) -> get st' i = get st i) /\ WFt tab st' t /\
  exists tm, abs st' m = Some tm /\ forall x, In x (ids tm) -> length (cells st) <= x /\ ~ In x (ids t).
Proof.
  intros st t maxn ds m st' ds' Hnt HW Hm.
  destruct (mutate_post E HA _ _ _ _ _ _ _ Hnt HW Hm) as (Hext & tm & (Htm & HWm & Hrm) & _).
  pose proof HW as [HR Hn]. split. { destruct Hext as (_ & _ & He). auto. }
  split. { split; auto. eapply Rep_ext; eauto. }
  exists tm. split. { rewrite <- Htm. apply (abs_WFt tab). auto. }
  intros x Hx. apply Hrm in Hx. split; [lia|]. intro Hy. eapply Rep_ids_lt in Hy; eauto. lia.
Qed.

End MutateSpec.

(* ------------------------------------------------------------------ C09: crossover *)
Section CrossSpec.
Variable tab : list nat.

Lemma label_dec : forall x y : label, {x = y} + {x <> y}.
Proof. repeat decide equality. Qed.

Lemma labels_subst_count : forall t s side b old x, NoDup (ids t) -> sub_at t s side = Some old ->
  count_occ label_dec (labels (subst_at t s side b)) x + count_occ label_dec (labels old) x =
  count_occ label_dec (labels t) x + count_occ label_dec (labels b) x.
Proof.
  intros t s side b old x Hn Hs. rewrite <- !count_occ_app. apply Permutation_count_occ.
  unfold labels. rewrite <- !map_app. apply Permutation_map. apply nodes_subst_perm; auto.
Qed.

Theorem cross_spec : forall st tf tm maxf maxm uf um ds2 fo mo st' ds',
  WFt tab st tf -> WFt tab st tm ->
  cross st (tid tf) (tid tm) maxf maxm (uf :: um :: ds2) = Ok (fo, mo, st', ds') ->
  exists tfo tmo, abs st' fo = Some tfo /\ abs st' mo = Some tmo /\ WFt tab st' tfo /\ WFt tab st' tmo /\
    (forall x, In x (ids tfo) -> ~ In x (ids tmo)) /\
    (* the combined multiset of node labels is conserved *)
    Permutation (labels tfo ++ labels tmo) (labels tf ++ labels tm) /\
    match find_node st (tid tf) (scale 2 maxf uf), find_node st (tid tm) (scale 2 maxm um) with
    | Ok (Some sf, ff), Ok (Some sm, fm) =>
      (* exactly the selected slot of each parent is exchanged with the other's *)
      exists Bf Bm, sub_at tf sf ff = Some Bf /\ sub_at tm sm fm = Some Bm /\
        erase tfo = erase (subst_at tf sf ff Bm) /\ erase tmo = erase (subst_at tm sm fm Bf)
    | Ok _, Ok _ => erase tfo = erase tf /\ erase tmo = erase tm
    | _, _ => False
    end.
Proof.
  intros st tf tm maxf maxm uf um ds2 fo mo st' ds' HWf HWm Hc.
  destruct (cross_post tab _ _ _ _ _ _ _ _ _ _ HWf HWm Hc)
    as (Hext & tfo & tmo & (Hfo & HWfo & Hrfo) & (Hmo & HWmo & Hrmo) & Hdis & uf0 & um0 & st1 & st2 & Hds & Hd1 & Hd2 & Hcase).
  inversion Hds; subst uf0 um0 ds'. clear Hds.
  destruct (find_node_copy tab st tf (scale 2 maxf uf) HWf) as (st1' & Hd1' & Hf1).
  rewrite Hd1 in Hd1'. inversion Hd1'; subst st1'. clear Hd1'.
  assert (Hext1 : heap_ext st st1).
  { destruct (deepcopy_WFt tab st tf HWf) as (sx & A & B & _). rewrite Hd1 in A. inversion A; subst. auto. }
  assert (HWm1 : WFt tab st1 tm) by (destruct HWm; split; auto; eapply Rep_ext; eauto).
  destruct (find_node_copy tab st1 tm (scale 2 maxm um) HWm1) as (st2' & Hd2' & Hf2).
  rewrite Hd2 in Hd2'. inversion Hd2'; subst st2'. clear Hd2'.
  rewrite (find_node_ext tab st st1 tm _ HWm Hext1) in Hf2.
  rewrite Hf1, Hf2 in Hcase.
  exists tfo, tmo.
  split. { rewrite <- Hfo. apply (abs_WFt tab). auto. }
  split. { rewrite <- Hmo. apply (abs_WFt tab). auto. }
  split; auto. split; auto. split; auto.
  pose proof HWf as [HRf Hnf]. pose proof HWm as [HRm Hnm].
  set (rf := copy_ren st tf) in *. set (rm := copy_ren st1 tm) in *.
  destruct (find_node st (tid tf) (scale 2 maxf uf)) as [[sub_f ff]| |] eqn:Ef; simpl in Hcase; try contradiction;
  destruct (find_node st (tid tm) (scale 2 maxm um)) as [[sub_m fm]| |] eqn:Em; simpl in Hcase;
    try contradiction; try (destruct sub_f; contradiction).
  assert (Plain : tfo = rename rf tf /\ tmo = rename rm tm /\ st' = st2 ->
          Permutation (labels tfo ++ labels tmo) (labels tf ++ labels tm) /\ erase tfo = erase tf /\ erase tmo = erase tm).
  { intros (A & B & _). subst tfo tmo. rewrite !labels_rename, !erase_rename. auto. }
  destruct sub_f as [sf|]; [destruct sub_m as [sm|]|]; simpl in Hcase.
  - destruct Hcase as (Bf' & Bm' & Hsf' & Hsm' & Htfo & Htmo & Hst).
    destruct (find_node_slot tab st tf _ sf ff HWf Ef) as (Bf & Hsf).
    destruct (find_node_slot tab st tm _ sm fm HWm Em) as (Bm & Hsm).
    destruct (sub_at_facts _ _ _ _ Hnf Hsf) as (Fin & _).
    destruct (sub_at_facts _ _ _ _ Hnm Hsm) as (Min & _).
    assert (Injf : forall i, In i (ids tf) -> rf i = rf sf -> i = sf) by (intros; eapply copy_ren_inj; eauto).
    assert (Injm : forall i, In i (ids tm) -> rm i = rm sm -> i = sm) by (intros; eapply copy_ren_inj; eauto).
    rewrite (sub_at_rename rf tf sf ff Injf), Hsf in Hsf'. simpl in Hsf'. inversion Hsf'; subst Bf'. clear Hsf'.
    rewrite (sub_at_rename rm tm sm fm Injm), Hsm in Hsm'. simpl in Hsm'. inversion Hsm'; subst Bm'. clear Hsm'.
    split.
    + (* conservation *)
      apply (Permutation_count_occ label_dec). intros x. rewrite !count_occ_app.
      assert (Nrf : NoDup (ids (rename rf tf))).
      { rewrite ids_rename. apply NoDup_map_inj_in; auto. intros; eapply copy_ren_inj; eauto. }
      assert (Nrm : NoDup (ids (rename rm tm))).
      { rewrite ids_rename. apply NoDup_map_inj_in; auto. intros; eapply copy_ren_inj; eauto. }
      assert (S1 : sub_at (rename rf tf) (rf sf) ff = Some (rename rf Bf)) by (rewrite sub_at_rename, Hsf; auto).
      assert (S2 : sub_at (rename rm tm) (rm sm) fm = Some (rename rm Bm)) by (rewrite sub_at_rename, Hsm; auto).
      pose proof (labels_subst_count _ _ _ (rename rm Bm) _ x Nrf S1) as C1.
      pose proof (labels_subst_count _ _ _ (rename rf Bf) _ x Nrm S2) as C2.
      rewrite <- Htfo in C1. rewrite <- Htmo in C2. rewrite !labels_rename in C1, C2. lia.
    + exists Bf, Bm. split; auto. split; auto. split.
      * rewrite Htfo. apply erase_subst_rename; auto. apply erase_rename.
      * rewrite Htmo. apply erase_subst_rename; auto. apply erase_rename.
  - apply Plain; auto.
  - destruct sub_m; apply Plain; auto.
Qed.

(* both parents are untouched; no returned node is a node of a parent *)
Theorem cross_frame : forall st tf tm maxf maxm ds fo mo st' ds',
  WFt tab st tf -> WFt tab st tm ->
  cross st (tid tf) (tid tm) maxf maxm ds = Ok (fo, mo, st', ds') ->
  (forall i, i < length (cells st) -> get st' i = get st i) /\ WFt tab st' tf /\ WFt tab st' tm /\
  exists tfo tmo, abs st' fo = Some tfo /\ abs st' mo = Some tmo /\
    forall x, In x (ids tfo ++ ids tmo) -> length (cells st) <= x /\ ~ In x (ids tf) /\ ~ In x (ids tm).
Proof.
  intros st tf tm maxf maxm ds fo mo st' ds' HWf HWm Hc.
  destruct (cross_post tab _ _ _ _ _ _ _ _ _ _ HWf HWm Hc)
    as (Hext & tfo & tmo & (Hfo & HWfo & Hrfo) & (Hmo & HWmo & Hrmo) & _).
  pose proof HWf as [HRf Hnf]. pose proof HWm as [HRm Hnm].
  split. { destruct Hext as (_ & _ & He). auto. }
  split. { split; auto. eapply Rep_ext; eauto. }
  split. { split; auto. eapply Rep_ext; eauto. }
  exists tfo, tmo.
  split. { rewrite <- Hfo. apply (abs_WFt tab). auto. }
  split. { rewrite <- Hmo. apply (abs_WFt tab). auto. }
  intros x Hx. assert (Hge : length (cells st) <= x).
  { apply in_app_or in Hx. destruct Hx as [Hx | Hx]; [apply Hrfo in Hx | apply Hrmo in Hx]; lia. }
  split; auto. split; intro Hy; eapply Rep_ids_lt in Hy; eauto; lia.
Qed.

(* on well-formed parents _cross never raises and never gets stuck: it returns two trees *)
Theorem cross_total : forall st tf tm maxf maxm uf um ds2,
  WFt tab st tf -> WFt tab st tm ->
  exists fo mo st', cross st (tid tf) (tid tm) maxf maxm (uf :: um :: ds2) = Ok (fo, mo, st', ds2).
Proof.
  intros st tf tm maxf maxm uf um ds2 HWf HWm. unfold cross.
  destruct (deepcopy_fresh tab st tf HWf) as (st1 & Hd1 & Hext1 & (Htcf & HWcf & Hrcf)). rewrite Hd1.
  assert (P1 : 1 <= scale 2 maxf uf) by (unfold scale; lia).
  assert (P2 : 1 <= scale 2 maxm um) by (unfold scale; lia).
  destruct (find_node_total tab st1 _ (scale 2 maxf uf) HWcf P1) as ([sub_f ff] & Ef).
  rewrite Htcf in Ef. rewrite Ef.
  assert (HWm1 : WFt tab st1 tm) by (destruct HWm; split; auto; eapply Rep_ext; eauto).
  destruct (deepcopy_fresh tab st1 tm HWm1) as (st2 & Hd2 & Hext2 & (Htcm & HWcm & Hrcm)). rewrite Hd2.
  destruct (find_node_total tab st2 _ (scale 2 maxm um) HWcm P2) as ([sub_m fm] & Em).
  rewrite Htcm in Em. rewrite Em.
  destruct sub_f as [sf|]; [|eauto]. destruct sub_m as [sm|]; [|eauto].
  rewrite <- Htcf in Ef. rewrite <- Htcm in Em.
  destruct (find_node_slot tab st1 _ _ sf ff HWcf Ef) as (Bf & Hsf).
  destruct (find_node_slot tab st2 _ _ sm fm HWcm Em) as (Bm & Hsm).
  destruct HWcf as (HRcf & HNcf). destruct HWcm as (HRcm & HNcm).
  assert (HRcf2 : Rep tab st2 None true (rename (copy_ren st tf) tf)) by (eapply Rep_ext; eauto).
  destruct (sub_at_rep tab _ _ _ _ _ _ _ HRcf2 HNcf Hsf) as (csf & Gsf & Csf & _).
  destruct (sub_at_rep tab _ _ _ _ _ _ _ HRcm HNcm Hsm) as (csm & Gsm & Csm & _).
  destruct (sub_at_facts _ _ _ _ HNcf Hsf) as (Fin & _).
  destruct (sub_at_facts _ _ _ _ HNcm Hsm) as (Min & Mincl & _).
  rewrite (cross_links_exchange st2 sf sm ff fm csf csm (tid Bf) (tid Bm)); eauto.
  - intro X. subst sm. apply Hrcf in Fin. apply Hrcm in Min. lia.
  - intro X. assert (In (tid Bm) (ids (rename (copy_ren st1 tm) tm))) by (apply Mincl; apply tid_in_ids).
    rewrite X in H. apply Hrcf in Fin. apply Hrcm in H. lia.
Qed.

End CrossSpec.
