(* C18 -- the Levy step of math/distribution.py generate_levy_distribution, over the reals.

   translate/t4_prims.py regenerates the arithmetic of the function body as a term of [lx]
   (temporaries inlined; the k-th call of r.generate_gaussian_random_number, in evaluation order, is [LG k]).
   The denotation is *guarded*: division by zero, a power of a negative base, 0 to a non-positive power and
   Gamma outside (0, +oo) are undefined ([None]) -- Coq's totalised x/0 = 0 and Rpower can never make a
   statement true for the wrong reason.  Gamma is an uninterpreted function (a Section variable); IEEE
   rounding is not modelled. *)
From Coq Require Import Reals Lra ZArith List.
Import ListNotations.
Open Scope R_scope.

Inductive lx :=
| LBeta | LG (k : nat) | LInt (z : Z) | LPi
| LAdd (a b : lx) | LSub (a b : lx) | LMul (a b : lx) | LDiv (a b : lx) | LPow (a b : lx) | LNeg (a : lx)
| LGamma (a : lx) | LSin (a : lx) | LFabs (a : lx).

Definition gdiv (x y : R) : option R := if Req_EM_T y 0 then None else Some (x / y).
(* x ** y on floats: defined for x > 0, and for x = 0 with y > 0 (value 0) *)
Definition gpow (x y : R) : option R :=
  if Rlt_dec 0 x then Some (Rpower x y)
  else if Req_EM_T x 0 then (if Rlt_dec 0 y then Some 0 else None) else None.
Definition bind2 (f : R -> R -> option R) (a b : option R) : option R :=
  match a, b with Some x, Some y => f x y | _, _ => None end.
Definition bind1 (f : R -> option R) (a : option R) : option R := match a with Some x => f x | None => None end.

Section Den.
  Variable Gamma : R -> R.
  Variable beta : R.
  Variable g : nat -> R.         (* the Gaussian draws, in the order they are consumed *)

  Definition ggamma (x : R) : option R := if Rlt_dec 0 x then Some (Gamma x) else None.

  Fixpoint lden (e : lx) : option R :=
    match e with
    | LBeta => Some beta
    | LG k => Some (g k)
    | LInt z => Some (IZR z)
    | LPi => Some PI
    | LAdd a b => bind2 (fun x y => Some (x + y)) (lden a) (lden b)
    | LSub a b => bind2 (fun x y => Some (x - y)) (lden a) (lden b)
    | LMul a b => bind2 (fun x y => Some (x * y)) (lden a) (lden b)
    | LDiv a b => bind2 gdiv (lden a) (lden b)
    | LPow a b => bind2 gpow (lden a) (lden b)
    | LNeg a => bind1 (fun x => Some (- x)) (lden a)
    | LGamma a => bind1 ggamma (lden a)
    | LSin a => bind1 (fun x => Some (sin x)) (lden a)
    | LFabs a => bind1 (fun x => Some (Rabs x)) (lden a)
    end.

  (* ---- Mantegna's algorithm:  step = g1 * sigma / |g2|^(1/beta),
          sigma = ( Gamma(1+beta) sin(pi beta/2) / ( Gamma((1+beta)/2) beta 2^((beta-1)/2) ) )^(1/beta) *)
  Definition sigma_ratio : R :=
    Gamma (1 + beta) * sin (PI * beta / 2) / (Gamma ((1 + beta) / 2) * beta * Rpower 2 ((beta - 1) / 2)).
  (* x^y for x >= 0 and y > 0 *)
  Definition rpow0 (x y : R) : R := if Req_EM_T x 0 then 0 else Rpower x y.
  Definition sigma : R := rpow0 sigma_ratio (1 / beta).
  Definition mantegna (g1 g2 : R) : R := g1 * sigma / Rpower (Rabs g2) (1 / beta).

  Lemma gdiv_some x y : y <> 0 -> gdiv x y = Some (x / y).
  Proof. intros H. unfold gdiv. destruct (Req_EM_T y 0); [contradiction | reflexivity]. Qed.

  Lemma gpow_pos x y : 0 < x -> gpow x y = Some (Rpower x y).
  Proof. intros H. unfold gpow. destruct (Rlt_dec 0 x); [reflexivity | contradiction]. Qed.

  Lemma gpow_nonneg x y : 0 <= x -> 0 < y -> gpow x y = Some (rpow0 x y).
  Proof.
    intros Hx Hy. unfold gpow, rpow0. destruct (Rlt_dec 0 x) as [L|L].
    - destruct (Req_EM_T x 0); [lra | reflexivity].
    - destruct (Req_EM_T x 0); [|lra]. destruct (Rlt_dec 0 y); [reflexivity | contradiction].
  Qed.

  Lemma ggamma_pos x : 0 < x -> ggamma x = Some (Gamma x).
  Proof. intros H. unfold ggamma. destruct (Rlt_dec 0 x); [reflexivity | contradiction]. Qed.

  Lemma Rpower_pos x y : 0 < Rpower x y.
  Proof. unfold Rpower. apply exp_pos. Qed.

  Hypothesis Hbeta : 0 < beta <= 2.
  Hypothesis Gamma_pos : forall t, 0 < t -> 0 < Gamma t.

  Lemma sin_half_pi_beta_nonneg : 0 <= sin (PI * beta / 2).
  Proof.
    pose proof PI_RGT_0 as HP. apply sin_ge_0.
    - apply Rmult_le_pos; [apply Rmult_le_pos; lra | lra].
    - assert (PI * beta / 2 <= PI * 2 / 2) by (apply Rmult_le_compat_r; [lra|]; apply Rmult_le_compat_l; lra). lra.
  Qed.

  Lemma sigma_den_pos : 0 < Gamma ((1 + beta) / 2) * beta * Rpower 2 ((beta - 1) / 2).
  Proof.
    apply Rmult_lt_0_compat; [apply Rmult_lt_0_compat; [apply Gamma_pos; lra | lra] | apply Rpower_pos].
  Qed.

  Lemma sigma_ratio_nonneg : 0 <= sigma_ratio.
  Proof.
    unfold sigma_ratio, Rdiv. apply Rmult_le_pos.
    - apply Rmult_le_pos; [left; apply Gamma_pos; lra | apply sin_half_pi_beta_nonneg].
    - left. apply Rinv_0_lt_compat. apply sigma_den_pos.
  Qed.

  Lemma inv_beta_pos : 0 < 1 / beta.
  Proof. unfold Rdiv. rewrite Rmult_1_l. apply Rinv_0_lt_compat. lra. Qed.

  (* for beta < 2 the scale is strictly positive; at beta = 2 the numerator sin(pi) vanishes and sigma = 0 *)
  Lemma sigma_pos : beta < 2 -> 0 < sigma.
  Proof.
    intros Hb. unfold sigma, rpow0. pose proof PI_RGT_0 as HP.
    assert (0 < sigma_ratio).
    { unfold sigma_ratio, Rdiv. apply Rmult_lt_0_compat.
      - apply Rmult_lt_0_compat; [apply Gamma_pos; lra|]. apply sin_gt_0.
        + apply Rmult_lt_0_compat; [apply Rmult_lt_0_compat; lra | lra].
        + assert (PI * beta / 2 < PI * 2 / 2) by (apply Rmult_lt_compat_r; [lra|]; apply Rmult_lt_compat_l; lra). lra.
      - apply Rinv_0_lt_compat. apply sigma_den_pos. }
    destruct (Req_EM_T sigma_ratio 0); [lra | apply Rpower_pos].
  Qed.

  Lemma sigma_at_two : beta = 2 -> sigma = 0.
  Proof.
    intros Hb. unfold sigma, rpow0. destruct (Req_EM_T sigma_ratio 0) as [|N]; [reflexivity|]. exfalso. apply N.
    unfold sigma_ratio. rewrite Hb. replace (PI * 2 / 2) with PI by field. rewrite sin_PI. unfold Rdiv. ring.
  Qed.
End Den.

(* recognising Mantegna's formula up to ring/field rearrangements of the ratio and of the exponents *)
Lemma mantegna_shape (Gamma : R -> R) (beta g1 g2 A e B e' : R) :
  A = sigma_ratio Gamma beta -> e = 1 / beta -> B = Rabs g2 -> e' = 1 / beta ->
  g1 * rpow0 A e / Rpower B e' = mantegna Gamma beta g1 g2.
Proof. intros -> -> -> ->. reflexivity. Qed.

(* side conditions met while evaluating the regenerated term: positivity / non-negativity by structure *)
Ltac levy_pos Hbeta Gpos :=
  lazymatch goal with
  | |- 0 < Rpower _ _ => apply Rpower_pos
  | |- 0 < Rabs _ => apply Rabs_pos_lt; assumption
  | |- 0 < ?a * ?b => apply Rmult_lt_0_compat; levy_pos Hbeta Gpos
  | |- 0 < ?a / ?b => apply Rdiv_lt_0_compat; levy_pos Hbeta Gpos
  | |- 0 < / ?a => apply Rinv_0_lt_compat; levy_pos Hbeta Gpos
  | |- 0 < _ => first [ lra | apply Gpos; lra ]
  end.
Ltac levy_sin_arg Hbeta :=
  let HP := fresh "HP" in let H1 := fresh "H1" in let H2 := fresh "H2" in
  pose proof PI_RGT_0 as HP;
  match type of Hbeta with 0 < ?b <= 2 =>
    assert (H1 : 0 <= PI * b) by (apply Rmult_le_pos; lra);
    assert (H2 : 0 <= PI * (2 - b)) by (apply Rmult_le_pos; lra)
  end; nra.
Ltac levy_nonneg Hbeta Gpos :=
  lazymatch goal with
  | |- 0 <= sin _ => apply sin_ge_0; levy_sin_arg Hbeta
  | |- 0 <= ?a * ?b => apply Rmult_le_pos; levy_nonneg Hbeta Gpos
  | |- 0 <= ?a / ?b => unfold Rdiv at 1; apply Rmult_le_pos; [levy_nonneg Hbeta Gpos | left; apply Rinv_0_lt_compat; levy_pos Hbeta Gpos]
  | |- 0 <= _ => first [ lra | left; levy_pos Hbeta Gpos ]
  end.
Ltac levy_side Hbeta Gpos :=
  first
    [ assumption
    | lra
    | levy_pos Hbeta Gpos
    | levy_nonneg Hbeta Gpos
    | apply Rgt_not_eq; apply Rlt_gt; levy_pos Hbeta Gpos ].

(* evaluates [lden] of a concrete term, discharging every guard *)
Ltac levy_eval Hbeta Gpos :=
  repeat (cbn [lden bind1 bind2];
          first [ rewrite ggamma_pos by levy_side Hbeta Gpos
                | rewrite gdiv_some by levy_side Hbeta Gpos
                | rewrite gpow_pos by levy_side Hbeta Gpos
                | rewrite gpow_nonneg by levy_side Hbeta Gpos ]);
  cbn [lden bind1 bind2].

(* equality of two real expressions up to commuting products and ring-equal arguments of Gamma / sin / powers *)
Ltac levy_cong :=
  first
    [ reflexivity
    | ring
    | lra
    | lazymatch goal with
      | |- ?a * ?b = ?c * ?d =>
          first [ apply f_equal2; levy_cong | rewrite (Rmult_comm a b); apply f_equal2; levy_cong ]
      | |- ?a / ?b = ?c / ?d => apply f_equal2; levy_cong
      | |- Rpower _ _ = Rpower _ _ => apply f_equal2; levy_cong
      | |- sin _ = sin _ => apply f_equal; levy_cong
      | |- Rabs _ = Rabs _ => apply f_equal; levy_cong
      | |- ?f ?a = ?f ?b => apply f_equal; levy_cong
      end
    | field; lra ].

(* closes  Some <evaluated term> = Some (mantegna ...) *)
Ltac levy_close Hbeta Gpos :=
  first
    [ reflexivity
    | f_equal; apply mantegna_shape;
      [ unfold sigma_ratio; levy_cong
      | first [ reflexivity | field; lra ]
      | levy_cong
      | first [ reflexivity | field; lra ] ] ].
