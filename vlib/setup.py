"""./check --setup : regenerate every Gen/*.v from /repo and build the whole Coq tree once."""
import importlib
import os
import sys
from . import core


def regenerate_all():
    """Run every translator; returns list of (item, error)."""
    errs = []
    for modname in ('props.C06',):
        pass
    from translate import t4_loops
    text, items, errors = t4_loops.generate(core.REPO)
    core.write_if_changed(os.path.join(core.GEN, 'ClipLoops.v'), text)
    errs += errors
    for name in sorted(os.listdir(os.path.join(core.VERIF, 'props'))):
        if name.startswith('C') and name.endswith('.py'):
            mod = importlib.import_module('props.' + name[:-3])
            if hasattr(mod, 'regenerate'):
                try:
                    errs += list(mod.regenerate() or [])
                except Exception as ex:  # noqa: BLE001
                    errs.append({'item': name, 'msg': repr(ex)})
    return errs


def main():
    os.makedirs(core.WORK, exist_ok=True)
    errs = regenerate_all()
    for e in errs:
        sys.stderr.write('setup: translation problem: %r\n' % (e,))
    with core.Lock('build'):
        core.coq_prepare()
    rc, out = core.sh('timeout 3000 make -j16 -k', cwd=core.COQ, timeout=3100)
    sys.stdout.write(out[-3000:] + '\n')
    # a build failure here is reported by the individual checks; setup itself succeeds if make ran
    return 0


if __name__ == '__main__':
    sys.exit(main())
