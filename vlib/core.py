"""Shared driver plumbing: paths, Coq build (locked), evidence, violations, known findings.

Runs under the system python3 (no third-party imports).  Code that has to import
opytimizer lives in /verif/harness and is started with /venv/bin/python through
`Ctx.run_harness`.
"""
import fcntl
import hashlib
import json
import os
import re
import subprocess
import sys
import time

VERIF = os.path.dirname(os.path.dirname(os.path.abspath(__file__)))
REPO = os.environ.get('VERIF_REPO', '/repo')
COQ = os.path.join(VERIF, 'coq')
THEORIES = os.path.join(COQ, 'theories')
GEN = os.path.join(THEORIES, 'Gen')
WORK = os.path.join(VERIF, '_work')
EVID = os.path.join(VERIF, 'evidence')
REPLAYS = os.path.join(VERIF, 'replays')
VENV_PY = '/venv/bin/python'
LOGICAL = 'OV'

# Axioms declared by Coq's standard library that theorems over R / Interval may use.
STDLIB_REAL_AXIOMS = {
    'ClassicalDedekindReals.sig_forall_dec',
    'ClassicalDedekindReals.sig_not_dec',
    'FunctionalExtensionality.functional_extensionality_dep',
    'Classical_Prop.classic',
}

FORBIDDEN = re.compile(
    r'\b(Admitted|admit|Axiom|Axioms|Parameter|Parameters|Conjecture|Conjectures|Abort All|'
    r'Admit Obligations|bypass_check|Unset Guard Checking|Unset Positivity Checking|'
    r'Unset Universe Checking|type-in-type|impredicative-set|native_compute)\b')


def sh(cmd, timeout=600, cwd=None, env=None, stdin=None):
    """Run a command, return (rc, stdout+stderr)."""
    try:
        p = subprocess.run(cmd, shell=isinstance(cmd, str), cwd=cwd, env=env, input=stdin,
                           stdout=subprocess.PIPE, stderr=subprocess.STDOUT, timeout=timeout,
                           text=True, errors='replace')
        return p.returncode, p.stdout
    except subprocess.TimeoutExpired as ex:
        out = ex.stdout if isinstance(ex.stdout, str) else (ex.stdout or b'').decode('utf8', 'replace')
        return 124, out + '\n[timeout after %ss]' % timeout


def repo_hash():
    h = hashlib.sha256()
    root = os.path.join(REPO, 'opytimizer')
    for d, _, fs in sorted(os.walk(root)):
        for f in sorted(fs):
            if f.endswith('.py'):
                p = os.path.join(d, f)
                h.update(p.encode())
                h.update(open(p, 'rb').read())
    return h.hexdigest()[:16]


class Lock:
    def __init__(self, name='build'):
        os.makedirs(WORK, exist_ok=True)
        self.path = os.path.join(WORK, name + '.lock')

    def __enter__(self):
        self.f = open(self.path, 'w')
        fcntl.flock(self.f, fcntl.LOCK_EX)
        return self

    def __exit__(self, *a):
        fcntl.flock(self.f, fcntl.LOCK_UN)
        self.f.close()


def write_if_changed(path, text):
    os.makedirs(os.path.dirname(path), exist_ok=True)
    try:
        if open(path).read() == text:
            return False
    except FileNotFoundError:
        pass
    with open(path, 'w') as f:
        f.write(text)
    return True


def all_v_files():
    out = []
    for d, _, fs in os.walk(THEORIES):
        for f in fs:
            if f.endswith('.v'):
                out.append(os.path.relpath(os.path.join(d, f), COQ))
    return sorted(out)


def static_scan():
    """Reject Admitted / Axiom / ... anywhere under coq/ (comments stripped)."""
    bad = []
    for rel in all_v_files():
        txt = open(os.path.join(COQ, rel)).read()
        txt = strip_coq_comments(txt)
        for m in FORBIDDEN.finditer(txt):
            line = txt.count('\n', 0, m.start()) + 1
            bad.append('%s:%d: %s' % (rel, line, m.group(0)))
        # Variable / Hypothesis outside a Section
        depth = 0
        for ln, l in enumerate(txt.split('\n'), 1):
            s = l.strip()
            if re.match(r'Section\s+\w+\s*\.', s):
                depth += 1
            elif re.match(r'End\s+\w+\s*\.', s) and depth > 0:
                depth -= 1
            elif depth == 0 and re.match(r'(Variable|Variables|Hypothesis|Hypotheses|Context)\b', s):
                bad.append('%s:%d: %s outside a section' % (rel, ln, s.split()[0]))
    return bad


def strip_coq_comments(txt):
    out = []
    depth = 0
    i = 0
    n = len(txt)
    instr = False
    while i < n:
        c = txt[i]
        if depth == 0 and c == '"':
            instr = not instr
            out.append(c)
            i += 1
            continue
        if not instr and txt.startswith('(*', i):
            depth += 1
            i += 2
            continue
        if not instr and depth > 0 and txt.startswith('*)', i):
            depth -= 1
            i += 2
            continue
        if depth == 0:
            out.append(c)
        elif c == '\n':
            out.append(c)
        i += 1
    return ''.join(out)


def coq_prepare():
    """(Re)generate _CoqProject and Makefile from the file tree.  Call under Lock."""
    files = all_v_files()
    proj = '-Q theories %s\n-arg -w -arg -notation-overridden,-deprecated-hint-without-locality,-deprecated-instance-without-locality\n' % LOGICAL + '\n'.join(files) + '\n'
    changed = write_if_changed(os.path.join(COQ, '_CoqProject'), proj)
    if changed or not os.path.exists(os.path.join(COQ, 'Makefile')):
        rc, out = sh('coq_makefile -f _CoqProject -o Makefile', cwd=COQ, timeout=120)
        if rc != 0:
            raise RuntimeError('coq_makefile failed: ' + out)


def coq_make(targets, timeout=1500, jobs=16):
    """Build the given .vo targets (paths relative to coq/, e.g. theories/Props/C06.vo).

    Returns (ok, log).  A full .vo build through coq_makefile's Makefile; never -vos."""
    with Lock('build'):
        coq_prepare()
        tg = ' '.join(targets)
        rc, out = sh('timeout %d make -j%d %s' % (timeout, jobs, tg), cwd=COQ, timeout=timeout + 30)
        return rc == 0, out


def coq_run(vtext, name, timeout=600):
    """Compile a scratch file under coq/corr (outside the library) and return (ok, output)."""
    d = os.path.join(COQ, 'corr')
    os.makedirs(d, exist_ok=True)
    path = os.path.join(d, 'tmp_%s.v' % name)
    with open(path, 'w') as f:
        f.write(vtext)
    rc, out = sh('timeout %d coqc -Q theories %s -w -notation-overridden corr/tmp_%s.v' % (timeout, LOGICAL, name),
                 cwd=COQ, timeout=timeout + 30)
    for ext in ('.vo', '.vok', '.vos', '.glob'):
        try:
            os.remove(path[:-2] + ext)
        except FileNotFoundError:
            pass
    try:
        os.remove(os.path.join(d, '.tmp_%s.aux' % name))
    except FileNotFoundError:
        pass
    return rc == 0, out


def theorem_names(vfile):
    txt = strip_coq_comments(open(vfile).read())
    return re.findall(r'^\s*(?:Theorem|Lemma|Corollary|Example|Fact|Proposition)\s+([A-Za-z_][\w\']*)', txt, re.M)


def print_assumptions(module, names, timeout=600):
    """Returns {theorem: [axiom names]} using one coqc run."""
    lines = ['From %s Require Import %s.' % (LOGICAL, module)]
    for n in names:
        lines.append('Goal True. idtac "@@PA %s". exact I. Qed.' % n)
        lines.append('Print Assumptions %s.' % n)
    lines.append('Goal True. idtac "@@END". exact I. Qed.')
    ok, out = coq_run('\n'.join(lines) + '\n', 'pa_' + module.replace('.', '_'), timeout)
    if not ok:
        return None, out
    res = {}
    cur = None
    for l in out.split('\n'):
        if l.startswith('@@PA '):
            cur = l[5:].strip()
            res[cur] = []
        elif l.startswith('@@END'):
            cur = None
        elif cur is not None:
            if l.startswith(' ') or l.strip() in ('Axioms:', 'Closed under the global context', 'Section Variables:') \
                    or l.startswith('Opaque') or l.startswith('Transparent') or l.startswith('Fetching'):
                continue
            # the axiom's type may be printed on the same line ("name : type") or on the next, indented one
            m = re.match(r'^([A-Za-z_][\w\.\']*)\s*(:|$)', l)
            if m:
                res[cur].append(m.group(1))
    return res, out


# ---------------------------------------------------------------- float keys

def key_of_float(x):
    """IEEE-754 binary64 -> sign-magnitude integer key; NaN -> None; -0.0 -> -1."""
    import struct
    import math
    x = float(x)
    if math.isnan(x):
        return None
    b = struct.unpack('<q', struct.pack('<d', x))[0]
    if b >= 0:
        return b
    return -(b & 0x7fffffffffffffff) - 1


def float_of_key(k):
    import struct
    if k is None:
        return float('nan')
    if k >= 0:
        return struct.unpack('<d', struct.pack('<q', k))[0]
    return struct.unpack('<d', struct.pack('<Q', (-(k + 1)) | (1 << 63)))[0]


def coq_okey(k):
    return 'None' if k is None else '(Some (%d)%%Z)' % k


def coq_list(xs, f=str):
    return '[' + '; '.join(f(x) for x in xs) + ']'


# ---------------------------------------------------------------- context

class Ctx:
    def __init__(self, pid, tier, seed):
        self.pid = pid
        self.tier = tier
        self.seed = seed
        self.t0 = time.time()
        self.obligations = []      # (name, ok, detail)
        self.violations = []       # dicts
        self.known_hits = []       # (key, what)
        self.cov = {'evaluations': 0, 'distinct_nontrivial': 0, 'rule': '', 'samples': [],
                    'trusted_base': [], 'checker_cmd': '', 'theorems': [], 'distribution': {}}
        self.assumptions = []
        self.level = 'proof'
        self.repo_hash = repo_hash()
        os.makedirs(WORK, exist_ok=True)
        os.makedirs(EVID, exist_ok=True)
        os.makedirs(REPLAYS, exist_ok=True)
        self.known = load_known()
        self.quick = tier != 'thorough'
        self.explained = set()     # names of broken obligations for which a concrete finding/violation was reported

    # -- obligations
    def oblige(self, name, ok, detail=''):
        self.obligations.append((name, bool(ok), detail if not ok else ''))
        if not ok:
            sys.stderr.write('[%s] obligation BROKEN: %s\n%s\n' % (self.pid, name, str(detail)[-3000:]))
        return bool(ok)

    def broken(self):
        return [(n, d) for (n, ok, d) in self.obligations if not ok]

    def explain(self, name_prefix):
        """A broken obligation whose concrete failing input has been reported (as a violation or a known finding)."""
        for (n, ok, _) in self.obligations:
            if not ok and n.startswith(name_prefix):
                self.explained.add(n)

    def count(self, evaluations=0, nontrivial=0):
        self.cov['evaluations'] += evaluations
        self.cov['distinct_nontrivial'] += nontrivial

    def sample(self, s, cap=12):
        if len(self.cov['samples']) < cap:
            self.cov['samples'].append(s)

    def trust(self, *items):
        for i in items:
            if i not in self.cov['trusted_base']:
                self.cov['trusted_base'].append(i)

    def assume(self, *items):
        for i in items:
            if i not in self.assumptions:
                self.assumptions.append(i)

    # -- Coq
    def build(self, targets, timeout=1500):
        ok, log = coq_make(targets, timeout)
        self.cov['checker_cmd'] = 'cd /verif/coq && coq_makefile -f _CoqProject -o Makefile && make -j16 ' + ' '.join(targets)
        return ok, log

    def build_props(self, extra_targets=(), allowed_axioms=(), timeout=1500):
        """Static scan + build Props/<pid>.vo + Print Assumptions on every theorem in it."""
        bad = static_scan()
        self.oblige('static-scan: no Admitted/Axiom/Parameter/guard switches under coq/', not bad, '\n'.join(bad))
        tgt = ['theories/Props/%s.vo' % self.pid] + list(extra_targets)
        ok, log = self.build(tgt, timeout)
        if not ok:
            self.oblige('coq-build %s' % ' '.join(tgt), False, coq_error_excerpt(log))
            return False, log
        self.oblige('coq-build %s' % ' '.join(tgt), True)
        vfile = os.path.join(THEORIES, 'Props', self.pid + '.v')
        names = theorem_names(vfile)
        pa, out = print_assumptions('Props.' + self.pid, names)
        if pa is None:
            self.oblige('print-assumptions', False, out)
            return False, log
        allowed = set(allowed_axioms)
        for n in names:
            ax = pa.get(n, [])
            extra = [a for a in ax if a not in allowed]
            self.oblige('theorem %s (axioms: %s)' % (n, ', '.join(ax) if ax else 'closed under the global context'),
                        not extra, 'unexpected axioms: ' + ', '.join(extra))
            self.cov['theorems'].append({'name': n, 'axioms': ax})
        self.trust('coqc 8.16.1 kernel incl. vm_compute (no native_compute)')
        if not self.quick and os.environ.get('VERIF_NO_COQCHK') != '1':
            # C17's library (Interval enclosures of Schwefel/Alpine2) needs more than an hour of coqchk: give it a short, documented limit
            self.coqchk('Props.' + self.pid, allowed, timeout=300 if self.pid == 'C17' else 1500)
        return True, log

    def coqchk(self, module, allowed, timeout=1500):
        """Thorough tier: re-check the compiled property library and everything it depends on with the independent
        checker and record the axioms it reports (of every loaded library)."""
        rc, out = sh('timeout %d coqchk -silent -o -Q theories %s %s.%s' % (timeout, LOGICAL, LOGICAL, module), cwd=COQ, timeout=timeout + 60)
        if rc == 124:
            # not an obligation: coqchk re-evaluates the vm_compute/Interval reflections with its slow reduction machine and
            # can need hours on the real-analysis libraries; the kernel check of the full .vo build and Print Assumptions stand
            self.cov['coqchk'] = {'status': 'not finished within %ds (no verdict; recorded, not an obligation)' % timeout}
            self.trust('coqchk -o %s did not finish within %ds in this run: no independent re-check of this library' % (module, timeout))
            return
        m = re.search(r'\* Axioms:(.*?)\n\s*\n\* Constants/Inductives relying on type-in-type:(.*?)\n\s*\n\* Constants/Inductives relying on unsafe \(co\)fixpoints:(.*?)\n\s*\n\* Inductives whose positivity is assumed:(.*?)(\n\s*\n|\Z)', out, re.S)
        if rc != 0 or not m:
            self.oblige('coqchk -o %s' % module, False, out[-3000:])
            return
        axioms = [a.strip() for a in m.group(1).strip().split('\n') if a.strip() and a.strip() != '<none>']
        unsafe = [x.strip() for g in (2, 3, 4) for x in m.group(g).strip().split('\n') if x.strip() and x.strip() != '<none>']
        self.cov['coqchk'] = {'status': 'ok', 'axioms_of_all_loaded_libraries': axioms[:200], 'unsafe': unsafe}
        self.oblige('coqchk -o %s: independent re-check passed, no type-in-type / unsafe fixpoints / assumed positivity (%d axioms of loaded libraries listed in the evidence)'
                    % (module, len(axioms)), not unsafe, 'unsafe: %s' % unsafe)
        self.trust('coqchk 8.16.1 (thorough tier): re-checked %s and its dependencies' % module)

    def coq_eval(self, vtext, name, timeout=900):
        return coq_run(vtext, self.pid + '_' + name, timeout)

    # -- harness
    def run_harness(self, script, payload=None, timeout=900, args=()):
        env = dict(os.environ)
        env.update({'PYTHONPATH': REPO + ':' + VERIF, 'PYTHONHASHSEED': '0', 'VERIF_SEED': str(self.seed),
                    'VERIF_TIER': self.tier, 'OPYTIMIZER_VERIF': '1', 'OMP_NUM_THREADS': '1',
                    'OPENBLAS_NUM_THREADS': '1', 'MKL_NUM_THREADS': '1'})
        rundir = os.path.join(WORK, 'run', self.pid)
        os.makedirs(rundir, exist_ok=True)
        cmd = [VENV_PY, os.path.join(VERIF, 'harness', script)] + list(args)
        rc, out = sh(cmd, timeout=timeout, cwd=rundir, env=env,
                     stdin=json.dumps(payload) if payload is not None else None)
        return rc, out

    def run_harness_json(self, script, payload=None, timeout=900, args=()):
        rc, out = self.run_harness(script, payload, timeout, args)
        # the harness prints one JSON document on the last line starting with @@JSON
        for l in reversed(out.split('\n')):
            if l.startswith('@@JSON '):
                return rc, json.loads(l[7:]), out
        return rc, None, out

    # -- findings
    def report(self, key, what, replay, found_input=True):
        """A concrete failure (or a broken obligation with no input).  Known finding => KNOWN-FINDING line."""
        for k in self.known:
            if k.get('property') == self.pid and k.get('key') == key and k.get('status', 'known') == 'known':
                if key not in [x[0] for x in self.known_hits]:
                    self.known_hits.append((key, k.get('what', what)))
                return 'known'
        h = hashlib.sha256((key + json.dumps(replay, sort_keys=True, default=str)).encode()).hexdigest()[:10]
        path = os.path.join(REPLAYS, '%s-%s.json' % (self.pid, h))
        doc = {'property': self.pid, 'key': key, 'what': what, 'found_input': found_input, 'replay': replay,
               'repo_hash': self.repo_hash, 'seed': self.seed}
        with open(path, 'w') as f:
            json.dump(doc, f, indent=1, default=str)
        self.violations.append({'key': key, 'what': what, 'path': path, 'found_input': found_input})
        return 'violation'

    def finish(self):
        # broken obligations for which no violation was reported -> no-failing-input-found
        broken = [(n, d) for (n, d) in self.broken() if n not in self.explained]
        if broken and not self.violations:
            names = [n for n, _ in broken]
            self.report('obligation:' + names[0], 'proof obligation / correspondence no longer checks',
                        {'broken_obligations': [{'name': n, 'detail': str(d)[-2000:]} for n, d in broken]},
                        found_input=False)
            if not self.violations:       # swallowed as known finding: still must not pass silently
                pass
        for key, what in self.known_hits:
            print('KNOWN-FINDING: property=%s %s [%s]' % (self.pid, what, key))
        for v in self.violations:
            tail = '' if v['found_input'] else ' no-failing-input-found'
            print('VIOLATION property=%s replay=%s%s' % (self.pid, v['path'], tail))
        n_ob = len(self.obligations)
        n_ok = sum(1 for o in self.obligations if o[1])
        cov = dict(self.cov)
        cov['obligations'] = n_ob
        cov['discharged'] = n_ok
        cov['obligation_list'] = [{'name': n, 'ok': ok} for (n, ok, _) in self.obligations][:400]
        cov['known_findings_reconfirmed'] = [k for k, _ in self.known_hits]
        if not cov['checker_cmd']:
            cov['checker_cmd'] = './check %s --tier %s' % (self.pid, self.tier)
        ev = {'property_id': self.pid, 'tier': self.tier, 'seed': self.seed, 'level': self.level,
              'coverage': cov, 'assumptions': self.assumptions, 'wall_s': round(time.time() - self.t0, 2),
              'violations': len(self.violations), 'repo_hash': self.repo_hash}
        with open(os.path.join(EVID, self.pid + '.json'), 'w') as f:
            json.dump(ev, f, indent=1, default=str)
        sys.stdout.flush()
        return 1 if self.violations else 0


def coq_error_excerpt(log):
    ls = log.split('\n')
    idx = [i for i, l in enumerate(ls) if l.startswith('Error') or 'Error:' in l or l.startswith('File "')]
    if not idx:
        return '\n'.join(ls[-40:])
    i = idx[0]
    return '\n'.join(ls[max(0, i - 3):i + 30])


def load_known():
    """known_findings.json plus per-property fragments known_findings.d/*.json (same format)."""
    out = []
    paths = [os.path.join(VERIF, 'known_findings.json')]
    d = os.path.join(VERIF, 'known_findings.d')
    if os.path.isdir(d):
        paths += [os.path.join(d, f) for f in sorted(os.listdir(d)) if f.endswith('.json')]
    for p in paths:
        try:
            out += json.load(open(p)).get('findings', [])
        except FileNotFoundError:
            pass
    return out
