"""C08 -- every GP tree is a well-formed expression tree, disjoint from all others.

Theorems: coq/theories/Props/C08.v over the pointer-level model Model/TreeHeap.v (grow / deepcopy / mutate /
cross results are fresh well-formed trees; reproduction, crossover, mutation and the best-tree copy preserve
`Forall WF /\\ pairwise disjoint node ids /\\ length trees = n`; lifted to any sequence of steps).
Tie: Gen/TreeArity.v regenerated from utils/constants.py + correspondence: harness/c0809.py runs the real
grow/_mutate/_cross/_reproduction/GP.run with scripted randomness on real Node graphs, serialises the whole
reachable object graph, and Coq evaluates the model on the same cases (vm_compute) and compares.
Property oracle on the implementation: independent WF / disjointness / depth checker (field o8 of a case)."""
from props import _c0809_common as cm


def run(ctx):
    cm.run_common(ctx, 'C08')


def replay(ctx, path):
    return cm.replay_common(ctx, 'C08', path)
