"""C13 -- hypercomplex positions stay in the unit box and span() maps them into the bounds.

Theorems: coq/theories/Props/C13.v (Model/SpanProofs.v over the reals, Model/HyperBox.v on float keys via the
C06 machinery) about Gen/Span.v (translate/t3_expr.py from math/hypercomplex.py) and Gen/ClipLoops.v
(translate/t4_loops.py from spaces/hyper.py), both regenerated on every run.
Validation: harness/c13.py evaluates the property oracle on the real span()/HyperSpace with strict float
comparisons; failures explained by binary64 rounding on the unchanged code are known findings keyed by input
class; a sample of span() results is checked inside Coq with Interval against the regenerated model."""
import json
import os
import re
from fractions import Fraction
from vlib import core
from translate import t3_expr, t4_loops

# the two *_binary64_refuted witnesses compute with Coq's primitive floats: kernel primitives, listed by Print Assumptions
PRIMFLOAT = ['PrimFloat.float', 'PrimFloat.add', 'PrimFloat.sub', 'PrimFloat.mul', 'PrimFloat.ltb', 'PrimFloat.leb', 'PrimFloat.eqb']
ALLOWED = sorted(core.STDLIB_REAL_AXIOMS) + PRIMFLOAT
TAU_BITS = 40


def q(fr):
    fr = Fraction(fr)
    return '(%d)' % fr.numerator if fr.denominator == 1 else '(%d / %d)' % (fr.numerator, fr.denominator)


def fr(pair):
    return Fraction(int(pair[0]), int(pair[1]))


COQ_HEAD = r'''From Coq Require Import Reals List ZArith Lra.
From Interval Require Import Tactic.
From OV Require Import Base.RExprC10 Model.SpanProofs Gen.Span.
Import ListNotations.
Open Scope R_scope.
Ltac dom_tac := repeat split; try exact I;
  first [ interval with (i_prec 90) | apply Rgt_not_eq; interval with (i_prec 90) | apply Rlt_not_eq; interval with (i_prec 90) ].
(* case i: entry j of the regenerated model of span(A, L, U) (regenerated norm axis, regenerated affine map) is
   defined and lies in [lo, hi]; silent when proved, @@BAD when the opposite is proved, @@UND otherwise *)
Ltac chk i A L U j lo hi :=
  let nv := eval cbv [norm_vec norm_axis map norm2 sumsq fold_right nth col seq hd length] in
              (match norm_vec norm_axis A with Some ns => nth j ns 0 | None => 0 end) in
  let s0 := eval cbv [INR length] in (INR (length A)) in
  let s1 := eval cbv [INR length hd] in (INR (length (hd [] A))) in
  let v := eval cbv [val span_expr span_env env_of nth cst] in (val span_expr (span_env L U nv s0 s1)) in
  let dm := eval cbv [dom val span_expr span_env env_of nth cst] in (dom span_expr (span_env L U nv s0 s1)) in
  tryif (assert (dm /\ lo <= v <= hi) by (split; [dom_tac | interval with (i_prec 90)]))
  then idtac
  else tryif (assert (v < lo \/ hi < v) by (first [left; interval with (i_prec 90) | right; interval with (i_prec 90)]))
       then idtac "@@BAD" i else idtac "@@UND" i.
Goal True.
'''


def coq_cases(cases):
    lines = [COQ_HEAD]
    for i, c in enumerate(cases):
        a = '[' + '; '.join('[' + '; '.join(q(fr(v)) for v in row) + ']' for row in c['a']) + ']'
        lb, ub, f = fr(c['lb']), fr(c['ub']), fr(c['f'])
        tol = max(abs(lb), abs(ub), abs(f)) / 2 ** TAU_BITS
        lines.append('  chk %d %s %s %s %d%%nat %s %s.' % (i, a, q(lb), q(ub), c['j'], q(f - tol), q(f + tol)))
    lines.append('  idtac "@@DONE". exact I.\nQed.')
    return '\n'.join(lines) + '\n'


def run(ctx):
    ctx.assume('IEEE-754 rounding is outside the real-number model: span theorems are over R; float results are compared with the '
               'model within 2^-40 of max(|lb|,|ub|,|result|) on finite samples, and the strict float-level oracle classifies '
               'rounding-only failures as known findings by input class',
               'np.random.uniform(0, 1) returns values in [0, 1] (hypothesis of C13_hyper_init_unit_box)',
               'IEEE-754 binary64 order is the order of sign-magnitude keys (unit-box theorems are on float keys); NaN coordinates '
               'stay NaN under np.clip and are excluded by the no_nan hypothesis',
               'np.linalg.norm(a, axis=1) is the Euclidean norm of each row; np.array(list) is the identity on values')
    ctx.trust('translator T3 (translate/t3_expr.py): hypercomplex.norm/span -> Gen/Span.v',
              'translator T4 (translate/t4_loops.py): HyperSpace.check_limits/_initialize_agents -> Gen/ClipLoops.v',
              'harness/c13.py (float-level oracle, input generators, failure classifier)',
              'Coq stdlib axioms of the classical reals under the span theorems; the unit-box theorems are closed under the global context',
              'Coq primitive floats (kernel binary64 arithmetic) under the two *_binary64_refuted witnesses only',
              'Interval (validation run only)')
    # 1. regenerate
    text, items, errors = t3_expr.generate_span(core.REPO)
    if text is None:
        text = '(* GENERATED: translation of hypercomplex.norm/span failed: %s *)\n' % json.dumps(errors).replace('*)', '* )')
    core.write_if_changed(os.path.join(core.GEN, 'Span.v'), text)
    for er in errors:
        ctx.oblige('T3 translation of %s' % er['item'], False, '%s:%s: %s' % (er['file'], er['line'], er['msg']))
    if not errors:
        ctx.oblige('T3 translated hypercomplex.norm and hypercomplex.span', True)
    for it in items[:1] + items[-1:]:
        ctx.sample({'regenerated_from': '%s:%d' % (it['file'], it['line']), 'text': it['text']})
    text4, items4, errors4 = t4_loops.generate(core.REPO)
    core.write_if_changed(os.path.join(core.GEN, 'ClipLoops.v'), text4)
    herr = [e for e in errors4 if e['item'].startswith('hyper') or e['item'] == 'uniform_signature']
    for er in herr:
        ctx.oblige('T4 translation of %s' % er['item'], False, '%s:%s: %s' % (er['file'], er['line'], er['msg']))
    if not herr:
        ctx.oblige('T4 translated HyperSpace.check_limits and HyperSpace._initialize_agents', True)
    for it in items4:
        if it['file'].endswith('hyper.py'):
            ctx.sample({'regenerated_from': '%s:%d' % (it['file'], it['line']), 'text': it['text']})
    # 2. theorems
    ok, log = ctx.build_props(allowed_axioms=ALLOWED)
    # 3. property oracle on the implementation
    rc, data, out = ctx.run_harness_json('c13.py', timeout=1500)
    if data is None:
        ctx.oblige('harness c13.py ran', False, out[-3000:])
        return
    ctx.oblige('harness c13.py ran', True)
    new_span = 0
    for f in data['fails']:
        st = ctx.report(f['key'], 'hypercomplex.span: ' + f['msg'],
                        {'kind': 'span', 'key': f['key'], 'msg': f['msg'], 'a': f['a'], 'lb': f['lb'], 'ub': f['ub'],
                         'lb_is_int': f['lb_is_int'], 'classes': [f['array_class'], f['bounds_class']]})
        new_span += st == 'violation'
    n_args = 0
    seen_keys = set()
    for c in data.get('args', []):
        if c['oracle']:
            n_args += 1
            if c['key'] not in seen_keys:
                seen_keys.add(c['key'])
                ctx.report(c['key'], 'hypercomplex.span: ' + c['oracle'], {'kind': 'span-args', 'case': c})
    ctx.oblige('property oracle: %d pairs of span() calls with the same ndarray bound objects (float64 and int64, lb != 0) leave their '
               'arguments bit-identical and return the same, in-range result the second time' % len(data.get('args', [])), n_args == 0, '')
    n_hist = 0
    hist_keys = set()
    for c in data.get('history', []):
        if c['oracle']:
            n_hist += 1
            if c['key'] not in hist_keys and len(hist_keys) < 4:
                hist_keys.add(c['key'])
                ctx.report(c['key'], 'HyperSpace after other spaces in the same process: ' + c['oracle'], {'kind': 'history', 'case': c})
    ctx.oblige('property oracle: %d histories (a SearchSpace/TreeSpace with the same n_variables and a non-unit box built, optionally run, '
               'before -- or after -- the HyperSpace): agents keep private zeros/ones bounds, agent.check_limits() lands in [0,1], and '
               'HS/SA/BHA/ABC/CS/FPA/BA/IHS tasks (%d objective evaluations) stay in the unit box'
               % (len(data.get('history', [])), sum(c.get('evaluations', 0) for c in data.get('history', []))), n_hist == 0, '')
    n_sp = 0
    for c in data['space']:
        if c['oracle'] and n_sp < 3:
            n_sp += 1
            ctx.report('hyper:%s' % ('init' if 'initialised' in c['oracle'] else 'ctor-raises' if c['oracle'].startswith('HyperSpace(') else 'check_limits'), 'HyperSpace: ' + c['oracle'],
                       {'kind': 'space', 'case': c})
    n_run = 0
    for c in data['runs']:
        if c['oracle'] and n_run < 3:
            n_run += 1
            ctx.report('hyper:run:%s' % c['optimizer'], 'HyperSpace task: ' + c['oracle'], {'kind': 'run', 'case': c})
    ctx.oblige('property oracle: span() on %d inputs satisfies range / zero row / ones row / norm-only / monotone with strict float '
               'comparisons, except the recorded rounding classes %s' % (data['span_cases'], sorted(data['fail_counts'])),
               new_span == 0, '; '.join(f['msg'] for f in data['fails'][:4]))
    ctx.oblige('property oracle: %d HyperSpace constructions + check_limits from arbitrary positions and %d PSO/SCA tasks '
               '(%d objective evaluations) stay in the unit box' % (len(data['space']), len(data['runs']),
                                                                     sum(c['evaluations'] for c in data['runs'])),
               n_sp == 0 and n_run == 0, '')
    dist = dict(data['dist'])
    for c in data.get('args', []):
        k = 'span-twice/%s/%s' % (c['bounds_class'], c['dtype'])
        dist[k] = dist.get(k, 0) + 1
    for c in data.get('history', []):
        k = 'history/%s/%s' % (c['order'], c['optimizer'])
        dist[k] = dist.get(k, 0) + 1
    for c in data['space']:
        k = 'space/%s/%s%s' % (c['bounds'], c['draw'], '/int' if c.get('int') else '')
        dist[k] = dist.get(k, 0) + 1
    for c in data['runs']:
        k = 'run/%s' % c['optimizer']
        dist[k] = dist.get(k, 0) + 1
    ctx.cov['distribution'] = dist
    ctx.cov['known_class_counts'] = data['fail_counts']
    ctx.cov['rule'] = ('span: all 64 corners of {0,1}^(2x3) + (n,d) in (1,1),(2,3),(3,2),(1,4),(5,8),(2,1),(4,4) x bound classes generic/negative/'
                       'huge(8e307)/overflow(ub-lb=inf)/degenerate(lb=ub)/tiny/offset/int-lists/wide(1e+-20) x array classes zeros/ones/corner/'
                       'denormal/near-ones/dyadic/mixed/uniform, each with a norm-only partner (other rows replaced, exact rows permuted) and a '
                       'shrunk-row partner; span called twice with the same float64/int64 ndarray bound objects (arguments bit-identical afterwards, second result = first and in range); non-trivial = anything but a uniform array with generic bounds; HyperSpace: scripted uniform draws at '
                       'both ends, positions (float, every 5th case integer dtype) with +-inf/huge/-0.0/denormal/bound values; 6-iteration PSO/SCA tasks; histories: SearchSpace/TreeSpace (boxes [-10,10],[50,60],[-1e6,-5e5],[0.25,0.75],[-3,0.5]) built/run before or after '
                       'the HyperSpace with the same n_variables, then agent bounds / sharing / agent.check_limits / 8 agent-clipping optimizers')
    extra = len(data.get('args', [])) + len(data.get('history', [])) + len(data['space']) + len(data['runs'])
    ctx.count(data['span_cases'] + extra, data['nontrivial'] + extra)
    ctx.cov['exhaustive'] = False
    if not ok:
        return
    # 4. the regenerated model against float results, decided inside Coq by Interval
    cases = data['coq']
    bad, und = [], []
    chunk = 300
    for s in range(0, len(cases), chunk):
        okc, outc = ctx.coq_eval(coq_cases(cases[s:s + chunk]), 'interval%d' % (s // chunk), timeout=1500)
        if not okc or '@@DONE' not in outc:
            ctx.oblige('Interval validation file %d evaluates' % (s // chunk), False, outc[-3000:])
            return
        bad += [s + int(m) for m in re.findall(r'@@BAD (\d+)', outc)]
        und += [s + int(m) for m in re.findall(r'@@UND (\d+)', outc)]
    ctx.oblige('validation: %d span() results lie within 2^-%d * max(|lb|,|ub|,|result|) of the regenerated model, proved by Interval '
               '(%d undecided)' % (len(cases) - len(und), TAU_BITS, len(und)), not bad,
               'cases proved OUTSIDE the tolerance: %s' % [{k: cases[b][k] for k in ('rowf', 'lbf', 'ubf', 'ff')} for b in bad[:3]])
    ctx.oblige('validation: Interval decides at least 90% of the sampled cases', len(und) * 10 <= len(cases),
               'undecided: %s' % [{k: cases[u][k] for k in ('rowf', 'lbf', 'ubf', 'ff')} for u in und[:3]])
    for b in bad[:3]:
        c = cases[b]
        ctx.report('model:span', 'the regenerated real-number model of span and the float result disagree beyond 2^-%d '
                   '(the float-level oracle passed on this input)' % TAU_BITS,
                   {'case': {k: c[k] for k in ('rowf', 'lbf', 'ubf', 'ff', 'j', 'n')}, 'theorem': 'C13_span_expr_doc'}, found_input=False)
    ctx.cov['interval_cases'] = len(cases)
    ctx.cov['interval_undecided'] = len(und)
    ctx.cov['disagreements_checked'] = len(bad)
    if cases:
        c = cases[len(cases) // 2]
        ctx.sample({'interval_case': {'row': c['rowf'], 'lb': c['lbf'], 'ub': c['ubf'], 'float_result': c['ff']}})
    ctx.sample({'theorem': 'C13_span_range : forall d lbs ubs a j, (1 <= d)%nat -> Forall2 Rle lbs ubs -> inputs_ok d lbs ubs a -> (j < length a)%nat -> '
                           'exists v, span a lbs ubs j = Some v /\\ nth j lbs 0 <= v <= nth j ubs 0'})
    ctx.sample({'theorem': 'C13_hyper_check_limits_unit_box : forall lbs ubs c, length ubs = length lbs -> length c = length lbs -> no_nan c = true -> '
                           'unit_box (run_cl hyper_check_limits lbs ubs c) = true'})


def regenerate():
    text, items, errors = t3_expr.generate_span(core.REPO)
    if text is not None:
        core.write_if_changed(os.path.join(core.GEN, 'Span.v'), text)
    return errors


def replay(ctx, path):
    doc = json.load(open(path))
    rc, data, out = ctx.run_harness_json('c13_replay.py', payload=doc, timeout=300)
    if data is None:
        print(out[-2000:])
        return 2
    print(json.dumps(data, indent=1))
    if data.get('fails'):
        print('VIOLATION property=C13 replay=%s' % path)
        return 1
    return 0
