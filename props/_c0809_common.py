"""Shared by props/C08.py and props/C09.py: regenerate Gen/TreeArity.v, run harness/c0809.py, feed every case to the
Coq model (Model/TreeHeap.v through the checkers of Model/TreeHeapSer.v, evaluated with vm_compute), report.

The property oracle is evaluated by the harness on the implementation (fields o8 / o9 of a case); a failing
oracle is a VIOLATION with the case as replay whatever the model says.  A model/implementation disagreement
on a case whose oracle passes is reported with found_input=False."""
import json
import os
import re
from concurrent.futures import ThreadPoolExecutor

from vlib import core
from translate import t_treeconsts, t_treeops, t_treealgo, t_sel

HARNESS = 'c0809.py'
KNOWN_SLOT_REUSE = 'reproduction:fitness[worst]=0:slot-reuse-with-nonpositive-fitness'
STRIP = ('exp', 'o8', 'o9', 'o9_kind', 'exc', 'nontrivial', 'skip')


def regenerate(ctx):
    text, items, errors = t_treeconsts.generate(core.REPO)
    core.write_if_changed(os.path.join(core.GEN, 'TreeArity.v'), text)
    for it in items:
        ctx.sample({'regenerated_from': '%s:%d' % (it['file'], it['line']), 'text': it['text']})
    for er in errors:
        ctx.oblige('T-treeconsts translation of %s' % er['item'], False, '%s:%s: %s' % (er['file'], er['line'], er['msg']))
    ctx.oblige('T-treeconsts translated N_ARGS_FUNCTION and TOURNAMENT_SIZE', not errors)
    # the operator bodies as data: pointer effects of _cross / _mutate / the linking statements of grow
    text2, items2, errors2 = t_treeops.generate(core.REPO)
    core.write_if_changed(os.path.join(core.GEN, 'TreeOps.v'), text2)
    for it in items2[:1]:
        ctx.sample({'regenerated_from': '%s:%d' % (it['file'], it['line']), 'text': it['text']})
    for er in errors2:
        ctx.oblige('T-treeops translation of %s' % er['item'], False, '%s:%s: %s' % (er['file'], er['line'], er['msg']))
    ctx.oblige('T-treeops translated %d operator bodies' % len(items2), not errors2)
    # what the operators call in core/node.py (pre_order, find_node, n_nodes): Props/C08.v and C09.v prove the heap
    # model's functions equal to the interpretation of these descriptions (Model/TreeHeapAlgoLink.v); post_order is
    # not called by the operators and not referred to by those theorems
    text3, _items3, errors3 = t_treealgo.generate(core.REPO)
    core.write_if_changed(os.path.join(core.GEN, 'TreeAlgoDescr.v'), text3)
    errors3 = [er for er in errors3 if er['item'] != 'post_order_descr']
    for er in errors3:
        ctx.oblige('T-treealgo translation of %s' % er['item'], False, '%s:%s: %s' % (er['file'], er['line'], er['msg']))
    ctx.oblige('T-treealgo translated pre_order, find_node and _properties of core/node.py (called by the operators)', not errors3)
    # what the population-level code calls in math/general.py (tournament_selection, pairwise): Props/C09.v proves the
    # heap model's tournament / pairs equal to the interpretation of these bodies (Model/TreeHeapSelLink.v); the same
    # file, from the same translator, that props/C18.py regenerates
    text4, _items4, errors4 = t_sel.generate(core.REPO)
    core.write_if_changed(os.path.join(core.GEN, 'SelDescr.v'), text4)
    for er in errors4:
        ctx.oblige('T-sel translation of %s' % er['item'], False, '%s:%s: %s' % (er['file'], er['line'], er['msg']))
    ctx.oblige('T-sel translated tournament_selection and pairwise of math/general.py (called by _reproduction, _mutation, _crossover)', not errors4)
    return not errors and not errors2 and not errors3 and not errors4


# ---------------------------------------------------------------------------- Coq syntax

def q_shape(s):
    if s[0] == 'T':
        return '(ST %d)' % s[1]
    if s[0] == 'U':
        return '(SU %d %s)' % (s[1], q_shape(s[2]))
    return '(SB %d %s %s)' % (s[1], q_shape(s[2]), q_shape(s[3]))


def q_nats(xs):
    return '[' + ';'.join(str(int(x)) for x in xs) + ']'


def q_fracs(ds):
    return '[' + ';'.join('(%d,%d)' % (d[0], d[1]) for d in ds) + ']'


def q_exp(e):
    return '[' + ';'.join(q_nats(r) for r in e) + ']%N'


def q_zs(zs):
    return '[' + ';'.join('(%d)' % int(z) for z in zs) + ']%Z'


def q_env(nt, funs, d0):
    return '(mkEnv %d %s arity_tab %d)' % (nt, q_nats(funs), d0)


def q_case(c):
    f = c['fam']
    e = q_exp(c['exp'])
    if f == 'find':
        return 'case_find %d %s %d %s' % (c['nt'], q_shape(c['shape']), c['p'], e)
    if f == 'deepcopy':
        return 'case_deepcopy %d %s %s' % (c['nt'], q_shape(c['shape']), e)
    if f == 'grow':
        return 'case_grow %s %s %s' % (q_env(c['nt'], c['funs'], c['max'] - c['min']), q_fracs(c['ds']), e)
    if f == 'mutate':
        return 'case_mutate %s %s %d %s %s' % (q_env(c['nt'], c['funs'], c['max'] - c['min']), q_shape(c['shape']),
                                              c['maxn'], q_fracs(c['ds']), e)
    if f == 'cross':
        if c.get('same'):
            return 'case_cross_same %d %s %d %d %s %s' % (c['nt'], q_shape(c['f']), c['maxf'], c['maxm'], q_fracs(c['ds']), e)
        return 'case_cross %d %s %s %d %d %s %s' % (c['nt'], q_shape(c['f']), q_shape(c['m']), c['maxf'], c['maxm'],
                                                   q_fracs(c['ds']), e)
    if f == 'repro':
        return 'case_repro %d tournament_size [%s] %s %d %s %s' % (
            c['nt'], ';'.join(q_shape(s) for s in c['shapes']), q_zs(c['fits']), c['k'], q_nats(c['picks']), e)
    if f == 'tourn':
        return 'case_tourn tournament_size %s %d %s %s' % (q_zs(c['fits']), c['k'], q_nats(c['picks']), e)
    if f == 'gp':
        n = c['n_trees']
        if 'funs0' in c:
            return 'case_run2 %s %s (mkGP tournament_size (%d,%d) %d %d %d) %d %d %s %s %s %s' % (
                q_env(c['nt'], c['funs0'], c['max'] - c['min']),
                q_env(c['nt'], c['funs'], c['max'] - c['min']), c['ratio'][0], c['ratio'][1],
                int(n * c['p_rep']), int(n * c['p_cross']), int(n * c['p_mut']), n, c['iters'],
                q_nats(c['picks']), q_fracs(c['ds']), q_zs(c['fits']), e)
        return 'case_run %s (mkGP tournament_size (%d,%d) %d %d %d) %d %d %s %s %s %s' % (
            q_env(c['nt'], c['funs'], c['max'] - c['min']), c['ratio'][0], c['ratio'][1],
            int(n * c['p_rep']), int(n * c['p_cross']), int(n * c['p_mut']), n, c['iters'],
            q_nats(c['picks']), q_fracs(c['ds']), q_zs(c['fits']), e)
    raise ValueError(f)


HEADER = ('From Coq Require Import List Arith Bool ZArith NArith.\n'
          'From OV Require Import Model.TreeDef Model.TreeHeap Model.TreeHeapSer Gen.TreeArity.\n'
          'Import ListNotations.\n')


def correspond(ctx, cases, tag='corr', max_bytes=600000, workers=4):
    """-> list aligned with cases: True (model = implementation), False, or None (case skipped / Coq failed)."""
    idx = [i for i, c in enumerate(cases) if not c.get('skip') and c.get('exp') is not None]
    chunks, cur, size = [], [], 0
    for i in idx:
        t = '  ' + q_case(cases[i])
        if cur and size + len(t) > max_bytes:
            chunks.append(cur)
            cur, size = [], 0
        cur.append((i, t))
        size += len(t)
    if cur:
        chunks.append(cur)

    def run_chunk(k):
        body = HEADER + 'Definition cs : list bool := [\n' + ';\n'.join(t for _, t in chunks[k]) + '\n].\n' \
            + 'Goal True. let r := eval vm_compute in (bad_cases cs) in idtac "@@BAD" r "@@END". exact I. Qed.\n'
        ok, out = ctx.coq_eval(body, '%s_%d' % (tag, k), timeout=1200)
        return ok, out
    res = [None] * len(cases)
    with ThreadPoolExecutor(max_workers=workers) as ex:
        outs = list(ex.map(run_chunk, range(len(chunks))))
    all_ok = True
    for k, (ok, out) in enumerate(outs):
        bad = None
        if ok:
            # the list may be wrapped over many lines by Coq's pretty-printer: take everything up to the end marker
            m = re.search(r'@@BAD(.*?)@@END', out, re.S)
            if m:
                bad = set(int(x) for x in re.findall(r'\d+', m.group(1)))
        if bad is None:
            all_ok = False
            ctx.oblige('correspondence chunk %d evaluates in Coq' % k, False, out[-3000:])
            continue
        for j, (i, _) in enumerate(chunks[k]):
            res[i] = j not in bad
    return res, all_ok, len(chunks)


def strip(c):
    return {k: v for k, v in c.items() if k not in STRIP}


FAM_THEOREM = {
    'find': 'find_node_slot (C09) / the find_node model',
    'tourn': 'C09_reproduction_spec (the tournament model)',
    'deepcopy': 'C08_deepcopy_wf',
    'grow': 'C08_grow_wf',
    'mutate': 'C08_mutate_wf / C09_mutate_spec',
    'cross': 'C08_cross_wf / C09_cross_spec',
    'repro': 'C09_reproduction_spec / C08_gp_step_inv',
    'gp': 'C08_gp_run_inv',
}


def run_harness(ctx):
    rc, data, out = ctx.run_harness_json(HARNESS, payload={'mode': 'cases'}, timeout=3000)
    if data is None:
        ctx.oblige('harness c0809.py ran', False, out[-3000:])
        return None
    ctx.oblige('harness c0809.py ran (%d cases)' % len(data['cases']), True)
    return data


def check_consts(ctx, data):
    """the table the harness saw at run time is the table the translator read"""
    try:
        n_args, tsize, _ = t_treeconsts.read(core.REPO)
    except Exception:        # noqa  (already an obligation)
        return
    ctx.oblige('run-time N_ARGS_FUNCTION / TOURNAMENT_SIZE equal the translated ones',
               data.get('n_args') == n_args and data.get('tournament_size') == tsize,
               '%r %r vs %r %r' % (data.get('n_args'), data.get('tournament_size'), n_args, tsize))


def report_all(ctx, pid, cases, res, coq_ok):
    okey = 'o8' if pid == 'C08' else 'o9'
    per_key = {}
    n_or = 0
    for i, c in enumerate(cases):
        msg = c.get(okey)
        if not msg:
            continue
        n_or += 1
        if pid == 'C09' and c['fam'] == 'repro' and c.get('o9_kind') == 'slot-reuse' and res[i] is not False:
            key = KNOWN_SLOT_REUSE
        else:
            cat = re.sub(r'[^a-z]+', '-', msg.lower())[:40].strip('-')
            key = '%s:%s' % (c['fam'], cat)
        per_key[key] = per_key.get(key, 0) + 1
        if per_key[key] <= 2:
            ctx.report(key, '%s: %s' % (c['fam'], msg), {'kind': 'oracle', 'case': strip(c)})
    fams = {}
    for i, c in enumerate(cases):
        if res[i] is None:
            continue
        f = c['fam']
        fams.setdefault(f, [0, 0])
        fams[f][0] += 1
        if res[i] is False:
            fams[f][1] += 1
    for f in sorted(fams):
        n, bad = fams[f]
        ctx.oblige('correspondence %s: model = implementation on %d cases' % (f, n), bad == 0,
                   '%d mismatching cases, e.g. %s' % (bad, json.dumps(
                       [strip(c) for i, c in enumerate(cases) if res[i] is False and c['fam'] == f][:1])[:1500]))
    shown = {}
    for i, c in enumerate(cases):
        if res[i] is False and not c.get(okey):
            f = c['fam']
            shown[f] = shown.get(f, 0) + 1
            if shown[f] <= 1:
                ctx.report('corr-%s' % f, 'model and implementation of %s disagree (the property oracle passes on this input); '
                           'the theorems no longer speak about this code' % f,
                           {'kind': 'correspondence', 'case': strip(c), 'theorem': FAM_THEOREM[f]}, found_input=False)
    return n_or


def coverage(ctx, cases, res, nchunks):
    dist = {}
    for c in cases:
        k = c['fam'] + ('/skipped' if c.get('skip') else '')
        dist[k] = dist.get(k, 0) + 1
    ctx.cov['distribution'] = dist
    ctx.cov['rule'] = ('find/deepcopy/mutate/cross: every parent of depth <= 2 over unary and binary nodes (13 shapes, 169 ordered '
                       'pairs), every point the contract allows plus the first out-of-range one; grow: every outcome for a '
                       'unary+binary function set with depth budget <= 2 plus seeded random sets; reproduction: fitness vectors '
                       'over {-2,0,1,3} of length 2-4 plus near-tie float vectors (distinct values within 1e-5 relative / 1e-8 absolute, +-0.0), '
                       'every count, fixed and seeded tournament scripts; tournament_selection alone; histories: `functions` of a live '
                       'space re-assigned / rewritten in place (other order, arities, longer, shorter, empty) then grow / _mutate / GP.run; '
                       'seeded scripted GP runs, half of them with converged (near-tie) fitness scripts '
                       '(non-trivial = a slot is selected / a function node is grown / an individual is overwritten)')
    ctx.count(len(cases), sum(1 for c in cases if c.get('nontrivial')))
    ctx.cov['exhaustive'] = False
    ctx.cov['coq_case_files'] = nchunks
    ctx.cov['disagreements_checked'] = sum(1 for r in res if r is False)
    for fam in ('cross', 'mutate', 'repro', 'grow', 'tourn'):
        for c in cases:
            if c['fam'] == fam and c.get('nontrivial'):
                ctx.sample({'case': {k: v for k, v in c.items() if k != 'exp'}})
                break


def run_common(ctx, pid, extra_allowed=()):
    ctx.assume('generate_uniform_random_number(low, high) returns a value in [low, high) (and low when low = high): '
               'scripted as exact fractions n/d with n < d',
               'np.random.choice(fitness) returns an element of fitness: scripted as an index',
               'copy.deepcopy of a closed object graph is a fresh isomorphic graph (memo preserves sharing); '
               'it is run, not modelled, in the harness and compared with the model on every case',
               'Node.pre_order (explicit stack) lists the nodes root-left-right (C11 proves this for the functional tree)')
    ctx.trust('translator T-treeconsts (translate/t_treeconsts.py): N_ARGS_FUNCTION, TOURNAMENT_SIZE -> Gen/TreeArity.v',
              'translator T-treeops (translate/t_treeops.py): pointer effects of _cross / _mutate / grow linking -> Gen/TreeOps.v '
              '(= the model descriptions by reflexivity; their interpretation = the model functions, proved)',
              'harness/c0809.py: graph serialiser, scripted randomness, independent WF/disjointness/slot oracle',
              'hand-written model Model/TreeHeap.v: _cross, _mutate, the linking step of grow, _reproduction, _mutation, _crossover, _prune_nodes and the selection part of grow are tied by T-treeops / T-treepop + proof; pre_order, find_node and n_nodes are proved equal, on every heap representing a tree, to the interpretation of the descriptions regenerated from core/node.py by T-treealgo (Model/TreeHeapAlgoLink.v); the tournament and pairwise the population-level code calls are proved equal to the interpretation of the bodies regenerated from math/general.py by T-sel (Model/TreeHeapSelLink.v; what the interpreter Model/SelDescr.v takes np.random.choice, min, ==, np.where to mean stays tied to NumPy by the C18 correspondence run); deepcopy, _evaluate and np.argmax by the correspondence run only',
              'Model/TreeHeapSer.v: the serialiser and fixtures on the Coq side (unverified, executable)')
    regenerate(ctx)
    ok, log = ctx.build_props(extra_targets=['theories/Model/TreeHeapSer.vo', 'theories/Gen/TreeArity.vo', 'theories/Gen/TreeOps.vo'],
                              allowed_axioms=list(extra_allowed))
    data = run_harness(ctx)
    if data is None:
        return
    cases = data['cases']
    check_consts(ctx, data)
    if not ok:
        # the theorems do not build (e.g. the regenerated operator description is no longer the model's): the
        # executable model may still build -- keep the correspondence signal
        ok, _ = ctx.build(['theories/Model/TreeHeapSer.vo', 'theories/Gen/TreeArity.vo'])
    if ok:
        res, coq_ok, nchunks = correspond(ctx, cases, tag='corr', workers=4 if ctx.quick else 8)
    else:
        res, coq_ok, nchunks = [None] * len(cases), False, 0
    report_all(ctx, pid, cases, res, coq_ok)
    coverage(ctx, cases, res, nchunks)


def replay_common(ctx, pid, path):
    doc = json.load(open(path))
    rp = doc.get('replay', {})
    if 'case' not in rp:
        print(json.dumps(rp, indent=1)[:3000])
        print('this replay records broken proof obligations, not an input: re-run ./check %s' % pid)
        return 2
    rc, data, out = ctx.run_harness_json(HARNESS, payload={'mode': 'replay', 'case': rp['case']}, timeout=600)
    if data is None:
        print(out[-3000:])
        return 2
    okey = 'o8' if pid == 'C08' else 'o9'
    c = data['case']
    print(json.dumps({k: v for k, v in c.items() if k != 'exp'}, indent=1)[:4000])
    if data.get(okey):
        print('oracle: ' + data[okey])
        print('VIOLATION property=%s replay=%s' % (pid, path))
        return 1
    if rp.get('kind') == 'correspondence':
        regenerate(ctx)
        ok, log = ctx.build(['theories/Model/TreeHeapSer.vo', 'theories/Gen/TreeArity.vo'])
        res, coq_ok, _ = correspond(ctx, [c], tag='replay')
        if res[0] is not True:
            print('model and implementation still disagree on this case')
            print('VIOLATION property=%s replay=%s no-failing-input-found' % (pid, path))
            return 1
    print('the recorded case passes on the current tree')
    return 0
