"""C17 -- benchmark functions compute their documented formulas and respect their minima.

Theorems: coq/theories/Props/C17.v (lemmas in Model/BenchProofs.v, language Base/RExprBench.v) about the terms
code_f / doc_f of Gen/Bench.v, which translate/t3_bench.py regenerates on every run from the body and from the
docstring formula of every active function of /repo/opytimizer/math/benchmark.py.
Tie beyond regeneration (harness/c17.py): the real functions are run at sampled points of their documented boxes;
the property oracle (independent scalar references, documented minima) is evaluated on the implementation, the float
evaluation of the regenerated code_f must agree with the implementation, and for a sample of points Coq itself
(Interval, 90 bits) checks  bdef code_f x /\\ |bval code_f x - float value| <= 1e-9 max(1,|value|)  at the exact
rational value of the float inputs."""
import json
import os
import re
import threading
from fractions import Fraction

from vlib import core
from translate import t3_bench

FUNCS = ['ackley1', 'alpine1', 'alpine2', 'brown', 'chung_reynolds', 'cosine_mixture', 'csendes', 'deb1', 'deb2',
         'exponential', 'quintic', 'rastringin', 'salomon', 'schumer_steiglitz', 'schwefel', 'sphere', 'styblinski_tang']

# what the docstrings document (the theorems of Props/C17.v are stated for these boxes / minima)
DOCUMENTED = {
    'ackley1': (['-35', '35'], '0'), 'alpine1': (['-10', '10'], '0'), 'alpine2': (['0', '10'], '-2.808^n'),
    'brown': (['-1', '4'], '0'), 'chung_reynolds': (['-100', '100'], '0'), 'cosine_mixture': (['-1', '1'], '0.1 * n'),
    'csendes': (['-1', '1'], '0'), 'deb1': (['-1', '1'], '-1'), 'deb2': (['-1', '1'], '-1'),
    'exponential': (['-1', '1'], '-1'), 'quintic': (['-10', '10'], '0'), 'rastringin': (['-5.12', '5.12'], '0'),
    'salomon': (['-100', '100'], '0'), 'schumer_steiglitz': (['-100', '100'], '0'), 'schwefel': (['-500', '500'], '0'),
    'sphere': (['-5.12', '5.12'], '0'), 'styblinski_tang': (['-5', '5'], '-78.332'),
}

INTERVAL_AXIOMS = [
    'FloatAxioms.Prim2SF_SF2Prim', 'FloatAxioms.Prim2SF_valid', 'FloatAxioms.SF2Prim_Prim2SF', 'FloatAxioms.abs_spec',
    'FloatAxioms.add_spec', 'FloatAxioms.classify_spec', 'FloatAxioms.compare_spec', 'FloatAxioms.div_spec',
    'FloatAxioms.eqb_spec', 'FloatAxioms.frshiftexp_spec', 'FloatAxioms.ldshiftexp_spec', 'FloatAxioms.ltb_spec',
    'FloatAxioms.mul_spec', 'FloatAxioms.next_down_spec', 'FloatAxioms.next_up_spec', 'FloatAxioms.normfr_mantissa_spec',
    'FloatAxioms.of_uint63_spec', 'FloatAxioms.opp_spec', 'FloatAxioms.sqrt_spec', 'FloatAxioms.sub_spec',
    'PrimFloat.abs', 'PrimFloat.add', 'PrimFloat.classify', 'PrimFloat.compare', 'PrimFloat.div', 'PrimFloat.eqb',
    'PrimFloat.float', 'PrimFloat.frshiftexp', 'PrimFloat.ldshiftexp', 'PrimFloat.ltb', 'PrimFloat.mul',
    'PrimFloat.next_down', 'PrimFloat.next_up', 'PrimFloat.normfr_mantissa', 'PrimFloat.of_uint63', 'PrimFloat.opp',
    'PrimFloat.sqrt', 'PrimFloat.sub', 'PrimInt63.add', 'PrimInt63.addc', 'PrimInt63.addcarryc', 'PrimInt63.addmuldiv',
    'PrimInt63.compare', 'PrimInt63.div', 'PrimInt63.diveucl', 'PrimInt63.diveucl_21', 'PrimInt63.eqb', 'PrimInt63.head0',
    'PrimInt63.int', 'PrimInt63.land', 'PrimInt63.leb', 'PrimInt63.lor', 'PrimInt63.lsl', 'PrimInt63.lsr', 'PrimInt63.ltb',
    'PrimInt63.lxor', 'PrimInt63.mod', 'PrimInt63.mul', 'PrimInt63.mulc', 'PrimInt63.sub', 'PrimInt63.subc',
    'PrimInt63.subcarryc', 'PrimInt63.tail0', 'Uint63.add_spec', 'Uint63.addc_def_spec', 'Uint63.addcarryc_def_spec',
    'Uint63.addmuldiv_def_spec', 'Uint63.compare_def_spec', 'Uint63.div_spec', 'Uint63.diveucl_21_spec',
    'Uint63.diveucl_def_spec', 'Uint63.eqb_correct', 'Uint63.eqb_refl', 'Uint63.head0_spec', 'Uint63.land_spec',
    'Uint63.leb_spec', 'Uint63.lor_spec', 'Uint63.lsl_spec', 'Uint63.lsr_spec', 'Uint63.ltb_spec', 'Uint63.lxor_spec',
    'Uint63.mod_spec', 'Uint63.mul_spec', 'Uint63.mulc_spec', 'Uint63.of_to_Z', 'Uint63.sub_spec', 'Uint63.subc_def_spec',
    'Uint63.subcarryc_def_spec', 'Uint63.tail0_spec']
# the only theorems that may depend on Interval's computation (everything else: stdlib real axioms at most)
INTERVAL_THEOREMS = ('schwefel', 'alpine2')

ENC_HEADER = r'''From Coq Require Import Reals List Lra.
From Interval Require Import Tactic.
From OV Require Import Base.RExprBench Gen.Bench.
Import ListNotations.
Open Scope R_scope.
Ltac bdef_solve :=
  repeat match goal with
  | |- _ /\ _ => split
  | |- True => exact I
  | |- powR_def _ _ => left; interval
  | |- _ <> _ => first [ lra | interval | apply Rgt_not_eq; interval | apply Rlt_not_eq; interval ]
  | |- _ <= _ => first [ lra | interval ]
  end.
Ltac enc_solve :=
  repeat match goal with |- context [bval ?c _ _ _] => progress unfold c end;
  cbv [bval bdef sumf prodf sumpairs allf allpairs length INR];
  split; [ bdef_solve | rewrite ?powR_pos by interval; unfold Rpower; interval with (i_prec 90) ].
'''


def coq_q(fr):
    fr = Fraction(fr)
    if fr.denominator == 1:
        return '(%d)' % fr.numerator
    return '(%d / %d)' % (fr.numerator, fr.denominator)


def enc_goal(idx, c):
    xs = '[' + '; '.join(coq_q(Fraction(v)) for v in c['x']) + ']'
    val = Fraction(c['impl'])
    tol = Fraction(1, 10 ** 9) * max(Fraction(1), abs(val))
    return ('Goal True. tryif (assert (bdef code_%s %s 0 0 /\\ Rabs (bval code_%s %s 0 0 - %s) <= %s) by enc_solve) '
            'then idtac "@@OK %d" else idtac "@@BAD %d". exact I. Qed.'
            % (c['f'], xs, c['f'], xs, coq_q(val), coq_q(tol), idx, idx))


def simple_first(cases, idxs):
    def cost(i):
        c = cases[i]
        return (c['n'], sum(len(repr(v)) for v in c['x']))
    return sorted(idxs, key=cost)


def regenerate(ctx=None):
    text, items, errors, trees = t3_bench.generate(core.REPO)
    core.write_if_changed(os.path.join(core.GEN, 'Bench.v'), text)
    return text, items, errors, trees


def run(ctx):
    ctx.assume('real-number semantics: IEEE rounding, overflow and the summation order of np.sum/np.prod are not modelled '
               '(bridged per run by the float/enclosure comparison at relative tolerance 1e-9)',
               'NumPy element-wise arithmetic and np.sum/np.prod/np.sqrt/np.exp/np.sin/np.cos/np.fabs compute the '
               'mathematical operations they are named after; x is a one-dimensional float array',
               'float ** float: defined for a > 0, for a = 0 with b >= 0, for a < 0 with integer b (NumPy gives NaN/inf otherwise)')
    ctx.trust('translator T3 (translate/t3_bench.py): benchmark.py bodies and docstring formulas -> bexpr terms '
              '(validated each run: float evaluation of code_f against the implementation at every sampled point)',
              'harness/c17.py: hand-written scalar references of the 17 docstring formulas',
              'Coq Interval 4 (primitive floats / Uint63 spec axioms) for the Schwefel and Alpine2 bounds and the enclosures')
    # 1. regenerate code_f / doc_f from the current source
    text, items, errors, trees = regenerate()
    for er in errors:
        ctx.oblige('T3 translation of %s' % er['item'], False, '%s:%s: %s' % (er['file'], er['line'], er['msg']))
    got = [it['name'] for it in items]
    ctx.oblige('T3 translated %d functions (body and docstring formula)' % len(items), not errors)
    ctx.oblige('the active functions of benchmark.py are the 17 of Props/C17.v', got == FUNCS or bool(errors),
               'translated: %s; expected: %s' % (got, FUNCS))
    for it in items[:2]:
        ctx.sample({'regenerated_from': '%s:%d (formula line %d)' % (it['file'], it['line'], it['doc_line']),
                    'text': it['text'], 'doc_formula': it['doc_formula']})
    for name, info in trees.items():
        if name in DOCUMENTED:
            box, dmin = DOCUMENTED[name]
            ctx.oblige('docstring of %s documents box %s and minimum %s (as assumed by the theorems)' % (name, box, dmin),
                       info['box'] == box and info['doc_min'] == dmin,
                       'docstring now says box %s, minimum %r' % (info['box'], info['doc_min']))
    n_ident = sum(1 for it in items if it['identical'])
    ctx.cov['distribution']['code_f syntactically identical to doc_f'] = n_ident
    # 2. theorems
    ok, log = ctx.build_props(allowed_axioms=sorted(core.STDLIB_REAL_AXIOMS) + INTERVAL_AXIOMS)
    try:
        ptxt = open(os.path.join(core.THEORIES, 'Props', 'C17.v')).read()
        for nm in ('C17_ackley1', 'C17_csendes'):
            m = re.search(r'Theorem %s :(.*?)\nProof\.' % nm, ptxt, re.S)
            if m:
                ctx.sample({'theorem': nm, 'statement': ' '.join(m.group(1).split())})
    except OSError:
        pass
    if ok:
        for th in ctx.cov['theorems']:
            if not any(k in th['name'] for k in INTERVAL_THEOREMS):
                extra = [a for a in th['axioms'] if a not in core.STDLIB_REAL_AXIOMS]
                ctx.oblige('theorem %s depends on the stdlib real axioms at most' % th['name'], not extra, ', '.join(extra))
    # 3. the implementation at sampled points: property oracle, translator validation
    fallback = {f: {'box': DOCUMENTED[f][0], 'n_min': 2 if f == 'brown' else 1} for f in FUNCS if f not in trees}
    rc, data, out = ctx.run_harness_json('c17.py', payload={'trees': trees, 'fallback': fallback}, timeout=1500)
    if data is None:
        ctx.oblige('harness c17.py ran', False, out[-3000:])
        return
    cases, enc = data['cases'], data['enc']
    ctx.oblige('every public function of opytimizer.math.benchmark is translated', sorted(data['active']) == sorted(trees),
               'module has %s, translated %s' % (data['active'], sorted(trees)))
    for name in data['active']:
        if name not in trees and name not in [e['item'] for e in errors]:
            ctx.report('formula:%s' % name, 'active benchmark function %s is not covered by a formula theorem' % name,
                       {'kind': 'uncovered', 'f': name}, found_input=False)
    dist = ctx.cov['distribution']
    for c in cases:
        k = '%s/%s' % (c['f'], c['cls'])
        dist[k] = dist.get(k, 0) + 1
    ctx.cov['rule'] = ('per function and n in {1,2,3,7} (Brown: n >= 2): known minimisers, box corners, axis points, origin, '
                       'seeded uniform points of the documented box (some rounded to 2 decimals, some with a zero coordinate), '
                       'perturbed minimisers, points of the non-negative half; non-trivial = implementation value finite and '
                       'not at a minimiser/origin; enclosure sample spread over classes and dimensions')
    by_key = {}
    for i, c in enumerate(cases):
        for o in c['oracle']:
            by_key.setdefault(o['key'], []).append((i, o['what']))
    for key in sorted(by_key):
        idxs = simple_first(cases, sorted({i for i, _ in by_key[key]}))
        i = idxs[0]
        what = [w for j, w in by_key[key] if j == i][0]
        c = cases[i]
        ctx.report(key, what + '  [x = %s; %d sampled points of this kind]' % (c['x'], len(idxs)),
                   {'kind': 'point', 'f': c['f'], 'x': c['x'], 'cls': c['cls'], 'key': key, 'impl': c['impl'],
                    'impl_note': c['impl_note'], 'reference': c['ref'], 'doc_formula_value': c['doc'],
                    'doc_formula': trees.get(c['f'], {}).get('doc_formula'), 'line': trees.get(c['f'], {}).get('line')})
    n_or = sum(1 for c in cases if not [o for o in c['oracle'] if o['key'] not in ('csendes:zero-coordinate', 'deb2:negative-coordinate')])
    ctx.oblige('property oracle on the implementation: %d of %d sampled points pass (formula and minimum)' % (n_or, len(cases)),
               n_or == len(cases), '; '.join(sorted(k for k in by_key if k not in ('csendes:zero-coordinate', 'deb2:negative-coordinate'))))
    ties = [i for i, c in enumerate(cases) if c['tie']]
    ctx.oblige('T3 validation: float evaluation of code_f = implementation at %d points' % len(cases), not ties,
               '\n'.join(cases[i]['tie'][0] for i in ties[:5]))
    if ties and not any(not v['key'].startswith(('csendes:', 'deb2:')) for v in ctx.violations):
        c = cases[simple_first(cases, ties)[0]]
        ctx.report('translation:%s' % c['f'], 'the regenerated model code_%s does not evaluate like the implementation: %s'
                   % (c['f'], c['tie'][0]), {'kind': 'model', 'f': c['f'], 'x': c['x'], 'cls': c['cls'], 'key': None,
                                             'theorem': 'C17_formula_%s (stated about code_%s)' % (c['f'], c['f'])}, found_input=False)
    ctx.count(len(cases), len({(c['f'], tuple(c['x'])) for c in cases
                               if c['impl'] is not None and c['cls'] not in ('minimiser', 'origin')}))
    mid = cases[len(cases) // 2]
    ctx.sample({'case': {k: mid[k] for k in ('f', 'n', 'cls', 'x', 'impl', 'ref', 'doc', 'code')}})
    # 4. Coq-computed enclosures of the real model at the exact float inputs
    if not os.path.exists(os.path.join(core.GEN, 'Bench.vo')):
        ctx.oblige('enclosure validation (Gen/Bench.vo available)', False, 'Gen/Bench.v did not build')
        return
    chunk = 120
    parts = [enc[i:i + chunk] for i in range(0, len(enc), chunk)]
    results = {}
    fails = []

    def work(pi, idxs):
        body = ENC_HEADER + '\n'.join(enc_goal(i, cases[i]) for i in idxs) + '\n'
        okc, outc = ctx.coq_eval(body, 'enc%d' % pi, timeout=1200)
        results[pi] = (okc, outc)

    par = 4
    for s in range(0, len(parts), par):
        ths = [threading.Thread(target=work, args=(pi, parts[pi])) for pi in range(s, min(s + par, len(parts)))]
        for t in ths:
            t.start()
        for t in ths:
            t.join()
    okset, badset = set(), set()
    for pi, (okc, outc) in results.items():
        if not okc:
            fails.append(outc[-1500:])
        for m in re.finditer(r'^@@(OK|BAD) (\d+)\s*$', outc, re.M):
            (okset if m.group(1) == 'OK' else badset).add(int(m.group(2)))
    missing = [i for i in enc if i not in okset and i not in badset]
    ctx.oblige('enclosure files evaluate in Coq (%d files)' % len(parts), not fails and not missing,
               ('\n'.join(fails) + ' missing cases: %s' % missing[:10]))
    ctx.oblige('Coq enclosures: bdef code_f x and |bval code_f x - float value| <= 1e-9 max(1,|value|) at %d sampled points'
               % len(enc), not badset, 'failing cases: %s' % [(cases[i]['f'], cases[i]['x']) for i in sorted(badset)[:5]])
    for i in simple_first(cases, sorted(badset))[:2]:
        c = cases[i]
        ctx.report('enclosure:%s' % c['f'], 'the real-number model of %s and its float value disagree beyond 1e-9 at x = %s '
                   '(value %r)' % (c['f'], c['x'], c['impl']),
                   {'kind': 'model', 'f': c['f'], 'x': c['x'], 'cls': c['cls'], 'key': None,
                    'theorem': 'enclosure validation of code_%s' % c['f']}, found_input=False)
    ctx.count(len(enc), len(okset))
    if enc:
        ctx.sample({'enclosure_goal': enc_goal(enc[0], cases[enc[0]])[:600]})
    edist = {}
    for i in enc:
        edist[cases[i]['f']] = edist.get(cases[i]['f'], 0) + 1
    dist['enclosures per function'] = edist
    ctx.cov['exhaustive'] = False
    ctx.cov['disagreements_checked'] = len(badset) + len(ties)


def replay(ctx, path):
    doc = json.load(open(path))
    rp = doc.get('replay', {})
    if rp.get('kind') != 'point':
        # an obligation broke without a concrete input: re-run the check
        run(ctx)
        return ctx.finish()
    text, items, errors, trees = t3_bench.generate(core.REPO)
    if rp['f'] not in trees and rp['f'] not in FUNCS:
        print('function %s cannot be translated any more: %s' % (rp['f'], errors))
        print('VIOLATION property=C17 replay=%s' % path)
        return 1
    fallback = {f: {'box': DOCUMENTED[f][0], 'n_min': 2 if f == 'brown' else 1} for f in FUNCS if f not in trees}
    rc, data, out = ctx.run_harness_json('c17.py', payload={'trees': trees, 'fallback': fallback, 'replay': rp}, timeout=300)
    if data is None:
        print(out[-2000:])
        return 2
    print(json.dumps(data, indent=1))
    if data.get('fails'):
        print('VIOLATION property=C17 replay=%s' % path)
        return 1
    return 0
