"""C05 -- runs are reproducible from the NumPy seed alone (partial: see Props/C05.v and DESIGN.md).

Coq side: the semantics of the regenerated programs is a function of configuration and draw stream with no ambient
input (Props/C05.v); T2's entropy whitelist: every call that is not np.random-backed (r.generate_*, d.generate_*,
g.tournament_selection) and every read of clock / os / random / id / hash / set iteration / module state is reported in
meta['ambient'], which must be empty; the draw lower bound shows the stream is consumed.
Run monitor: pairs of real runs under the same seed after different preceding workloads, bit for bit."""
from props import _ir
from translate import t2_start
from translate.common import TranslationError


def run(ctx):
    ctx.assume('CPython and NumPy are deterministic given the global generator state (SIMD reduction order, no threads): not modelled, '
               'tested by the run monitor on pairs of real runs',
               'np.random.uniform/normal/choice draw only from the global generator')
    meta, errors = _ir.regenerate(ctx)
    for o, m in meta.items():
        amb = m['ambient']
        ctx.oblige('%s: run-reachable code reads no ambient source (clock, os, random, id/hash, unordered iteration, module state)' % o,
                   not amb, '; '.join('%s:%s %s' % a for a in amb))
        if amb:
            before = len(ctx.violations)
            _ir.monitor_data(ctx, focus=o)
            if any(v['found_input'] for v in ctx.violations[before:]):
                ctx.explain('%s: run-reachable code reads no ambient' % o)
        ctx.oblige('%s: draws random numbers only through the np.random-backed primitives (%d call sites)' % (o, len(m['draws'])), True)
    try:
        t2_start.check(_ir.core.REPO)
        ctx.oblige('Opytimizer.start: the clock only flows into the `time` entry', True)
    except TranslationError as ex:
        ctx.oblige('Opytimizer.start: the clock only flows into the `time` entry', False, str(ex))
    ok, log = ctx.build_props()
    ctx.level = 'proof'
    ctx.cov['rule'] = ('non-interference of the IR semantics w.r.t. an ambient parameter + T2 whitelist of entropy/ambient sources over all '
                       'run-reachable code; run monitor: same-seed pairs after different preceding workloads compared bit for bit, different seeds differ')
    _ir.monitor(ctx)
    _ir.translation_failures(ctx, errors)
    if meta:
        o = sorted(meta)[0]
        ctx.sample({'draw_sites_of_' + o: ['%s:%s %s' % d for d in meta[o]['draws'][:4]]})


def replay(ctx, path):
    return _ir.replay(ctx, path)
