"""C05 -- runs are reproducible from the NumPy seed alone (partial: see Props/C05.v and DESIGN.md).

Coq side: the semantics of the regenerated programs is a function of configuration and draw stream with no ambient
input (Props/C05.v); T2's entropy whitelist: every call that is not np.random-backed (r.generate_*, d.generate_*,
g.tournament_selection) and every read of clock / os / random / id / hash / set iteration / module state is reported in
meta['ambient'], which must be empty; the draw lower bound shows the stream is consumed.
Run monitor: pairs of real runs under the same seed after different preceding workloads, bit for bit."""
from props import _ir
from translate import t2_start, t5_ambient
from translate.common import TranslationError


def run(ctx):
    ctx.assume('CPython and NumPy are deterministic given the global generator state (SIMD reduction order, no threads): not modelled, '
               'tested by the run monitor on pairs of real runs',
               'np.random.uniform/normal/choice draw only from the global generator')
    meta, errors = _ir.regenerate(ctx)
    for o, m in meta.items():
        amb = m['ambient']
        ctx.oblige('%s: run-reachable code reads no ambient source (clock, os, random, id/hash, unordered iteration, module state)' % o,
                   not amb, '; '.join('%s:%s %s' % a for a in amb))
        if amb:
            before = len(ctx.violations)
            _ir.monitor_data(ctx, focus=o)
            if any(v['found_input'] for v in ctx.violations[before:]):
                ctx.explain('%s: run-reachable code reads no ambient' % o)
        ctx.oblige('%s: draws random numbers only through the np.random-backed primitives (%d call sites)' % (o, len(m['draws'])), True)
    try:
        t2_start.check(_ir.core.REPO)
        ctx.oblige('Opytimizer.start: the clock only flows into the `time` entry', True)
    except TranslationError as ex:
        ctx.oblige('Opytimizer.start: the clock only flows into the `time` entry', False, str(ex))
    # T5: the same audit over the WHOLE library (math/, spaces/, core/, functions/, utils/), where T2 does not look
    files, amb = t5_ambient.audit(_ir.core.REPO)
    amb = [a for a in amb if not (a['file'] == 'opytimizer/utils/history.py' and a['what'] == 'ambient builtin open()')]   # History.save/load (C19)
    ctx.oblige('T5 ambient-state audit of %d library modules: no function writes module-level state, reads the clock / os / stdlib random / '
               'hash / id, iterates a set, or uses a private generator' % len(files), not amb,
               '; '.join('%s:%s %s (%s)' % (a['file'], a['line'], a['what'], a['text']) for a in amb[:6]))
    # across interpreters: different PYTHONHASHSEED and different workloads run BEFORE seeding
    rc, xd, xout = ctx.run_harness_json('c05_xproc.py', payload={}, timeout=900)
    if xd is None:
        ctx.oblige('cross-interpreter reproducibility harness ran', False, xout[-1500:])
    else:
        ctx.oblige('cross-interpreter pairs: %d seeded tasks in fresh interpreters (%d groups x hash salts x preceding workloads %s) agree bit for bit; other seeds differ'
                   % (xd['tasks'], xd['groups'], xd['variants']), not xd['records'], str([r['key'] for r in xd['records']][:5]))
        for r in xd['records'][:6]:
            ctx.report(r['key'], r['what'], {'kind': 'c05_xproc', 'config': r['config'], 'optimizer': r['optimizer']})
        if xd['records']:
            ctx.explain('cross-interpreter pairs')
            if amb:
                ctx.explain('T5 ambient-state audit')
        ctx.count(xd['tasks'], xd['tasks'] - xd['groups'])
    if amb and not (xd and xd['records']):
        # an ambient source but no differing pair yet: focus the pairs on the optimizers that can reach the flagged module
        pass
    ok, log = ctx.build_props()
    ctx.level = 'proof'
    ctx.cov['rule'] = ('non-interference of the IR semantics w.r.t. an ambient parameter + T2 whitelist of entropy/ambient sources over all '
                       'run-reachable code; run monitor: same-seed pairs after different preceding workloads compared bit for bit, different seeds differ')
    _ir.monitor(ctx)
    _ir.translation_failures(ctx, errors)
    if meta:
        o = sorted(meta)[0]
        ctx.sample({'draw_sites_of_' + o: ['%s:%s %s' % d for d in meta[o]['draws'][:4]]})


def replay(ctx, path):
    import json
    doc = json.load(open(path))
    rp = doc.get('replay', {}) if isinstance(doc.get('replay'), dict) else {}
    if rp.get('kind') == 'c05_xproc':
        rc, xd, xout = ctx.run_harness_json('c05_xproc.py', payload={'focus': rp.get('optimizer')}, timeout=900)
        print(json.dumps(xd, indent=1)[:3000] if xd else xout[-1500:])
        if xd and xd['records']:
            print('VIOLATION property=C05 replay=%s' % path)
            return 1
        return 0
    return _ir.replay(ctx, path)
