"""Shared driver code of the IR-based properties (C01, C02, C03, C04, C05, C07, C12, C15, C20).

regenerate(ctx)      T2: /repo's run/_update/_evaluate -> coq/theories/Gen/Programs.v (fail-closed)
verdicts(ctx, ...)   evaluates a decidable check on every regenerated program inside Coq (vm_compute)
monitor(ctx)         the run monitor S-run on the real implementation (harness/srun.py through props/_srun.py)
"""
import os
import re
from vlib import core
from translate import t2_ir

OPTS = [c for c, _ in t2_ir.OPTIMIZERS]


def regenerate(ctx):
    """-> (meta, errors).  A translation error is a broken obligation for every IR property."""
    text, meta, errors = t2_ir.translate_all(core.REPO)
    core.write_if_changed(os.path.join(core.GEN, 'Programs.v'), text)
    for er in errors:
        ctx.oblige('T2 translation of %s' % er['item'], False, '%s:%s: %s' % (er['file'], er['line'], er['msg']))
    ctx.oblige('T2 translated %d of %d optimizers into the effect IR' % (len(meta), len(OPTS)), len(meta) > 0)
    ctx.trust('translator T2 (translate/t2_ir.py): run/_update/_evaluate of every optimizer -> effect IR, fail-closed; '
              'its classification of right-hand sides as fresh / deep copy / alias is validated by the run monitor')
    for cls in list(meta)[:1]:
        ctx.sample({'regenerated_program': cls, 'first_locs': meta[cls]['locs'][:3]})
    return meta, errors


def verdicts(ctx, imports, fn, name='verdicts', extra=''):
    """Evaluate `fn : stmt -> bool` on all_progs inside Coq.  -> {optimizer: bool} or None."""
    v = ['From Coq Require Import String List ZArith Bool.',
         'From OV Require Import Model.IR Model.IRSem Gen.Programs %s.' % ' '.join(imports),
         'Import ListNotations.', extra,
         'Goal True. let r := eval vm_compute in (map (fun p => (fst p, %s (snd p))) all_progs) in idtac "@@V" r "@@E". exact I. Qed.' % fn]
    ok, out = ctx.coq_eval('\n'.join(v) + '\n', name)
    if not ok:
        ctx.oblige('evaluation of %s on the regenerated programs' % fn, False, out[-3000:])
        return None
    m = re.search(r'@@V(.*?)@@E', out, re.S)
    if not m:
        ctx.oblige('evaluation of %s on the regenerated programs' % fn, False, out[-3000:])
        return None
    return {a: b == 'true' for a, b in re.findall(r'\(\s*"(\w+)"(?:%string)?\s*,\s*(true|false)\s*\)', m.group(1))}


def alarms(ctx, imports, expr, name='alarms'):
    """Evaluate `expr : stmt -> list (nat * string)` on all_progs.  -> {optimizer: [(loc, reason)]}"""
    v = ['From Coq Require Import String List ZArith Bool.',
         'From OV Require Import Model.IR Model.IRSem Gen.Programs %s.' % ' '.join(imports),
         'Import ListNotations.']
    for o in OPTS:
        v.append('Goal True. let r := eval vm_compute in (%s prog_%s) in idtac "@@A %s" r "@@E". exact I. Qed.' % (expr, o, o))
    ok, out = ctx.coq_eval('\n'.join(v) + '\n', name)
    res = {}
    if not ok:
        return res
    for m in re.finditer(r'@@A (\w+)(.*?)@@E', out, re.S):
        res[m.group(1)] = [(int(a), ' '.join(b.split())) for a, b in re.findall(r'\(\s*(\d+)\s*,\s*"([^"]*)"\s*\)', m.group(2))]
    return res


def loc_text(meta, opt, loc):
    try:
        return meta[opt]['locs'][loc]
    except Exception:  # noqa: BLE001
        return '%s:loc%d' % (opt, loc)


def monitor(ctx, focus=None):
    """Run (or reuse) the run monitor S-run on the real implementation and report its records for this property.
    -> (number of new violations, number of known findings re-confirmed)"""
    try:
        from props import _srun
    except Exception as ex:  # noqa: BLE001
        ctx.oblige('run monitor S-run available', False, repr(ex))
        return 0, 0
    data = _srun.monitor(ctx, ctx.pid, focus=focus)
    _srun.fill_coverage(ctx, ctx.pid, data)
    nv, nk = _srun.report_all(ctx, ctx.pid, data['records'])
    if focus is None:
        stale = _srun.stale_known(ctx, ctx.pid, data['records'])
        if stale:
            import sys
            sys.stderr.write('[%s] known findings not re-confirmed by this run (stale?): %s\n' % (ctx.pid, stale))
            ctx.cov['stale_known_findings'] = stale
    return nv, nk


def replay(ctx, path):
    from props import _srun
    return _srun.replay(ctx, path)


def norm_loc(text):
    """'opytimizer/optimizers/wca.py:247: self._raining_process(...)' -> 'opytimizer/optimizers/wca.py: self._raining_process(...)'"""
    return re.sub(r'^([^:]+):\d+:', r'\1:', text)


def check_programs(ctx, meta, imports, fn, alarm_expr, what, theorem, only=None):
    """Obligation per optimizer `fn prog_X = true`.  For a failing program the run monitor is focused on that optimizer
    to find a concrete failing input on the real implementation; if it finds none, every alarm of the analysis is
    reported on its own, keyed by the source text of the alarmed statement (so that a recorded known finding
    covers exactly that statement and nothing else).  -> list of failing optimizers"""
    vd = verdicts(ctx, imports, fn, name='verdicts_' + re.sub(r'\W', '_', fn)[:40])
    failed = []
    if vd is None:
        return failed
    for o in OPTS:
        if o not in meta or (only is not None and o not in only):
            continue
        ok = vd.get(o, False)
        if ok:
            ctx.oblige('%s prog_%s = true (vm_compute on the program regenerated from opytimizer/optimizers/%s.py)' % (fn, o, o.lower()), True)
        else:
            failed.append(o)
    if not failed:
        return failed
    al = alarms(ctx, imports, alarm_expr, name='alarms_' + re.sub(r'\W', '_', fn)[:40]) if alarm_expr else {}
    for o in failed:
        name = '%s prog_%s = true (vm_compute on the program regenerated from opytimizer/optimizers/%s.py)' % (fn, o, o.lower())
        where = [(norm_loc(loc_text(meta, o, l)), why) for l, why in al.get(o, [])] or [('%s: (no alarm location)' % o, 'check failed')]
        ctx.cov.setdefault('alarms', {})[o] = ['%s -- %s' % w for w in where]
        before = len(ctx.violations)
        data = monitor_data(ctx, focus=o)
        new_concrete = [v for v in ctx.violations[before:] if v['found_input']]
        statuses = []
        if not new_concrete:
            for text, why in where:
                statuses.append(ctx.report('ir-alarm:%s:%s:%s' % (fn, o, text), '%s: %s (%s); obligation %s prog_%s = true of theorem %s no longer checks'
                                           % (what, why, text, fn, o, theorem),
                                           {'theorem': theorem, 'obligation': '%s prog_%s = true' % (fn, o), 'alarm_at': text, 'reason': why,
                                            'searched': 'run monitor focused on %s: %s configurations, no concrete failing input' %
                                                        (o, (data.get('coverage') or {}).get('configurations'))},
                                           found_input=False))
        if statuses and all(st == 'known' for st in statuses):
            # the program is KNOWN to violate the property at exactly these statements: the obligation that holds (and is checked) is
            # that its alarm set is the recorded one -- each recorded finding is re-confirmed by the run monitor / a refutation theorem
            ctx.oblige('%s prog_%s: the alarm set equals the recorded known finding(s) [%s]' % (fn, o, '; '.join(t for t, _ in where)), True)
        else:
            ctx.oblige(name, False, 'the analysis raises an alarm on the regenerated program: %s' % where)
            ctx.explain('%s prog_%s' % (fn, o))
    return failed


def monitor_data(ctx, focus=None):
    from props import _srun
    data = _srun.monitor(ctx, ctx.pid, focus=focus)
    _srun.report_all(ctx, ctx.pid, data['records'])
    return data


def agent_data_model(ctx, attrs=('fit', 'position')):
    """Model assumption of the IR semantics: assigning to Agent.fit / Agent.position stores the assigned value unchanged (SetFit,
    CopyFit, CopyPos, Havoc ... are plain stores).  Checked on the source by translator T1 (the one C14 uses): the setter of each of
    these attributes must have the recognised shape `validate*; self._x = x` and, as on the pinned tree, no clause at all.  When it has
    not, the run monitor is focused on objectives with infinite values (what a `sanitising` setter would rewrite)."""
    from translate import t1_guards
    name = 'T1: the setters of Agent.%s store the assigned value unchanged (the plain stores of the IR semantics)' % ' / Agent.'.join(attrs)
    try:
        text, info, errors = t1_guards.generate(core.REPO)
        bad = [e for e in errors if any(('Agent.%s' % a) in str(e.get('item')) for a in attrs)]
        guards = {g['attr']: g for c in info['classes'] if c['name'] == 'Agent' for g in c['guards']}
        for a in attrs:
            g = guards.get(a)
            if g is None or g.get('clauses') is None:
                bad.append({'item': 'Agent.%s' % a, 'msg': 'setter not found / not of the recognised shape'})
            elif g['clauses'] or g.get('pre'):
                bad.append({'item': 'Agent.%s' % a, 'msg': 'setter validates (%d clauses): the IR treats it as a plain store' % len(g['clauses'])})
        ok, detail = not bad, '; '.join('%s: %s' % (e.get('item'), e.get('msg')) for e in bad[:4])
    except Exception as ex:  # noqa: BLE001
        ok, detail = False, repr(ex)
    ctx.oblige(name, ok, detail)
    if not ok:
        before = len(ctx.violations)
        monitor_data(ctx, focus='opytimizer/core/agent.py:fit')
        if any(v['found_input'] for v in ctx.violations[before:]):
            ctx.explain('T1: the setters of Agent')
    return ok


def translation_failures(ctx, errors):
    """A program T2 could not translate: focus the run monitor on it; whatever it finds is the replay, otherwise the
    broken translation obligation itself is reported by ctx.finish (no-failing-input-found)."""
    for e in errors:
        monitor_data(ctx, focus=e['item'])


def trace_inclusion(ctx, meta):
    """Validation of T2: observable-effect traces of real runs must be accepted by the regenerated programs
    (Analysis/Accept.v, evaluated inside Coq).  A rejected trace = T2 or the semantics misdescribes the code."""
    import hashlib
    import json
    cdir = os.path.join(core.WORK, 't2trace_cache')
    os.makedirs(cdir, exist_ok=True)
    hh = hashlib.sha256(open(os.path.join(core.VERIF, 'harness', 't2trace.py'), 'rb').read()).hexdigest()[:8]
    cpath = os.path.join(cdir, '%s-%s-%s-%s.json' % (ctx.repo_hash, ctx.tier, ctx.seed, hh))
    data = None
    with core.Lock('t2trace'):
        if os.path.exists(cpath):
            try:
                data = json.load(open(cpath))
            except ValueError:
                data = None
        if data is None:
            rc, data, out = ctx.run_harness_json('t2trace.py', timeout=600)
            if data is None:
                ctx.oblige('T2 validation: trace harness ran', False, out[-2000:])
                return
            with open(cpath + '.tmp', 'w') as f:
                json.dump(data, f)
            os.replace(cpath + '.tmp', cpath)
            for old in sorted((os.path.join(cdir, f) for f in os.listdir(cdir)), key=os.path.getmtime)[:-20]:
                os.remove(old)
    cases = [c for c in data['cases'] if c.get('trace') and c['optimizer'] in meta and not c.get('error')]
    errs = [c for c in data['cases'] if c.get('error')]
    v = ['From Coq Require Import String List Bool Arith.', 'From OV Require Import Model.IR Analysis.Accept Gen.Programs.',
         'Import ListNotations.', 'Definition cases : list bool := [']
    rows = []
    for c in cases:
        tr = '; '.join('O' + ch for ch in c['trace'])
        rows.append('  accepts %d %d %s prog_%s [%s]' % (c['n_agents'], c['n_iterations'], 'false' if c['optimizer'] == 'GP' else 'true',
                                                         c['optimizer'], tr if c['optimizer'] != 'GP' else '; '.join('O' + ch for ch in c['trace'] if ch != 'R')))
    v.append(';\n'.join(rows))
    v.append('].')
    v.append('Fixpoint bad (n : nat) (l : list bool) : list nat := match l with [] => [] | b :: t => if b then bad (S n) t else n :: bad (S n) t end.')
    v.append('Goal True. let r := eval vm_compute in (bad 0 cases) in idtac "@@BAD" r "@@E". exact I. Qed.')
    ok, out = ctx.coq_eval('\n'.join(v) + '\n', 't2trace', timeout=900)
    if not ok:
        ctx.oblige('T2 validation: traces evaluate in Coq', False, out[-2000:])
        return
    m = re.search(r'@@BAD(.*?)@@E', out, re.S)
    bad = [int(x) for x in re.findall(r'\d+', m.group(1))] if m else [-1]
    ctx.oblige('T2 validation: %d observable-effect traces of real runs (17 optimizers) are accepted by the regenerated programs' % len(cases),
               not bad and not errs, 'rejected: %s; run errors: %s' % ([(cases[b]['optimizer'], cases[b]['n_agents'], cases[b]['n_iterations'], cases[b]['trace'][:120]) for b in bad[:4] if b >= 0],
                                                                 [(c['optimizer'], c['error']) for c in errs[:3]]))
    ctx.cov['t2_traces'] = {'accepted': len(cases) - len(bad), 'rejected': len(bad), 'events': sum(len(c['trace']) for c in cases)}
    if cases:
        ctx.sample({'t2_trace': {k: cases[0][k] for k in ('optimizer', 'n_agents', 'n_iterations', 'trace')}})


def nonvacuity(ctx, meta, only=None):
    """The theorems are conditional on `run p o x0 = Some ...`: check that every regenerated program has a successful
    execution (Analysis/Witness.v: oracle synthesised by a default policy, then `run` evaluated on it by vm_compute), so that an
    ill-scoped translation cannot make them hold vacuously."""
    vd = verdicts(ctx, ['Analysis.Witness'], 'nonvacuous', name='nonvacuous')
    if vd is None:
        return
    for o in OPTS:
        if o in meta and (only is None or o in only):
            ctx.oblige('non-vacuity: prog_%s runs to completion on a synthesised oracle (3 agents x 2 iterations and 1 agent x 1 iteration)' % o,
                       vd.get(o, False), 'the IR semantics gets stuck on the regenerated program: ill-scoped reference or register (translator defect?)')


# ------------------------------------------------------------------ T2 state replay (differential, evaluated inside Coq)

REPLAY_PRELUDE = r'''From Coq Require Import String ZArith List Bool Arith.
From OV Require Import Base.FloatKey Model.Clip Model.IR Model.IRSem Gen.Programs.
Import ListNotations.
Close Scope Z_scope.
Open Scope nat_scope.
(* population [(position, fitness)], best agent, local positions (swarm family), tree values and best tree value (GP) *)
Definition snapT := (list (contents * Z) * (contents * Z) * option (list contents) * option (list contents * contents))%type.
Definition ftab_f (t : list (contents * Z)) (c : contents) : Z :=
  match find (fun p => contents_eqb (fst p) c) t with Some p => snd p | None => 0%Z end.
Definition mk_agent (i : nat) (p : contents * Z) : agent := {| apos := fst p; aid := i; afit := snd p |}.
Fixpoint mk_pop (i : nat) (l : list (contents * Z)) : list agent :=
  match l with [] => [] | p :: t => mk_agent i p :: mk_pop (S i) t end.
Definition mk_x0 (p : list (contents * Z)) (b : contents * Z) (zero : contents) (trees : list contents) (btree : contents) : st :=
  let n := length p in
  {| pop := mk_pop 0 p; best := mk_agent n b; tr := mk_agent (S n) (zero, KMAX); sh := []; loc := repeat zero n; tmp := 0%Z;
     idx := []; next := S (S n); hyp := []; tv := trees; btv := btree |}.
Fixpoint first_diff {A B} (eq : A -> B -> bool) (i : nat) (l1 : list A) (l2 : list B) : option nat :=
  match l1, l2 with
  | [], [] => None
  | a :: t1, b :: t2 => if eq a b then first_diff eq (S i) t1 t2 else Some i
  | _, _ => Some i
  end.
(* difference inside the common prefix only (used when the model stopped early) *)
Fixpoint prefix_diff {A B} (eq : A -> B -> bool) (i : nat) (l1 : list A) (l2 : list B) : option nat :=
  match l1, l2 with
  | a :: t1, b :: t2 => if eq a b then prefix_diff eq (S i) t1 t2 else Some i
  | _ :: _, [] => Some i
  | [], _ => None
  end.
Definition cmp_snap (y : st) (s : snapT) : nat * nat :=
  let '(p, b, l, t) := s in
  match first_diff (fun a q => contents_eqb (apos a) (fst q)) 0 (pop y) p with Some j => (6, j) | None =>
  match first_diff (fun a q => Z.eqb (afit a) (snd q)) 0 (pop y) p with Some j => (7, j) | None =>
  if negb (contents_eqb (apos (best y)) (fst b)) then (8, 0) else
  if negb (Z.eqb (afit (best y)) (snd b)) then (9, 0) else
  match (match l with Some lc => first_diff contents_eqb 0 (loc y) lc | None => None end) with Some j => (10, j) | None =>
  match t with
  | Some (ts, bt) => match first_diff contents_eqb 0 (tv y) ts with Some j => (11, j) | None =>
                     if contents_eqb (btv y) bt then (0, 0) else (12, 0) end
  | None => (0, 0) end end end end.
Definition dumps_of (evs : list event) : list st := flat_map (fun e => match e with EvDump y => [y] | _ => [] end) evs.
Fixpoint cmp_dumps (i : nat) (ys : list st) (ss : list snapT) : nat * nat * nat :=
  match ys, ss with
  | [], [] => (0, 0, 0)
  | y :: ys', s :: ss' => match cmp_snap y s with (0, _) => cmp_dumps (S i) ys' ss' | (c, j) => (c, i, j) end
  | _, _ => (5, i + length ys, i + length ss)
  end.
Fixpoint first_none (r : nat -> res) (t n : nat) : nat :=
  match n with 0 => t | S k => match r t with None => t | Some _ => first_none r (S t) k end end.
(* verdict (code, i, j): 0 agreement; 1 the semantics is stuck in iteration i after consuming j answers; 2 i answers left over;
   3 / 4 objective argument / value number i differs; 5 number of records (model i, recorded j); 6..12 record i (i = number of
   records: the final state), component: 6 position of agent j, 7 fitness of agent j, 8 best position, 9 best fitness, 10 local
   position j, 11 value of tree j, 12 best tree value; 13 / 14 as 3 / 4 but found in the iterations before the semantics got stuck *)
Definition check (p : stmt) (T : nat) (lbs ubs : list Z) (x0 : st) (o : list answer) (ft : list (contents * Z))
    (args : list contents) (vals : list Z) (dumps : list snapT) (final : snapT) : nat * nat * nat :=
  let r := fun t => run lbs ubs (ftab_f ft) (fun x => x) t okc_std p o x0 in
  match r T with
  | None =>
      let t := first_none r 0 (S T) in
      match t with
      | 0 => (1, 0, 0)
      | S t' => match r t' with
                | Some (_, evs, rest) =>
                    match prefix_diff contents_eqb 0 (eval_args evs) args with Some i => (13, i, t) | None =>
                    match prefix_diff Z.eqb 0 (eval_vals evs) vals with Some i => (14, i, t) | None =>
                    (1, t, length o - length rest) end end
                | None => (1, t, 0) end
      end
  | Some (x', evs, rest) =>
      match first_diff contents_eqb 0 (eval_args evs) args with Some i => (3, i, 0) | None =>
      match first_diff Z.eqb 0 (eval_vals evs) vals with Some i => (4, i, 0) | None =>
      match cmp_dumps 0 (dumps_of evs) dumps with
      | (0, _, _) => match cmp_snap x' final with
                     | (0, _) => match rest with [] => (0, 0, 0) | _ => (2, length rest, 0) end
                     | (c, j) => (c, length dumps, j) end
      | v => v end end end
  end.
(* histories of tasks: the observed task starts from the state an earlier task left in the space.  The model of a following task is
   `run p o (with_loc x lc)`: whatever the earlier task left in the RUN-LOCAL components (trial agent, shadow population, fitness
   temporary, index registers) must be irrelevant.  [poison] fills them with garbage (wrong shapes, out-of-range registers): a program
   that read one of them before writing it would get stuck or disagree.  Verdict 15: agreement from the clean state only. *)
Definition poison (x : st) : st :=
  let n := length (pop x) in
  let g := {| apos := [[Some 77%Z; Some 78%Z; Some 79%Z]]; aid := 0; afit := (-5)%Z |} in
  with_hyp (with_idx (with_tmp (with_sh (with_tr x g) (repeat g (S n))) (-12345)%Z) (repeat (n + 7) 8)) ["leftover"%string].
Definition check_h (p : stmt) (T : nat) (lbs ubs : list Z) (x0 : st) (o : list answer) (ft : list (contents * Z))
    (args : list contents) (vals : list Z) (dumps : list snapT) (final : snapT) : nat * nat * nat :=
  match check p T lbs ubs x0 o ft args vals dumps final with
  | (0, _, _) => match check p T lbs ubs (poison x0) o ft args vals dumps final with
                 | (0, _, _) => (0, 0, 0) | (c, i, _) => (15, c, i) end
  | v => v end.
'''

REPLAY_WHAT = {1: 'the IR semantics gets stuck', 2: 'oracle answers left over', 3: 'objective argument differs', 4: 'objective value differs',
               5: 'number of records differs', 6: 'position of an agent differs', 7: 'fitness of an agent differs', 8: 'best position differs',
               9: 'best fitness differs', 10: 'local position differs', 11: 'tree value differs', 12: 'best tree value differs',
               13: 'objective argument differs (before the semantics got stuck)', 14: 'objective value differs (before the semantics got stuck)',
               15: 'agrees from a clean state but not when trial / shadows / fitness temporary / index registers hold leftovers of an earlier task '
                   '(the program reads run-local state before writing it)'}


def _coq_z(k):
    # hexadecimal literals: Coq's number notation converts them to Z much faster than decimal ones
    return '(%s0x%x)%%Z' % ('-' if k < 0 else '', abs(k))


_CONTS = {}      # interned position contents of the cases file being written: literal -> name (each is defined once per file)


def _coq_cont(c):
    lit = '[' + '; '.join('[' + '; '.join('None' if k is None else '(Some %s)' % _coq_z(k) for k in row) + ']' for row in c) + ']'
    if lit not in _CONTS:
        _CONTS[lit] = 'k%d' % len(_CONTS)
    return _CONTS[lit]


def _coq_answer(a):
    k, v = a
    if k == 'C':
        return 'ACont ' + _coq_cont(v)
    if k == 'B':
        return 'ABool ' + ('true' if v else 'false')
    if k == 'N':
        return 'ANat %d' % v
    return 'ATrees [' + '; '.join(_coq_cont(c) for c in v) + ']'


def _coq_snap(d):
    pop = '[' + '; '.join('(%s, %s)' % (_coq_cont(c), _coq_z(k)) for c, k in d['pop']) + ']'
    best = '(%s, %s)' % (_coq_cont(d['best'][0]), _coq_z(d['best'][1]))
    loc = 'None' if d.get('loc') is None else '(Some [' + '; '.join(_coq_cont(c) for c in d['loc']) + '])'
    tr = 'None' if d.get('trees') is None else '(Some ([' + '; '.join(_coq_cont(c) for c in d['trees']) + '], ' + _coq_cont(d['btree']) + '))'
    return '(%s, %s, %s, %s)' % (pop, best, loc, tr)


def _coq_case(c):
    nv, nd = c['shape'][0], (c['shape'][1] if len(c['shape']) > 1 else 1)
    zero = [[0] * nd for _ in range(nv)]
    x0 = '(mk_x0 %s %s %s %s %s)' % (
        '[' + '; '.join('(%s, %s)' % (_coq_cont(p), _coq_z(k)) for p, k in c['x0']['pop']) + ']',
        '(%s, %s)' % (_coq_cont(c['x0']['best'][0]), _coq_z(c['x0']['best'][1])), _coq_cont(zero),
        '[' + '; '.join(_coq_cont(t) for t in (c['x0'].get('trees') or [])) + ']', _coq_cont(c['x0'].get('btree') or zero))
    e = c['expected']
    return ('%s prog_%s %d [%s] [%s]\n  %s\n  [%s]\n  [%s]\n  [%s]\n  [%s]\n  [%s]\n  %s' % (
        'check_h' if c.get('prelude') else 'check', c['optimizer'], c['T'], '; '.join(_coq_z(k) for k in c['lbs']), '; '.join(_coq_z(k) for k in c['ubs']), x0,
        '; '.join(_coq_answer(a) for a in c['oracle']),
        '; '.join('(%s, %s)' % (_coq_cont(a), _coq_z(v)) for a, v in c['ftable']),
        '; '.join(_coq_cont(a) for a in e['args']), '; '.join(_coq_z(v) for v in e['vals']),
        ';\n   '.join(_coq_snap(d) for d in e['dumps']), _coq_snap(e['final'])))


def _replay_data(ctx):
    """Run (or reuse) harness/t2state.py.  Cached per repo hash / tier / seed / hash of the harness and of T2."""
    import hashlib
    import json
    cdir = os.path.join(core.WORK, 't2state_cache')
    os.makedirs(cdir, exist_ok=True)
    h = hashlib.sha256()
    for f in (('harness', 't2state.py'), ('harness', 'hlib.py'), ('translate', 't2_ir.py'), ('translate', 'common.py')):
        h.update(open(os.path.join(core.VERIF, *f), 'rb').read())
    cpath = os.path.join(cdir, '%s-%s-%s-%s.json' % (ctx.repo_hash, ctx.tier, ctx.seed, h.hexdigest()[:8]))
    with core.Lock('t2state'):
        if os.path.exists(cpath):
            try:
                return json.load(open(cpath)), ''
            except ValueError:
                pass
        rc, data, out = ctx.run_harness_json('t2state.py', timeout=1500)
        if data is None:
            return None, out
        with open(cpath + '.tmp', 'w') as f:
            json.dump(data, f)
        os.replace(cpath + '.tmp', cpath)
        for old in sorted((os.path.join(cdir, f) for f in os.listdir(cdir)), key=os.path.getmtime)[:-40]:
            os.remove(old)
    return data, ''


def _replay_verdicts_cached(vtext, store=None):
    """The verdicts of one cases file are a function of its text, of the regenerated programs and of the hand-written theories it
    imports; they are reused across the IR properties of one run (C01, C02, C03, C07, C20 evaluate the same file)."""
    import hashlib
    import json
    h = hashlib.sha256(vtext.encode())
    for f in ('Gen/Programs.v', 'Model/IR.v', 'Model/IRSem.v', 'Model/Clip.v', 'Base/FloatKey.v'):
        h.update(open(os.path.join(core.THEORIES, f), 'rb').read())
    path = os.path.join(core.WORK, 't2state_cache', 'verdicts-%s.json' % h.hexdigest()[:24])
    if store is not None:
        with open(path + '.tmp%d' % os.getpid(), 'w') as fh:
            json.dump([list(t) for t in store], fh)
        os.replace(path + '.tmp%d' % os.getpid(), path)
        return store
    try:
        return [tuple(t) for t in json.load(open(path))]
    except (OSError, ValueError):
        return None


def _describe(c, code, i, j):
    """Human-readable account of a mismatch: which component differs first, in which run."""
    e = c['expected']
    what = REPLAY_WHAT.get(code, 'code %d' % code)
    if code == 0 and c.get('gaps'):
        what = 'the replay agrees on this run, but the task starts from state the model does not carry'
    if c.get('gaps'):
        what = '[inherited state outside the model: %s] %s' % ('; '.join(c['gaps']), what)
    nd = len(e['dumps'])
    if code == 1:
        k = j
        src = c['plan'][c['osrc'][k]] if k < len(c['osrc']) else 'end of the oracle'
        what += (' in the prelude' if i == 0 else ' in iteration %d of %d; the part before it consumed %d of %d oracle answers (the next one, %s, '
                 'comes from %s)' % (i, c['T'], k, len(c['oracle']), c['oracle'][k][0] if k < len(c['oracle']) else '-', src))
    elif code == 2:
        k = len(c['oracle']) - i
        what += ': %d of %d (first unused answer from %s)' % (i, len(c['oracle']), c['plan'][c['osrc'][k]] if 0 <= k < len(c['osrc']) else '?')
    elif code in (3, 4, 13, 14):
        what += ': call number %d of %d' % (i, len(e['args']))
    elif code == 5:
        what += ': model %d, implementation %d' % (i, j)
    elif code == 15:
        what += ': poisoned verdict %s at %d' % (REPLAY_WHAT.get(i, i), j)
    elif code >= 6:
        what += ' (%s%s)' % ('final state' if i >= nd else 'record %d of %d' % (i, nd), ', index %d' % j if code in (6, 7, 10, 11) else '')
    return '%s%s N=%d T=%d %s/%s box=%s%s seed=%d: %s' % (c['optimizer'], ' after %s' % '+'.join(c['prelude']) if c.get('prelude') else '',
                                                       c['N'], c['T'], c['space'], c['objective'], c['box'],
                                                       ' hyperparams=%s' % c['hyperparams'] if c.get('hyperparams') else '', c['seed'], what)


def run_local_reads(ir):
    """Static companion of the poisoned replay: uses of the trial agent, the shadow population, the fitness temporary or an index
    register on a path on which the program has not written them (loops may run zero times, branches are intersected).  -> list of texts"""
    bad = []

    def refs(x):
        out = []
        if isinstance(x, (tuple, list)):
            if x and x[0] in ('Tr', 'Sh') and len(x) == 1:
                out.append(x[0])
            elif len(x) == 2 and x[0] == 'Slot':
                out.append('idx%d' % x[1])
            else:
                for y in x[1:]:
                    out.extend(refs(y))
        return out

    def go(s, d):
        k = s[0]
        if k == 'At':
            return go(s[2], d)
        if k == 'Seq':
            return go(s[2], go(s[1], d))
        if k == 'If':
            for u in refs(s[1]) + (['tmp'] if 'TmpLt' in repr(s[1]) else []):
                if u not in d:
                    bad.append('%s read by a test' % u)
            return go(s[2], set(d)) & go(s[3], set(d))
        if k in ('ForSlots', 'RepeatAny', 'Repeat', 'Onlooker'):
            go(s[1], set(d))
            return d
        uses = refs(s)
        if k == 'NewTrial':
            uses = refs(s[1:])
        if k == 'SetFitTmp':
            uses.append('tmp')
        for u in uses:
            if u not in d and not (k == 'NewTrial' and u == 'Tr'):
                bad.append('%s read by %s' % (u, k))
        d = set(d)
        if k == 'NewTrial':
            d.add('Tr')
        elif k == 'ShadowAll':
            d.add('Sh')
        elif k == 'EvalTmp':
            d.add('tmp')
        elif k == 'ChooseIdx':
            d.add('idx%d' % s[1])
        return d
    go(ir, set())
    return sorted(set(bad))


def state_replay(ctx, meta):
    """Validation of T2 and of Model/IRSem.v at the level of state: for recorded real runs (oracle, initial state and objective table
    extracted by AST instrumentation driven by T2's recording plan) `run prog_X oracle x0` is evaluated inside Coq and compared with
    the implementation: arguments and values of every objective call, population and best agent at every record and at return."""
    data, out = _replay_data(ctx)
    if data is None:
        ctx.oblige('T2 state replay: recording harness ran', False, out[-2000:])
        return
    cases = [c for c in data['cases'] if c['optimizer'] in meta]
    verdict = {}
    per_file = 200
    for k in range(0, len(cases), per_file):
        chunk = cases[k:k + per_file]
        _CONTS.clear()
        body = ['Definition case_%d :=\n %s.' % (k + n, _coq_case(c)) for n, c in enumerate(chunk)]
        v = [REPLAY_PRELUDE] + ['Definition %s : contents := %s.' % (name, lit) for lit, name in _CONTS.items()] + body
        v.append('Goal True. let r := eval vm_compute in [%s] in idtac "@@R" r "@@E". exact I. Qed.' % '; '.join('case_%d' % (k + n) for n in range(len(chunk))))
        vtext = '\n'.join(v) + '\n'
        trip = _replay_verdicts_cached(vtext)
        if trip is None or len(trip) != len(chunk):
            ok, cout = ctx.coq_eval(vtext, 'cases_t2state_%d' % (k // per_file), timeout=1500)
            m = re.search(r'@@R(.*?)@@E', cout, re.S) if ok else None
            trip = re.findall(r'\(\s*(\d+)\s*,\s*(\d+)\s*,\s*(\d+)\s*\)', m.group(1)) if m else []
            if not ok or len(trip) != len(chunk):
                ctx.oblige('T2 state replay: recorded runs evaluate in Coq (file %d)' % (k // per_file), False, cout[-2500:])
                continue
            _replay_verdicts_cached(vtext, trip)
        for n, t in enumerate(trip):
            verdict[k + n] = tuple(int(x) for x in t)
    kinds, per_opt, per_hist = {}, {}, {}
    for n, c in enumerate(cases):
        if n not in verdict:
            continue
        (per_hist if c.get('prelude') else per_opt).setdefault(c['optimizer'], []).append((n, c))
        for a in c['oracle']:
            kinds[a[0]] = kinds.get(a[0], 0) + 1
    names = {'C': 'havoc_contents', 'B': 'opaque_tests', 'N': 'indices_and_loop_counts', 'T': 'tree_steps'}
    cov = {'cases': {o: len(l) for o, l in per_opt.items()}, 'skipped_runs': data.get('skipped', {}), 'not_replayed': data.get('not_replayed', {}),
           'oracle_answers': {names[k]: v for k, v in kinds.items()}, 'mismatches': {},
           'history_cases': {o: len(l) for o, l in per_hist.items()}, 'history_mismatches': {},
           'history_preludes': {}, 'run_local_reads_before_writes': {o: run_local_reads(meta[o]['ir']) for o in OPTS if o in meta},
           'objective_calls_compared': sum(len(c['expected']['args']) for n, c in enumerate(cases) if n in verdict),
           'records_compared': sum(len(c['expected']['dumps']) + 1 for n, c in enumerate(cases) if n in verdict)}
    ctx.cov['state_replay'] = cov
    focused = 0
    for o in OPTS:
        if o not in per_opt:
            continue
        bad = [(n, c) for n, c in per_opt[o] if verdict[n][0] != 0]
        detail = '; '.join(_describe(c, *verdict[n]) for n, c in bad[:4])
        if bad:
            cov['mismatches'][o] = [_describe(c, *verdict[n]) for n, c in bad[:8]]
        ctx.oblige('T2 state replay: the IR semantics of prog_%s executed inside Coq on the recorded oracle reproduces the implementation '
                   '(objective arguments and values, every record, final population) on %d runs' % (o, len(per_opt[o])), not bad,
                   '%d of %d runs disagree: %s' % (len(bad), len(per_opt[o]), detail))
        if bad and focused < 4:
            # as for a rejected trace: let the run monitor search for a concrete violation of this property on that optimizer; if it
            # finds none the broken obligation stands (no-failing-input-found).  A change outside the optimizers (e.g. in a space's
            # check_limits) makes most programs disagree at once: the focused search is limited to the first four of them.
            focused += 1
            monitor_data(ctx, focus=o)
    for o in OPTS:
        if o not in per_hist:
            continue
        for n, c in per_hist[o]:
            k = '+'.join(c['prelude'])
            cov['history_preludes'][k] = cov['history_preludes'].get(k, 0) + 1
        bad = [(n, c) for n, c in per_hist[o] if verdict[n][0] != 0 or c.get('gaps')]
        if bad:
            cov['history_mismatches'][o] = [_describe(c, *verdict[n]) for n, c in bad[:8]]
        ctx.oblige('T2 state replay (histories of tasks): prog_%s started from the state earlier tasks left in the space (inherited positions, '
                   'fitnesses, best agent, trees; local arrays re-created; run-local components poisoned) reproduces the implementation on %d '
                   'second/third tasks' % (o, len(per_hist[o])), not bad,
                   '%d of %d runs disagree: %s' % (len(bad), len(per_hist[o]), '; '.join(_describe(c, *verdict[n]) for n, c in bad[:4])))
        if bad and focused < 4:
            focused += 1
            monitor_data(ctx, focus=o)
    ctx.count(evaluations=len(verdict), nontrivial=sum(1 for n in verdict if len(cases[n]['oracle']) > 0))
    ctx.trust('state replay (harness/t2state.py): the oracle is read off the running implementation by AST instrumentation placed by T2\'s '
              'recording plan; a defect of the recorder shows up as a disagreement, never as an agreement by construction of both sides '
              'from the same data (positions are read from the live objects, the model state is computed by Coq)')
    if cases and 0 in verdict:
        c = cases[0]
        ctx.sample({'t2_state_replay': {k: c[k] for k in ('optimizer', 'N', 'T', 'space', 'objective', 'seed')},
                    'oracle_answers': len(c['oracle']), 'objective_calls': len(c['expected']['args']), 'verdict': list(verdict[0])})
