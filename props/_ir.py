"""Shared driver code of the IR-based properties (C01, C02, C03, C04, C05, C07, C12, C15, C20).

regenerate(ctx)      T2: /repo's run/_update/_evaluate -> coq/theories/Gen/Programs.v (fail-closed)
verdicts(ctx, ...)   evaluates a decidable check on every regenerated program inside Coq (vm_compute)
monitor(ctx)         the run monitor S-run on the real implementation (harness/srun.py through props/_srun.py)
"""
import os
import re
from vlib import core
from translate import t2_ir

OPTS = [c for c, _ in t2_ir.OPTIMIZERS]


def regenerate(ctx):
    """-> (meta, errors).  A translation error is a broken obligation for every IR property."""
    text, meta, errors = t2_ir.translate_all(core.REPO)
    core.write_if_changed(os.path.join(core.GEN, 'Programs.v'), text)
    for er in errors:
        ctx.oblige('T2 translation of %s' % er['item'], False, '%s:%s: %s' % (er['file'], er['line'], er['msg']))
    ctx.oblige('T2 translated %d of %d optimizers into the effect IR' % (len(meta), len(OPTS)), len(meta) > 0)
    ctx.trust('translator T2 (translate/t2_ir.py): run/_update/_evaluate of every optimizer -> effect IR, fail-closed; '
              'its classification of right-hand sides as fresh / deep copy / alias is validated by the run monitor')
    for cls in list(meta)[:1]:
        ctx.sample({'regenerated_program': cls, 'first_locs': meta[cls]['locs'][:3]})
    return meta, errors


def verdicts(ctx, imports, fn, name='verdicts', extra=''):
    """Evaluate `fn : stmt -> bool` on all_progs inside Coq.  -> {optimizer: bool} or None."""
    v = ['From Coq Require Import String List ZArith Bool.',
         'From OV Require Import Model.IR Model.IRSem Gen.Programs %s.' % ' '.join(imports),
         'Import ListNotations.', extra,
         'Goal True. let r := eval vm_compute in (map (fun p => (fst p, %s (snd p))) all_progs) in idtac "@@V" r "@@E". exact I. Qed.' % fn]
    ok, out = ctx.coq_eval('\n'.join(v) + '\n', name)
    if not ok:
        ctx.oblige('evaluation of %s on the regenerated programs' % fn, False, out[-3000:])
        return None
    m = re.search(r'@@V(.*?)@@E', out, re.S)
    if not m:
        ctx.oblige('evaluation of %s on the regenerated programs' % fn, False, out[-3000:])
        return None
    return {a: b == 'true' for a, b in re.findall(r'\(\s*"(\w+)"(?:%string)?\s*,\s*(true|false)\s*\)', m.group(1))}


def alarms(ctx, imports, expr, name='alarms'):
    """Evaluate `expr : stmt -> list (nat * string)` on all_progs.  -> {optimizer: [(loc, reason)]}"""
    v = ['From Coq Require Import String List ZArith Bool.',
         'From OV Require Import Model.IR Model.IRSem Gen.Programs %s.' % ' '.join(imports),
         'Import ListNotations.']
    for o in OPTS:
        v.append('Goal True. let r := eval vm_compute in (%s prog_%s) in idtac "@@A %s" r "@@E". exact I. Qed.' % (expr, o, o))
    ok, out = ctx.coq_eval('\n'.join(v) + '\n', name)
    res = {}
    if not ok:
        return res
    for m in re.finditer(r'@@A (\w+)(.*?)@@E', out, re.S):
        res[m.group(1)] = [(int(a), ' '.join(b.split())) for a, b in re.findall(r'\(\s*(\d+)\s*,\s*"([^"]*)"\s*\)', m.group(2))]
    return res


def loc_text(meta, opt, loc):
    try:
        return meta[opt]['locs'][loc]
    except Exception:  # noqa: BLE001
        return '%s:loc%d' % (opt, loc)


def monitor(ctx, focus=None):
    """Run (or reuse) the run monitor S-run on the real implementation and report its records for this property.
    -> (number of new violations, number of known findings re-confirmed)"""
    try:
        from props import _srun
    except Exception as ex:  # noqa: BLE001
        ctx.oblige('run monitor S-run available', False, repr(ex))
        return 0, 0
    data = _srun.monitor(ctx, ctx.pid, focus=focus)
    _srun.fill_coverage(ctx, ctx.pid, data)
    nv, nk = _srun.report_all(ctx, ctx.pid, data['records'])
    if focus is None:
        stale = _srun.stale_known(ctx, ctx.pid, data['records'])
        if stale:
            import sys
            sys.stderr.write('[%s] known findings not re-confirmed by this run (stale?): %s\n' % (ctx.pid, stale))
            ctx.cov['stale_known_findings'] = stale
    return nv, nk


def replay(ctx, path):
    from props import _srun
    return _srun.replay(ctx, path)


def norm_loc(text):
    """'opytimizer/optimizers/wca.py:247: self._raining_process(...)' -> 'opytimizer/optimizers/wca.py: self._raining_process(...)'"""
    return re.sub(r'^([^:]+):\d+:', r'\1:', text)


def check_programs(ctx, meta, imports, fn, alarm_expr, what, theorem, only=None):
    """Obligation per optimizer `fn prog_X = true`.  For a failing program the run monitor is focused on that optimizer
    to find a concrete failing input on the real implementation; if it finds none, every alarm of the analysis is
    reported on its own, keyed by the source text of the alarmed statement (so that a recorded known finding
    covers exactly that statement and nothing else).  -> list of failing optimizers"""
    vd = verdicts(ctx, imports, fn, name='verdicts_' + re.sub(r'\W', '_', fn)[:40])
    failed = []
    if vd is None:
        return failed
    for o in OPTS:
        if o not in meta or (only is not None and o not in only):
            continue
        ok = vd.get(o, False)
        if ok:
            ctx.oblige('%s prog_%s = true (vm_compute on the program regenerated from opytimizer/optimizers/%s.py)' % (fn, o, o.lower()), True)
        else:
            failed.append(o)
    if not failed:
        return failed
    al = alarms(ctx, imports, alarm_expr, name='alarms_' + re.sub(r'\W', '_', fn)[:40]) if alarm_expr else {}
    for o in failed:
        name = '%s prog_%s = true (vm_compute on the program regenerated from opytimizer/optimizers/%s.py)' % (fn, o, o.lower())
        where = [(norm_loc(loc_text(meta, o, l)), why) for l, why in al.get(o, [])] or [('%s: (no alarm location)' % o, 'check failed')]
        ctx.cov.setdefault('alarms', {})[o] = ['%s -- %s' % w for w in where]
        before = len(ctx.violations)
        data = monitor_data(ctx, focus=o)
        new_concrete = [v for v in ctx.violations[before:] if v['found_input']]
        statuses = []
        if not new_concrete:
            for text, why in where:
                statuses.append(ctx.report('ir-alarm:%s:%s:%s' % (fn, o, text), '%s: %s (%s); obligation %s prog_%s = true of theorem %s no longer checks'
                                           % (what, why, text, fn, o, theorem),
                                           {'theorem': theorem, 'obligation': '%s prog_%s = true' % (fn, o), 'alarm_at': text, 'reason': why,
                                            'searched': 'run monitor focused on %s: %s configurations, no concrete failing input' %
                                                        (o, (data.get('coverage') or {}).get('configurations'))},
                                           found_input=False))
        if statuses and all(st == 'known' for st in statuses):
            # the program is KNOWN to violate the property at exactly these statements: the obligation that holds (and is checked) is
            # that its alarm set is the recorded one -- each recorded finding is re-confirmed by the run monitor / a refutation theorem
            ctx.oblige('%s prog_%s: the alarm set equals the recorded known finding(s) [%s]' % (fn, o, '; '.join(t for t, _ in where)), True)
        else:
            ctx.oblige(name, False, 'the analysis raises an alarm on the regenerated program: %s' % where)
            ctx.explain('%s prog_%s' % (fn, o))
    return failed


def monitor_data(ctx, focus=None):
    from props import _srun
    data = _srun.monitor(ctx, ctx.pid, focus=focus)
    _srun.report_all(ctx, ctx.pid, data['records'])
    return data


def translation_failures(ctx, errors):
    """A program T2 could not translate: focus the run monitor on it; whatever it finds is the replay, otherwise the
    broken translation obligation itself is reported by ctx.finish (no-failing-input-found)."""
    for e in errors:
        monitor_data(ctx, focus=e['item'])


def trace_inclusion(ctx, meta):
    """Validation of T2: observable-effect traces of real runs must be accepted by the regenerated programs
    (Analysis/Accept.v, evaluated inside Coq).  A rejected trace = T2 or the semantics misdescribes the code."""
    import hashlib
    import json
    cdir = os.path.join(core.WORK, 't2trace_cache')
    os.makedirs(cdir, exist_ok=True)
    hh = hashlib.sha256(open(os.path.join(core.VERIF, 'harness', 't2trace.py'), 'rb').read()).hexdigest()[:8]
    cpath = os.path.join(cdir, '%s-%s-%s-%s.json' % (ctx.repo_hash, ctx.tier, ctx.seed, hh))
    data = None
    with core.Lock('t2trace'):
        if os.path.exists(cpath):
            try:
                data = json.load(open(cpath))
            except ValueError:
                data = None
        if data is None:
            rc, data, out = ctx.run_harness_json('t2trace.py', timeout=600)
            if data is None:
                ctx.oblige('T2 validation: trace harness ran', False, out[-2000:])
                return
            with open(cpath + '.tmp', 'w') as f:
                json.dump(data, f)
            os.replace(cpath + '.tmp', cpath)
            for old in sorted((os.path.join(cdir, f) for f in os.listdir(cdir)), key=os.path.getmtime)[:-20]:
                os.remove(old)
    cases = [c for c in data['cases'] if c.get('trace') and c['optimizer'] in meta and not c.get('error')]
    errs = [c for c in data['cases'] if c.get('error')]
    v = ['From Coq Require Import String List Bool Arith.', 'From OV Require Import Model.IR Analysis.Accept Gen.Programs.',
         'Import ListNotations.', 'Definition cases : list bool := [']
    rows = []
    for c in cases:
        tr = '; '.join('O' + ch for ch in c['trace'])
        rows.append('  accepts %d %d %s prog_%s [%s]' % (c['n_agents'], c['n_iterations'], 'false' if c['optimizer'] == 'GP' else 'true',
                                                         c['optimizer'], tr if c['optimizer'] != 'GP' else '; '.join('O' + ch for ch in c['trace'] if ch != 'R')))
    v.append(';\n'.join(rows))
    v.append('].')
    v.append('Fixpoint bad (n : nat) (l : list bool) : list nat := match l with [] => [] | b :: t => if b then bad (S n) t else n :: bad (S n) t end.')
    v.append('Goal True. let r := eval vm_compute in (bad 0 cases) in idtac "@@BAD" r "@@E". exact I. Qed.')
    ok, out = ctx.coq_eval('\n'.join(v) + '\n', 't2trace', timeout=900)
    if not ok:
        ctx.oblige('T2 validation: traces evaluate in Coq', False, out[-2000:])
        return
    m = re.search(r'@@BAD(.*?)@@E', out, re.S)
    bad = [int(x) for x in re.findall(r'\d+', m.group(1))] if m else [-1]
    ctx.oblige('T2 validation: %d observable-effect traces of real runs (17 optimizers) are accepted by the regenerated programs' % len(cases),
               not bad and not errs, 'rejected: %s; run errors: %s' % ([(cases[b]['optimizer'], cases[b]['n_agents'], cases[b]['n_iterations'], cases[b]['trace'][:120]) for b in bad[:4] if b >= 0],
                                                                 [(c['optimizer'], c['error']) for c in errs[:3]]))
    ctx.cov['t2_traces'] = {'accepted': len(cases) - len(bad), 'rejected': len(bad), 'events': sum(len(c['trace']) for c in cases)}
    if cases:
        ctx.sample({'t2_trace': {k: cases[0][k] for k in ('optimizer', 'n_agents', 'n_iterations', 'trace')}})


def nonvacuity(ctx, meta, only=None):
    """The theorems are conditional on `run p o x0 = Some ...`: check that every regenerated program has a successful
    execution (Analysis/Witness.v: oracle synthesised by a default policy, then `run` evaluated on it by vm_compute), so that an
    ill-scoped translation cannot make them hold vacuously."""
    vd = verdicts(ctx, ['Analysis.Witness'], 'nonvacuous', name='nonvacuous')
    if vd is None:
        return
    for o in OPTS:
        if o in meta and (only is None or o in only):
            ctx.oblige('non-vacuity: prog_%s runs to completion on a synthesised oracle (3 agents x 2 iterations and 1 agent x 1 iteration)' % o,
                       vd.get(o, False), 'the IR semantics gets stuck on the regenerated program: ill-scoped reference or register (translator defect?)')
