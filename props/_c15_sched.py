"""C15, range part -- "self-adapting hyperparameters stay in range" (called by props/C15.py).

    from props import _c15_sched
    info = _c15_sched.run_sched(ctx)            # regenerates, builds, Print Assumptions, validation harness
    rc   = _c15_sched.replay_sched(ctx, doc)    # doc = json of a replay file whose replay.kind == 'c15_sched'

run_sched(ctx, build=True):
  1. regenerates coq/theories/Gen/Schedules.v from the CURRENT source with translate/t3_sched.py
     (a TranslationError of an item -> ctx.oblige('T3 translation of <item>', False, 'file:line: msg'));
  2. compares the table of (optimizer, hyperparameter) writes found in run-reachable code with the expected
     five-optimizer table (an unexpected or missing pair -> broken obligation naming file:line);
  3. build=True: builds theories/Props/C15ranges.vo through core.coq_make and runs Print Assumptions on the
     theorems of Props/C15ranges.v (allowed: core.STDLIB_REAL_AXIOMS), one ctx.oblige per theorem -- thorough tier
     (or per_theorem=True): one query per theorem (~1 s each); quick tier: one query on the tuple of all of them
     (the union of their axioms, which is what the allow-list check needs);
     build=False: the caller does it -- the returned dict has 'targets', 'module', 'theorems', 'allowed_axioms';
  4. runs harness/c15_sched.py (validation of the regenerated real-valued schedules against the
     implementation + the property oracle on the implementation) and turns its records into ctx.report(...).
It never calls ctx.finish().
"""
import json
import os
import re

from vlib import core
from translate import t3_sched

EXPECTED = [('AIWPSO', 'w'), ('FA', 'alpha'), ('IHS', 'PAR'), ('IHS', 'bw'), ('SA', 'T'), ('WCA', 'd_max')]
TARGETS = ['theories/Props/C15ranges.vo']
MODULE = 'Props.C15ranges'
ALLOWED = sorted(core.STDLIB_REAL_AXIOMS)
N_EXPECTED_CLASSES = 17

# which theorem of Props/C15ranges.v speaks about which regenerated item (for reports)
THEOREMS_OF = {('AIWPSO', 'w'): 'aiw_range / aiw_range_from_loop / aiw_run_range',
               ('IHS', 'PAR'): 'ihs_par_range / ihs_par_run_range', ('IHS', 'bw'): 'ihs_bw_range / ihs_bw_run_range',
               ('SA', 'T'): 'sa_T_mono / sa_T_run_mono', ('FA', 'alpha'): 'fa_alpha_mono / fa_alpha_run_mono',
               ('WCA', 'd_max'): 'wca_dmax_mono / wca_dmax_run_mono'}


def regenerate(ctx=None):
    text, items, errors, found = t3_sched.generate(core.REPO)
    core.write_if_changed(os.path.join(core.GEN, 'Schedules.v'), text)
    return text, items, errors, found


def print_assumptions(module, names, timeout=600):
    """{theorem: [axiom names]} -- own parser: an axiom is a non-indented line of the Print Assumptions
    output that is not a header; its type may start on the same line or on the next one."""
    lines = ['From %s Require Import %s.' % (core.LOGICAL, module)]
    for n in names:
        lines.append('Goal True. idtac "@@PA %s". exact I. Qed.' % n)
        lines.append('Print Assumptions %s.' % n)
    lines.append('Goal True. idtac "@@END". exact I. Qed.')
    ok, out = core.coq_run('\n'.join(lines) + '\n', 'pa_' + module.replace('.', '_'), timeout)
    if not ok:
        return None, out
    res, cur = {}, None
    for l in out.split('\n'):
        if l.startswith('@@PA '):
            cur = l[5:].strip()
            res[cur] = []
        elif l.startswith('@@END'):
            cur = None
        elif cur is not None and l and not l[0].isspace():
            if l.startswith('Closed under the global context') or re.match(r'^(Axioms|Section Variables|Opaque constants|'
                                                                           r'Transparent constants|Theory|Fetching opaque proofs)', l):
                continue
            m = re.match(r"^([A-Za-z_][\w\.']*)\s*(:|$)", l)
            if m:
                res[cur].append(m.group(1))
            else:
                res[cur].append('?unparsed: ' + l[:80])
    return res, out


def print_assumptions_union(module, names, timeout=600):
    """One Print Assumptions for all theorems together (a tuple of them): the union of their axioms.
    ~1 s instead of ~1 s per theorem over the reals; sound for an allow-list check."""
    lines = ['From %s Require Import %s.' % (core.LOGICAL, module),
             'Definition c15r_all_theorems := (%s).' % ', '.join('@' + n for n in names) if len(names) > 1
             else 'Definition c15r_all_theorems := @%s.' % names[0]]
    text = '\n'.join(lines) + '\n'
    res, out = None, ''
    ok, out = core.coq_run(text + 'Goal True. idtac "@@PA all". exact I. Qed.\nPrint Assumptions c15r_all_theorems.\n'
                           'Goal True. idtac "@@END". exact I. Qed.\n', 'pau_' + module.replace('.', '_'), timeout)
    if not ok:
        return None, out
    axioms, cur = [], False
    for l in out.split('\n'):
        if l.startswith('@@PA '):
            cur = True
        elif l.startswith('@@END'):
            cur = False
        elif cur and l and not l[0].isspace():
            if l.startswith('Closed under the global context') or re.match(r'^(Axioms|Section Variables|Opaque constants|'
                                                                           r'Transparent constants|Theory|Fetching opaque proofs)', l):
                continue
            m = re.match(r"^([A-Za-z_][\w\.']*)\s*(:|$)", l)
            axioms.append(m.group(1) if m else '?unparsed: ' + l[:80])
    return axioms, out


def run_sched(ctx, build=True, per_theorem=None):
    info = {'targets': list(TARGETS), 'module': MODULE, 'theorems': [], 'allowed_axioms': list(ALLOWED), 'built': False,
            'items': [], 'found': []}
    ctx.assume('IEEE-754 rounding, overflow and underflow of the schedule arithmetic are not modelled: the schedules are terms '
               'over R; the implementation is compared with their float evaluation (rel. 1e-12) on the case matrix only',
               'space.n_iterations is an integer >= 1 and the population is non-empty (guards of Space, property C14/C06)',
               'the per-agent test of AIWPSO._compute_success is an arbitrary boolean (the theorems quantify over all outcomes)',
               'hyperparameters that no reachable statement writes keep their value during a run (frame part of C15, proved on the IR)')
    ctx.trust('translator T3-schedules (translate/t3_sched.py): python ast -> shallow R terms + definedness conditions, '
              'helpers inlined, fail-closed',
              'harness/c15_sched.py: float re-evaluation of the regenerated terms and observation through the pre-evaluation hook',
              'Coq stdlib axioms of the reals: ' + ', '.join(ALLOWED))
    # 1. regenerate
    try:
        text, items, errors, found = regenerate(ctx)
    except Exception as ex:  # noqa: BLE001  (translator crash = fail closed)
        ctx.oblige('T3 translation of the hyperparameter schedules', False, 'translator crashed: %r' % (ex,))
        return info
    info['items'], info['found'] = items, found
    for er in errors:
        ctx.oblige('T3 translation of %s' % er['item'], False, '%s:%s: %s' % (er['file'], er['line'], er['msg']))
    ctx.oblige('T3 translated %d adaptive hyperparameter writes into Gen/Schedules.v' % len(items), len(items) > 0 or bool(errors),
               'no adaptive write found at all')
    for it in items[:2]:
        ctx.sample({'regenerated_from': '%s:%d' % (it['file'], it['line']), 'text': it['text'],
                    'coq': 'Definition %s_%s_next (%s : R) : R := %s.' % (it['opt'].lower(), it['hp'], ' '.join(it['vars']), it['coq']),
                    'defined': ' /\\ '.join(it['defined']) or 'True'})
    # 2. the table of adaptive writes
    pairs = sorted({(f['opt'], f['hp']) for f in found})
    extra = [p for p in pairs if p not in EXPECTED]
    missing = [p for p in EXPECTED if p not in pairs]
    det = []
    for p in extra:
        where = ['%s:%d `%s`' % (f['file'], f['line'], f['text']) for f in found if (f['opt'], f['hp']) == p]
        det.append('unexpected adaptive write %s.%s at %s' % (p[0], p[1], '; '.join(where)))
    for p in missing:
        det.append('expected adaptive write %s.%s not found in code reachable from run' % p)
    ctx.oblige('adaptive-write table = {AIWPSO.w, FA.alpha, IHS.PAR, IHS.bw, SA.T, WCA.d_max} (found %d pairs in run-reachable code)'
               % len(pairs), not det, '\n'.join(det))
    m = re.search(r'sched_classes_scanned : nat := (\d+)', text)
    nscan = int(m.group(1)) if m else 0
    ctx.oblige('T3 scanned every optimizer class (%d)' % nscan, nscan >= N_EXPECTED_CLASSES and not [e for e in errors if '.' not in e['item']],
               'scanned %d classes, expected >= %d; class-level errors: %s' % (nscan, N_EXPECTED_CLASSES,
                                                                               [e['item'] for e in errors if '.' not in e['item']]))
    # 3. theorems
    vfile = os.path.join(core.THEORIES, 'Props', 'C15ranges.v')
    names = core.theorem_names(vfile)
    info['theorems'] = names
    proofs_ok = None
    if build:
        ok, log = core.coq_make(TARGETS)
        ctx.oblige('coq-build %s' % ' '.join(TARGETS), ok, core.coq_error_excerpt(log) if not ok else '')
        proofs_ok = ok
        if ok:
            info['built'] = True
            if per_theorem is None:
                per_theorem = not ctx.quick
            if per_theorem:
                pa, out = print_assumptions(MODULE, names)
            else:
                un, out = print_assumptions_union(MODULE, names)
                pa = None if un is None else {n: un for n in names}
            if pa is None:
                ctx.oblige('print-assumptions %s' % MODULE, False, out[-2000:])
                proofs_ok = False
            else:
                for n in names:
                    ax = pa.get(n)
                    if ax is None:
                        ctx.oblige('theorem %s' % n, False, 'no Print Assumptions output')
                        proofs_ok = False
                        continue
                    bad = [a for a in ax if a not in core.STDLIB_REAL_AXIOMS]
                    if per_theorem:
                        label = 'axioms: ' + (', '.join(ax) if ax else 'closed under the global context')
                    else:
                        label = 'axioms within the union over Props/C15ranges.v: ' + (', '.join(ax) if ax else 'none')
                    ctx.oblige('theorem %s (%s)' % (n, label), not bad, 'unexpected axioms: ' + ', '.join(bad))
                    ctx.cov['theorems'].append({'name': n, 'axioms': ax})
                    if bad:
                        proofs_ok = False
        ctx.trust('coqc 8.16.1 kernel (no native_compute)')
    ctx.sample({'theorem': 'ihs_bw_range : forall bw_max bw_min n_it t, 0 <= t < n_it -> 0 < bw_min <= bw_max -> '
                           'ihs_bw_defined bw_max bw_min n_it t /\\ bw_min <= ihs_bw_next bw_max bw_min n_it t <= bw_max'})
    # 4. validation + property oracle on the implementation
    hitems = harness_items(items, found)
    if not hitems:
        return info
    rc, data, out = ctx.run_harness_json('c15_sched.py', payload={'items': hitems, 'mode': 'run'}, timeout=1500)
    if data is None:
        ctx.oblige('harness c15_sched.py ran', False, out[-3000:])
        return info
    info['harness'] = {k: v for k, v in data.items() if k != 'records'}
    ctx.oblige('harness c15_sched.py ran (%d cases, %d observations)' % (data['cases'], data['observations']), data['cases'] > 0
               and data['observations'] > 0, 'no case ran')
    oracle_recs = [r for r in data['records'] if r['found_input']]
    corr_recs = [r for r in data['records'] if not r['found_input']]
    for r in oracle_recs:
        ctx.report(r['key'], r['what'], r['replay'])
    n_corr = sum(v for k, v in data['per_key'].items() if k.startswith('corr:'))
    ctx.oblige('validation: regenerated schedules = implementation on %d single-write steps (%d zero-write steps bit-identical; '
               '%d steps where the schedule is undefined left to the oracle)' % (data['agree'], data['comparisons'] - data['agree']
                                                                                - data['undefined'] - n_corr, data['undefined']),
               n_corr == 0, '\n'.join(r['what'] for r in corr_recs[:5]))
    # a disagreement with no oracle failure: name what no longer checks (no failing input)
    if corr_recs and not [r for r in oracle_recs if not known(ctx, r['key'])]:
        for r in corr_recs[:3]:
            ctx.report(r['key'], 'regenerated schedule and implementation disagree (the property oracle passed): ' + r['what'],
                       r['replay'], found_input=False)
    if data['n_crashes']:
        # exceptions that do not come from an adaptive write are outside C15 (C03); they are listed, not judged
        ctx.cov['distribution_crashes_outside_C15'] = [c['exc'] + ' @ ' + c['case']['opt'] + '/' + c['case']['tag'] for c in data['crashes']]
    # a broken proof with a passing oracle everywhere: say which theorem, for the no-failing-input report
    if build and proofs_ok is False and not ctx.violations:
        pass        # ctx.finish() of the caller turns the broken obligations into a no-failing-input-found report
    ctx.count(data['comparisons'] + data['oracle_checks'], data['nontrivial'])
    dist = dict(ctx.cov.get('distribution') or {})
    dist.update({'sched/' + k: v for k, v in data['dist'].items()})
    dist['sched/known-finding-cases'] = sum(v for k, v in data['per_key'].items() if known(ctx, k))
    dist['sched/rejected-by-guards'] = data['rejected']
    dist['sched/premise-false(no claim)'] = data['premise_false']
    dist['sched/success-counts-seen(p,n)'] = len(data['p_seen'])
    ctx.cov['distribution'] = dist
    rule = ('C15 ranges: 5 adaptive optimizers x hyperparameter corners (defaults, degenerate ranges, extremes, guard-accepted '
            'holes, seeded random) x n_iterations in {1,2,3,7[,25,100]} x population x (AIWPSO) forced success counts '
            '{natural, all improve, none improve}; one evaluation = one comparison of an observed value with the regenerated '
            'schedule or one oracle check; non-trivial = distinct configurations (optimizer, hyperparameters, n_iterations, population, '
            'mode) in whose run an adaptive hyperparameter changed value')
    ctx.cov['rule'] = (ctx.cov.get('rule') + ' | ' if ctx.cov.get('rule') else '') + rule
    for s in data['samples'][:2]:
        ctx.sample({'sched_run': s})
    run_sweep(ctx, hitems, info)
    return info


def run_sweep(ctx, hitems, info):
    """harness/c15_sweep.py: direct float sweep of the adaptive writes on the real code (AIWPSO: every p of every n
    over a decimal grid through the real helper; IHS: term sweep + real runs), keyed by circumstance."""
    rc, data, out = ctx.run_harness_json('c15_sweep.py', payload={'items': hitems, 'mode': 'run'}, timeout=1500)
    if data is None:
        ctx.oblige('harness c15_sweep.py ran', False, out[-3000:])
        return
    st = data['stats']
    info['sweep'] = {'stats': st, 'per_key': data['per_key']}
    has_aiw = any(it['opt'] == 'AIWPSO' for it in hitems)
    ctx.oblige('harness c15_sweep.py ran (%d direct AIWPSO writes%s, %d IHS term evaluations, %d IHS runs)'
               % (st['aiw_calls'], '' if st['aiw_direct'] else ' through forced runs', st['ihs_term_evals'], st['ihs_runs']),
               (st['aiw_calls'] > 0 or not has_aiw) and st['fallback_failed'] == 0,
               'no AIWPSO write could be exercised (fallback runs failed: %d)' % st['fallback_failed'])
    oracle_recs = [r for r in data['records'] if r['found_input']]
    corr_recs = [r for r in data['records'] if not r['found_input']]
    for r in oracle_recs:
        ctx.report(r['key'], r['what'], r['replay'])
    n_corr = sum(v for k, v in data['per_key'].items() if k.startswith('corr:'))
    ctx.oblige('validation (direct sweep): regenerated term = real write on %d AIWPSO (w_min, w_max, n, p) tuples and %d IHS steps'
               % (st['aiw_corr'], st['ihs_agree']), n_corr == 0, '\n'.join(r['what'] for r in corr_recs[:5]))
    if corr_recs and not [r for r in oracle_recs if not known(ctx, r['key'])]:
        for r in corr_recs[:3]:
            ctx.report(r['key'], 'regenerated schedule and implementation disagree (the property oracle passed): ' + r['what'],
                       r['replay'], found_input=False)
    n_out = sum(st['classes'].values())
    ctx.count(st['aiw_calls'] + st['aiw_corr'] + st['ihs_term_evals'] + st['ihs_oracle_checks'], st['aiw_calls'] - st['rejected'])
    dist = dict(ctx.cov.get('distribution') or {})
    dist['sweep/aiwpso-direct-writes'] = st['aiw_calls']
    dist['sweep/ihs-term-evaluations'] = st['ihs_term_evals']
    dist['sweep/ihs-real-runs'] = st['ihs_runs']
    dist['sweep/outside-range-writes'] = n_out
    for k, v in st['classes'].items():
        dist['sweep/class/' + k] = v
    for k, v in (st.get('ihs_predicted') or {}).items():
        dist['sweep/ihs-predicted/' + k] = v
    ctx.cov['distribution'] = dist
    ctx.cov['rule'] = (ctx.cov.get('rule') or '') + (' | direct sweep: AIWPSO (w_min <= w_max over a 1-3 decimal grid incl. w_min == w_max, '
                                                     'seeded random pairs) x n_agents 1..12 x every p in 0..n through the real helper holding '
                                                     'the write; IHS PAR/bw regenerated terms over a decimal grid x n_iterations 1..64 x every t, '
                                                     'predicted excursions and a grid sample re-run on the real IHS; non-trivial = every distinct '
                                                     '(w_min, w_max, n, p) tuple')
    ctx.sample({'sweep_classes_outside_range': st['classes'] or 'none'})


def harness_items(items, found):
    """Translated items + a stub for every found write the translator rejected, so that the property oracle
    still observes that hyperparameter on the implementation."""
    out = list(items)
    have = {(it['opt'], it['hp']) for it in items}
    for f in found:
        if (f['opt'], f['hp']) not in have:
            have.add((f['opt'], f['hp']))
            out.append({'opt': f['opt'], 'cls_file': f.get('cls_file', f['file']), 'hp': f['hp'], 'file': f['file'],
                        'line': f['line'], 'end_line': f['line'],
                        'text': f['text'], 'tree': None, 'vars': [], 'conds': [], 'phase': None})
    return out


def known(ctx, key):
    return any(k.get('property') == ctx.pid and k.get('key') == key and k.get('status', 'known') == 'known' for k in ctx.known)


def replay_sched(ctx, doc):
    """Re-run one recorded case against the current /repo.  `doc` = path of the replay file or its json.
    Returns 1 (and prints the VIOLATION line) if it still fails, 0 if not, 2 if it cannot be replayed."""
    path = ''
    if isinstance(doc, str):
        path = doc
        doc = json.load(open(path))
    rp = doc.get('replay', {})
    if rp.get('kind') != 'c15_sched' or 'case' not in rp:
        print('no concrete input recorded (broken obligation): ' + json.dumps(rp)[:1500])
        return 0
    try:
        text, items, errors, found = t3_sched.generate(core.REPO)
    except Exception as ex:  # noqa: BLE001
        print('translator crashed: %r' % (ex,))
        return 2
    hitems = harness_items(items, found)
    ropt = 'AIWPSO' if rp.get('sub') == 'aiw' else rp['case'].get('opt')
    if not [it for it in hitems if it['opt'] == ropt]:
        print('%s has no adaptive write any more: nothing to observe' % ropt)
        return 0
    script = 'c15_sweep.py' if rp.get('sub') == 'aiw' else 'c15_sched.py'
    rc, data, out = ctx.run_harness_json(script, payload={'items': hitems, 'mode': 'replay', 'case': rp['case'],
                                                          'key': rp.get('key')}, timeout=300)
    if not path and doc.get('key') is not None:      # the caller passed the json: the file name ctx.report gave it
        import hashlib
        h = hashlib.sha256((doc['key'] + json.dumps(rp, sort_keys=True, default=str)).encode()).hexdigest()[:10]
        path = os.path.join(core.REPLAYS, '%s-%s.json' % (ctx.pid, h))
    if data is None:
        print(out[-2000:])
        return 2
    print(json.dumps(data, indent=1)[:4000])
    if data.get('fails'):
        print('VIOLATION property=%s replay=%s' % (ctx.pid, path))
        return 1
    return 0
