"""C02 -- the reported best is the best point actually evaluated, with its true fitness.

Theorem: Props/C02.v (Analysis/BestMin.v + BestMinSound.v through the verified abstract interpreter) on the programs T2
regenerates from /repo: at every record and at return best.fit is a lower bound of every objective value so far, (best.pos,
best.fit) is one of the evaluations once some evaluation is below the FLOAT_MAX sentinel, best fitness never increases.
Per-optimizer obligation c02_check prog_X = true (vm_compute); failures go to the run monitor."""
from props import _ir

IMPORTS = ['Analysis.AbsInt', 'Analysis.BestMin']


def run(ctx):
    ctx.assume('the objective is a deterministic function returning non-NaN numbers; the hook is an observer',
               'arithmetic results are NaN-free and shape-preserving (okc_std)',
               'sentinel corner (finding n): while no evaluation is below sys.float_info.max the best agent is never updated -- explicit disjunct of the theorem',
               '"private copy" in the identity sense is C07')
    meta, errors = _ir.regenerate(ctx)
    _ir.agent_data_model(ctx)
    ok, log = ctx.build_props()
    if ok:
        _ir.nonvacuity(ctx, meta)
        failed = _ir.check_programs(ctx, meta, IMPORTS, 'c02_check', None,
                                    'the best agent may miss an evaluated minimum', 'C02_best_is_min')
        # histories of tasks on one space (C02_task_histories): the task must also re-establish the start condition
        # (population feasible, no agent below the best agent); c02r_check implies c02_check (C02_restart_check_implies_check)
        _ir.check_programs(ctx, meta, IMPORTS, 'c02r_check', None,
                           'in a history of tasks on one space the best agent may miss an evaluated minimum (the task does not end in a state '
                           'a following task may start from)', 'C02_task_histories', only=[o for o in _ir.OPTS if o not in failed])
        _ir.trace_inclusion(ctx, meta)
        _ir.state_replay(ctx, meta)
    # the property is also observed at History.best_agent[t]: the IR theorem is about the state handed to history.dump; that dump/_parse store it
    # BY VALUE at that moment (so that a record cannot change afterwards) is the T4-history descriptor shared with C04/C12/C19
    try:
        from props import C19
        errs19 = C19.regenerate()[2]
        for e in errs19 or []:
            ctx.oblige('T4-history translation of %s' % e.get('item'), False, '%s:%s: %s' % (e.get('file'), e.get('line'), e.get('msg')))
        ctx.oblige('T4-history: History.dump/_parse have the recognised by-value shape (Gen/HistoryDescr.v regenerated), so a recorded best agent is the state at dump time',
                   not errs19)
        if errs19:
            before = len(ctx.violations)
            _ir.monitor_data(ctx, focus='BHA')
            if any(v['found_input'] for v in ctx.violations[before:]):
                ctx.explain('T4-history')
    except Exception as ex:  # noqa: BLE001
        ctx.oblige('T4-history: History.dump/_parse have the recognised by-value shape (Gen/HistoryDescr.v regenerated), so a recorded best agent is the state at dump time',
                   False, repr(ex))
    ctx.cov['rule'] = ('theorem for all boxes/objectives/oracles/iteration counts per regenerated program; run monitor: best fitness versus the minimum of the '
                       'logged objective values at every record and at return, objectives with ties/plateaus/boundary optima')
    _ir.monitor(ctx)
    _ir.translation_failures(ctx, errors)
    ctx.sample({'theorem': 'C02_task_histories: Forall (fun p => c02r_check p = true) ps -> c02_start x0 -> tasks02 ps x0 segs x\' -> every task: at every record '
                           'and at return best.fit <= every value returned so far in the task and <= the inherited best fitness, and the best agent is an evaluated pair '
                           'of the task or still the inherited one; over the whole history the best fitness never increases; c02_start x\''})
    ctx.sample({'theorem': 'C02_best_is_min: c02_check p = true -> run p = Some (x\', evs, o\') -> at every EvDump y (history h1 before it) and at return: '
                           'forall EvEval _ v in h1, best.fit <= v; (best.pos, best.fit) in h1 or best.fit = KMAX; every EvEval c v has v = f c'})


def replay(ctx, path):
    return _ir.replay(ctx, path)
