"""C02 -- the reported best is the best point actually evaluated, with its true fitness.

Theorem: Props/C02.v (Analysis/BestMin.v + BestMinSound.v through the verified abstract interpreter) on the programs T2
regenerates from /repo: at every record and at return best.fit is a lower bound of every objective value so far, (best.pos,
best.fit) is one of the evaluations once some evaluation is below the FLOAT_MAX sentinel, best fitness never increases.
Per-optimizer obligation c02_check prog_X = true (vm_compute); failures go to the run monitor."""
from props import _ir

IMPORTS = ['Analysis.AbsInt', 'Analysis.BestMin']


def run(ctx):
    ctx.assume('the objective is a deterministic function returning non-NaN numbers; the hook is an observer',
               'arithmetic results are NaN-free and shape-preserving (okc_std)',
               'sentinel corner (finding n): while no evaluation is below sys.float_info.max the best agent is never updated -- explicit disjunct of the theorem',
               '"private copy" in the identity sense is C07')
    meta, errors = _ir.regenerate(ctx)
    ok, log = ctx.build_props()
    if ok:
        _ir.nonvacuity(ctx, meta)
        _ir.check_programs(ctx, meta, IMPORTS, 'c02_check', None,
                           'the best agent may miss an evaluated minimum', 'C02_best_is_min')
        _ir.trace_inclusion(ctx, meta)
        _ir.state_replay(ctx, meta)
    ctx.cov['rule'] = ('theorem for all boxes/objectives/oracles/iteration counts per regenerated program; run monitor: best fitness versus the minimum of the '
                       'logged objective values at every record and at return, objectives with ties/plateaus/boundary optima')
    _ir.monitor(ctx)
    _ir.translation_failures(ctx, errors)
    ctx.sample({'theorem': 'C02_best_is_min: c02_check p = true -> run p = Some (x\', evs, o\') -> at every EvDump y (history h1 before it) and at return: '
                           'forall EvEval _ v in h1, best.fit <= v; (best.pos, best.fit) in h1 or best.fit = KMAX; every EvEval c v has v = f c'})


def replay(ctx, path):
    return _ir.replay(ctx, path)
