"""Driver-side helper of the run monitor S-run (harness/srun.py), shared by C01 C02 C03 C04 C05 C07 C12 C15 C20.

    data = _srun.monitor(ctx, 'C01')                 # runs the matrix once per (repo hash, tier, seed, focus), cached
    _srun.report_all(ctx, 'C01', data['records'])    # VIOLATION / KNOWN-FINDING per record
    _srun.fill_coverage(ctx, 'C01', data)            # measured counts into the evidence
    _srun.replay(ctx, path)                          # ./check Cxx --replay

python3 standard library only."""
import hashlib
import json
import os
import re
import time

from vlib import core

CACHE = os.path.join(core.WORK, 'srun_cache')
PROPS = ('C01', 'C02', 'C03', 'C04', 'C05', 'C07', 'C12', 'C15', 'C20')
FILES = ('harness/srun.py', 'harness/srun_core.py', 'harness/srun_matrix.py', 'harness/hlib.py', 'working_ranges.json')


def _harness_hash():
    h = hashlib.sha256()
    for f in FILES:
        h.update(open(os.path.join(core.VERIF, f), 'rb').read())
    return h.hexdigest()[:10]


def witnesses():
    """Recorded witness configurations of the known findings of the run-level properties (re-run every time, so that
    every KNOWN-FINDING line is re-confirmed by a real run and a stale entry is noticed)."""
    out, seen = [], set()
    for k in core.load_known():
        w = k.get('witness')
        cfg = w.get('config') if isinstance(w, dict) else None
        if k.get('property') in PROPS and isinstance(cfg, dict) and 'optimizer' in cfg:
            s = json.dumps(cfg, sort_keys=True)
            if s not in seen:
                seen.add(s)
                out.append(dict(cfg, witness_of=[k.get('property'), k.get('key')]))
    return out


def monitor(ctx, pid, focus=None, timeout=1500):
    """Returns {'records': [records of property pid], 'all_records': [...], 'coverage': {...}, 'distribution': {...}, 'cached': bool}.
    `focus` (optimizer name | 'file.py:line' | property id) narrows the matrix around a broken obligation."""
    os.makedirs(CACHE, exist_ok=True)
    wit = witnesses()
    tag = hashlib.sha256(json.dumps([focus, wit], sort_keys=True).encode()).hexdigest()[:8]
    name = '%s-%s-%s-%s-%s.json' % (ctx.repo_hash, ctx.tier, ctx.seed, _harness_hash(), tag)
    path = os.path.join(CACHE, name)
    with core.Lock('srun'):
        data = None
        cached = False
        if os.path.exists(path):
            try:
                data = json.load(open(path))
                cached = True
            except ValueError:
                data = None
        if data is None:
            known = sorted([k.get('property'), k.get('key')] for k in core.load_known()
                           if k.get('property') in PROPS and k.get('status', 'known') == 'known')
            rc, data, out = ctx.run_harness_json('srun.py', {'focus': focus, 'witnesses': wit, 'known': known}, timeout=timeout)
            if data is None:
                return {'error': out[-3000:], 'records': [], 'all_records': [], 'coverage': {}, 'distribution': {}, 'cached': False}
            tmp = path + '.tmp%d' % os.getpid()
            with open(tmp, 'w') as f:
                json.dump(data, f)
            os.replace(tmp, path)
            files = sorted((os.path.join(CACHE, f) for f in os.listdir(CACHE) if f.endswith('.json')), key=os.path.getmtime)
            for old in files[:-40]:
                try:
                    os.remove(old)
                except OSError:
                    pass
    recs = [r for r in data['records'] if r['property'] == pid]
    return {'records': recs, 'all_records': data['records'], 'coverage': data['coverage'], 'distribution': data['distribution'],
            'cached': cached, 'cache_file': path, 'focus': focus}


def report_all(ctx, pid, recs):
    """ctx.report for every record of this property; returns (#violations, #known)."""
    nv = nk = 0
    known_keys = {k['key'] for k in ctx.known if k.get('property') == pid}
    got = {r['key'] for r in recs if r['property'] == pid}

    def strip_sites(k):
        # keys name the functions where a failure was observed / caused; a harmless rename or extraction moves those names
        return re.sub(r'\b[a-z_]\w*\.[A-Za-z_]\w*\b', '*', k)
    for r in recs:
        if r['property'] != pid:
            continue
        replay_doc = {k: r[k] for k in ('property', 'key', 'what', 'optimizer', 'config', 'observed', 'expected') if k in r}
        replay_doc['harness'] = 'srun_replay.py'
        key, what = r['key'], r['what']
        if key not in known_keys:
            # a recorded finding is identified by its witness INPUT as well: if the witness configuration of a known finding that did
            # not re-appear under its own key now fails in the same way at another site, it is that finding (functions were renamed / split)
            for wp, wk in r.get('from_witnesses') or []:
                if wp == pid and wk in known_keys and wk not in got and strip_sites(wk) == strip_sites(key):
                    what = '%s [recorded as %s: the same witness input fails in the same way, the site is now reported as %s]' % (what, wk, key)
                    replay_doc['key'] = wk
                    key = wk
                    got.add(wk)
                    break
        res = ctx.report(key, what, replay_doc)
        if res == 'known':
            nk += 1
        else:
            nv += 1
    return nv, nk


def fill_coverage(ctx, pid, data):
    cov = data.get('coverage') or {}
    n = (cov.get('per_property_configs') or {}).get(pid, 0)
    ctx.count(n, min(n, cov.get('nontrivial', 0)))
    ctx.cov.setdefault('distribution', {})
    ctx.cov['distribution'].update({'srun/' + k: v for k, v in (data.get('distribution') or {}).items()})
    ctx.cov['srun'] = {k: cov.get(k) for k in ('configurations', 'objective_calls', 'hook_calls', 'records', 'uniform_calls', 'normal_calls',
                                               'choice_calls', 'status', 'skipped', 'flaky_timeouts', 'shrink_runs', 'wall_s', 'budget_observed')}
    ctx.cov['srun']['cached'] = data.get('cached')
    ctx.cov['srun']['focus'] = data.get('focus')
    ctx.trust('harness/srun*.py: external monitor of real runs (objective/hook/dump/check_limits/np.random wrappers, np.seterrcall attribution)')
    if cov.get('harness_errors'):
        ctx.oblige('S-run: every configuration produced a result', False, json.dumps(cov['harness_errors'][:3])[:2000])
    if data.get('error'):
        ctx.oblige('S-run harness ran', False, data['error'])
    for r in data.get('records', [])[:2]:
        ctx.sample({'srun_record': {k: r[k] for k in ('property', 'key', 'what') if k in r}})


def stale_known(ctx, pid, recs):
    """Known findings of this property (with an S-run witness) that this run did not re-confirm."""
    got = {r['key'] for r in recs if r['property'] == pid} | {k for k, _ in ctx.known_hits}
    return [k['key'] for k in ctx.known if k.get('property') == pid and isinstance(k.get('witness'), dict)
            and k['witness'].get('config') and k['key'] not in got]


def replay(ctx, path):
    doc = json.load(open(path))
    rc, data, out = ctx.run_harness_json('srun_replay.py', payload=doc, timeout=300)
    if data is None:
        print(out[-2000:])
        return 2
    print(json.dumps(data, indent=1)[:6000])
    if data.get('fails'):
        print('VIOLATION property=%s replay=%s' % (doc.get('property', ctx.pid), path))
        return 1
    return 0
