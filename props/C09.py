"""C09 -- GP mutation, crossover and reproduction perform the subtree operations they name.

Theorems: coq/theories/Props/C09.v (mutate_spec / cross_spec on the abstraction at the slot find_node designates
in the parent, cross_conserves, parents untouched, reproduction_spec; reproduction_worst_ranked under positive
fitnesses and its refutation otherwise = known finding (o)).
Tie and correspondence: shared with C08 (props/_c0809_common.py, harness/c0809.py).
Property oracle on the implementation (field o9 of a case): parents-untouched comparison of the serialised
graph before/after, slot exchange against an independent path-based reference, node-multiset conservation,
identity of the grafted branch with what space.grow returned, reproduction pairing / deep copies / winners /
worst-ranked slots."""
from props import _c0809_common as cm


def run(ctx):
    cm.run_common(ctx, 'C09')


def replay(ctx, path):
    return cm.replay_common(ctx, 'C09', path)
