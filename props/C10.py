"""C10 -- a tree's position is the value of the expression it denotes.

Theorems: coq/theories/Props/C10.v (Model/NodeEval.v, Base/RExprC10.v) about Gen/NodeOps.v, which
translate/t3_expr.py regenerates from core/node.py `_evaluate` and utils/constants.py on every run.
Validation: harness/c10.py evaluates the property oracle on the real Node.position (every sub-tree of
551 exhaustive + sampled trees); a sample of node evaluations is then checked inside Coq with Interval:
the float result lies within 2^-40 (relative) of the regenerated model operator at the children's floats."""
import json
import os
import re
from fractions import Fraction
from vlib import core
from translate import t3_expr

ALLOWED = sorted(core.STDLIB_REAL_AXIOMS)
TAU_BITS = 40


def q(fr):
    fr = Fraction(fr)
    return '(%d)' % fr.numerator if fr.denominator == 1 else '(%d / %d)' % (fr.numerator, fr.denominator)


COQ_HEAD = r'''From Coq Require Import String.
From Coq Require Import Reals List ZArith Lra.
From Interval Require Import Tactic.
From OV Require Import Base.RExprC10 Model.NodeEval Gen.NodeOps.
Open Scope R_scope.
Ltac dom_tac := repeat split; try exact I;
  first [ interval with (i_prec 90) | apply Rgt_not_eq; interval with (i_prec 90) | apply Rlt_not_eq; interval with (i_prec 90) ].
(* case i: the branch of the regenerated chain for `name`, at the exact rationals X Y, is defined and lies in [lo, hi];
   silent when proved, @@BAD when the opposite is proved, @@UND when Interval decides neither *)
Ltac chk i name X Y lo hi :=
  let oe := eval vm_compute in (lookup name chain) in
  match oe with
  | Some ?e =>
    let v := eval cbv [val env2 cst] in (val e (env2 X Y)) in
    let dm := eval cbv [dom val env2 cst] in (dom e (env2 X Y)) in
    tryif (assert (dm /\ lo <= v <= hi) by (split; [dom_tac | interval with (i_prec 90)]))
    then idtac
    else tryif (assert (v < lo \/ hi < v) by (first [left; interval with (i_prec 90) | right; interval with (i_prec 90)]))
         then idtac "@@BAD" i else idtac "@@UND" i
  | None => idtac "@@BAD" i
  end.
Goal True.
'''


def coq_cases(cases):
    lines = [COQ_HEAD]
    for i, c in enumerate(cases):
        x = Fraction(int(c['x'][0]), int(c['x'][1]))
        y = Fraction(int(c['y'][0]), int(c['y'][1]))
        f = Fraction(int(c['f'][0]), int(c['f'][1]))
        tol = abs(f) / 2 ** TAU_BITS
        lines.append('  chk %d "%s"%%string %s %s %s %s.' % (i, c['op'], q(x), q(y), q(f - tol), q(f + tol)))
    lines.append('  idtac "@@DONE". exact I.\nQed.')
    return '\n'.join(lines) + '\n'


def run(ctx):
    ctx.assume('IEEE-754 rounding, overflow to inf and NumPy warnings are outside the real-number model: a float result is compared '
               'with the model within relative 2^-40 on well-conditioned finite samples only',
               'all terminals of a tree store arrays of one common shape (n_variables x n_dimensions), as TreeSpace builds them; '
               'NumPy broadcasting of different shapes is outside the model (result `Outside`)',
               'NumPy ufuncs np.exp/sqrt/abs/log/sin/cos and + - * / allocate a fresh result array (no `out=`; T3 rejects keywords)')
    ctx.trust('translator T3 (translate/t3_expr.py): skeleton and if/elif chain of node._evaluate, N_ARGS_FUNCTION, EPSILON -> Gen/NodeOps.v',
              'harness/c10.py (tree builder, per-node reference operators written from the property text)',
              'Coq stdlib axioms of the classical reals (sig_forall_dec, sig_not_dec, classic, functional_extensionality_dep) under every theorem that mentions R',
              'Interval (validation run only; its Uint63/Float axioms are not under any Props theorem)')
    # 1. regenerate
    text, items, errors = t3_expr.generate_nodeops(core.REPO)
    if text is None:
        text = '(* GENERATED: translation of node._evaluate failed: %s *)\n' % json.dumps(errors).replace('*)', '* )')
    core.write_if_changed(os.path.join(core.GEN, 'NodeOps.v'), text)
    for er in errors:
        ctx.oblige('T3 translation of %s' % er['item'], False, '%s:%s: %s' % (er['file'], er['line'], er['msg']))
    if not errors:
        ctx.oblige('T3 translated node._evaluate (%d chain branches), N_ARGS_FUNCTION, EPSILON' %
                   sum(1 for it in items if it['text'].startswith('node.name ==')), True)
    for it in items[3:5] + items[-1:]:
        ctx.sample({'regenerated_from': '%s:%d' % (it['file'], it['line']), 'text': it['text']})
    # 2. theorems
    ok, log = ctx.build_props(allowed_axioms=ALLOWED)
    # 3. property oracle on the implementation
    rc, data, out = ctx.run_harness_json('c10.py', timeout=1500)
    if data is None:
        ctx.oblige('harness c10.py ran', False, out[-3000:])
        return
    ctx.oblige('harness c10.py ran', True)
    for f in data['fails']:
        ctx.report(f['key'], 'Node.position: ' + f['msg'],
                   dict({'key': f['key'], 'msg': f['msg'], 'spec': f['spec'], 'shape': f['shape'], 'terms': f['terms']},
                        **{k: f[k] for k in ('edit', 'history', 'kind') if k in f}))
    ctx.oblige('property oracle: every sub-tree of %d trees x terminal sets (%d function-node evaluations) equals the documented operator '
               'on its children\'s values, has the declared shape, and the tree is unmodified' % (data['cases'], data['nodes']),
               not data['fails'], '; '.join(f['msg'] for f in data['fails'][:3]))
    ctx.cov['distribution'] = data['dist']
    ctx.cov['rule'] = ('trees: all 13 shapes of depth <= 2 x every labelling by the ten operators (%d trees, exhaustive) plus seeded random '
                       'trees of depth 3..4 (incl. unary nodes that also carry a right child); each with terminal-array sets "special" '
                       '(signs, +-0, denormals, 1e+-300, 1.7e308, +-1e-10 so that y+eps cancels, pi multiples, exp overflow/underflow) and '
                       '"mixed" (adds inf/nan/random magnitudes) over shapes (1,1),(2,3),(3,1),(1,4),(4,2); non-trivial = the tree has a function node; '
                       'evaluate->edit->evaluate scenarios (every node read, then a sub-tree at depth >= 2 replaced through the setters, or a terminal array '
                       'rewritten in place, or a terminal re-typed to FUNCTION and given children, on the tree or on a deepcopy; per-node oracle on the edited tree, the other tree keeps its value); evaluation histories (same numbers as (b,a) arrays after (a,b) arrays; '
                       'the caller overwrites the returned array in place and evaluates again); '
                       'Coq sample: 7 (quick) / 150 (thorough) node evaluations per operator, finite and well-conditioned' % data['exhaustive_trees'])
    nontriv = sum(v for k, v in data['dist'].items() if not k.endswith('-d0/special') and '-d0/' not in k)
    ctx.count(data['cases'] + data.get('edit_cases', 0), nontriv + data.get('edit_cases', 0))
    ctx.cov['edit_scenarios'] = data.get('edit_cases', 0)
    ctx.cov['exhaustive'] = False
    ctx.cov['node_evaluations'] = data['nodes']
    if not ok:
        return
    # 4. the regenerated model against float results, decided inside Coq by Interval
    cases = data['coq']
    bad, und = [], []
    chunk = 400
    for s in range(0, len(cases), chunk):
        okc, outc = ctx.coq_eval(coq_cases(cases[s:s + chunk]), 'interval%d' % (s // chunk), timeout=1500)
        if not okc or '@@DONE' not in outc:
            ctx.oblige('Interval validation file %d evaluates' % (s // chunk), False, outc[-3000:])
            return
        bad += [s + int(m) for m in re.findall(r'@@BAD (\d+)', outc)]
        und += [s + int(m) for m in re.findall(r'@@UND (\d+)', outc)]
    ctx.oblige('validation: %d node evaluations of the real code lie within 2^-%d (relative) of the regenerated model operator, '
               'proved by Interval (%d undecided)' % (len(cases) - len(und), TAU_BITS, len(und)), not bad,
               'cases proved OUTSIDE the tolerance: %s' % [cases[b] for b in bad[:3]])
    ctx.oblige('validation: Interval decides at least 90% of the sampled cases', len(und) * 10 <= len(cases),
               'undecided: %s' % [cases[u] for u in und[:3]])
    for b in bad[:3]:
        c = cases[b]
        ctx.report('model:%s' % c['op'], 'the regenerated real-number operator and the float result disagree beyond 2^-%d '
                   '(the per-node oracle passed on this input)' % TAU_BITS,
                   {'case': c, 'theorem': 'C10_%s' % c['op']}, found_input=False)
    ctx.cov['interval_cases'] = len(cases)
    ctx.cov['interval_undecided'] = len(und)
    ctx.cov['disagreements_checked'] = len(bad)
    if cases:
        c = cases[len(cases) // 2]
        ctx.sample({'interval_case': {'op': c['op'], 'x': c['xf'], 'y': c['yf'], 'float_result': c['ff']}})
    ctx.sample({'theorem': 'C10_evaluate_fold : forall tv s t, wf eps n_args t -> terms_shape tv s t -> exists a, value_of eps n_args tv t = Some a '
                           '/\\ eval_code n_args chain ev_children_first tv t = Ok (PArr a) /\\ shape a = s'})
    ctx.sample({'theorem': 'C10_DIV : forall x y, (y + eps <> 0 -> op_den "DIV" x y = Some (x / (y + eps))) /\\ (y + eps = 0 -> op_den "DIV" x y = None)'})


def regenerate():
    text, items, errors = t3_expr.generate_nodeops(core.REPO)
    if text is not None:
        core.write_if_changed(os.path.join(core.GEN, 'NodeOps.v'), text)
    return errors


def replay(ctx, path):
    doc = json.load(open(path))
    rc, data, out = ctx.run_harness_json('c10_replay.py', payload=doc, timeout=300)
    if data is None:
        print(out[-2000:])
        return 2
    print(json.dumps(data, indent=1))
    if data.get('fails'):
        print('VIOLATION property=C10 replay=%s' % path)
        return 1
    return 0
