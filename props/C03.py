"""C03 -- every task completes in exactly n_iterations iterations, on budget, hook first.

Theorems: Props/C03.v (Analysis/Counts, Sweep, Shape, Iterations over Model/IRSem.v) on the programs T2 regenerates
from /repo on every run.  Per-optimizer obligations (vm_compute): c03_check k prog_X = true for the sweep kind k of
the optimizer, and cmaxl KEval prog_X <= the budget table.  Opytimizer.start's shape by translate/t2_start.py.
Whatever the IR cannot express (exceptions of the arithmetic, ABC's onlooker `while`) is the run monitor's."""
import re
from props import _ir
from translate import t2_start, t3_onlooker
import os
from translate.common import TranslationError

IMPORTS = ['Analysis.AbsInt', 'Analysis.Sweep', 'Analysis.Counts', 'Analysis.Shape', 'Analysis.Iterations', 'Props.C03']
# budget of objective calls of a whole task as c0 + c1*N + c2*T + c3*N*T  (N agents, T iterations)
BUDGET = {'PSO': (0, 1, 0, 1), 'AIWPSO': (0, 1, 0, 1), 'RPSO': (0, 1, 0, 1), 'FA': (0, 1, 0, 1), 'GSA': (0, 1, 0, 1), 'HC': (0, 1, 0, 1),
          'SCA': (0, 1, 0, 1), 'WCA': (0, 1, 0, 1), 'GP': (0, 1, 0, 1), 'HS': (0, 1, 1, 1), 'IHS': (0, 1, 1, 1),
          'BA': (0, 1, 0, 2), 'BHA': (0, 1, 0, 2), 'FPA': (0, 1, 0, 2), 'SA': (0, 1, 0, 2), 'CS': (0, 1, 0, 3),
          'ABC': None}     # ABC: the number of onlooker passes is an oracle answer in the IR: no bound provable (budget <= 4N/iteration is the monitor's)


def budgets(ctx):
    v = ['From Coq Require Import String List ZArith Bool.',
         'From OV Require Import Model.IR Model.IRSem Analysis.Counts Analysis.Iterations Gen.Programs.', 'Import ListNotations.',
         'Goal True. let r := eval vm_compute in (map (fun p => (fst p, cmaxl KEval (snd p))) all_progs) in idtac "@@B" r "@@E". exact I. Qed.']
    ok, out = ctx.coq_eval('\n'.join(v) + '\n', 'budgets')
    if not ok:
        ctx.oblige('evaluation of cmaxl on the regenerated programs', False, out[-2000:])
        return {}
    body = re.search(r'@@B(.*?)@@E', out, re.S).group(1)
    res = {}
    for m in re.finditer(r'\(\s*"(\w+)"(?:%string)?\s*,\s*(None|Some\s*\(\s*(\d+)\s*,\s*(\d+)\s*,\s*(\d+)\s*,\s*(\d+)\s*\))\s*\)', body):
        res[m.group(1)] = None if m.group(2) == 'None' else tuple(int(m.group(i)) for i in (3, 4, 5, 6))
    return res


def run(ctx):
    ctx.assume('the hook may move agents but keeps the population size (hk_len)',
               'data-dependent `for` loops terminate (their counts are oracle answers); ABC\'s onlooker `while` loop is modelled the same way: '
               'its termination and pass count are NOT proved (finding e) -- the run monitor times tasks out',
               'runtime exceptions of the arithmetic (ZeroDivisionError, NumPy scalar conversions) are outside the IR: searched for by the run monitor')
    meta, errors = _ir.regenerate(ctx)
    try:
        d = t2_start.check(_ir.core.REPO)
        ctx.oblige('Opytimizer.start passes (space, function, store_best_only, pre_evaluation_hook) to run() unchanged', True)
        ctx.sample({'regenerated_from': '%s:%d' % (d['file'], d['line']), 'text': d['text']})
    except TranslationError as ex:
        ctx.oblige('Opytimizer.start passes (space, function, store_best_only, pre_evaluation_hook) to run() unchanged', False, str(ex))
    try:
        text, info = t3_onlooker.generate(_ir.core.REPO)
        _ir.core.write_if_changed(os.path.join(_ir.core.GEN, 'Onlooker.v'), text)
        ctx.oblige('T3 regenerated ABC._send_onlooker\'s selection probability and loop shape', True)
        ctx.sample({'regenerated_from': '%s:%d' % (info['file'], info['line']), 'text': info['text']})
    except TranslationError as ex:
        ctx.oblige('T3 regenerated ABC._send_onlooker\'s selection probability and loop shape', False, str(ex))
    ok, log = ctx.build_props()
    if ok:
        _ir.nonvacuity(ctx, meta)
        _ir.check_programs(ctx, meta, IMPORTS, '(fun p => c03_check KBase p || c03_check KPso p || c03_check KTree p)', None,
                           'hook/sweep/iteration structure of run()', 'C03_iterations_hooks_sweeps')
        got = budgets(ctx)
        for o in _ir.OPTS:
            if o not in meta:
                continue
            exp, g = BUDGET[o], got.get(o, 'missing')
            if exp is None:
                ctx.cov.setdefault('budget_not_provable', []).append(o)
                continue
            good = g not in (None, 'missing') and all(a <= b for a, b in zip(g, exp))
            ctx.oblige('cmaxl KEval prog_%s = %s within the budget %s (c0 + c1*N + c2*T + c3*N*T)' % (o, g, exp), good,
                       'the regenerated program can call the objective more often than its per-iteration trial budget')
            if not good:
                before = len(ctx.violations)
                _ir.monitor_data(ctx, focus=o)
                if len(ctx.violations) > before:
                    ctx.explain('cmaxl KEval prog_%s' % o)
    # a hyperparameter setter raises on a value outside its guard, which would abort the iteration loop: the range theorems
    # about the schedules regenerated from the current source (Props/C15ranges.v over Gen/Schedules.v) are a C03 obligation too
    try:
        from props import _c15_sched
        _c15_sched.regenerate()
        ok2, log2 = ctx.build(_c15_sched.TARGETS, 900)
        ctx.oblige('no scheduled hyperparameter write can raise out of run(): the range theorems of Props/C15ranges.v hold for the '
                   'schedules regenerated from the current source', ok2, _ir.core.coq_error_excerpt(log2) if not ok2 else '')
        if not ok2:
            before = len(ctx.violations)
            for o in ('IHS', 'AIWPSO', 'SA', 'FA', 'WCA'):
                if o in meta:
                    _ir.monitor_data(ctx, focus=o)
            if any(v['found_input'] for v in ctx.violations[before:]):
                ctx.explain('no scheduled hyperparameter write can raise')
    except Exception:  # noqa: BLE001
        import traceback
        ctx.oblige('schedule range obligation of C03 ran', False, traceback.format_exc())
    # GP's tree operators are opaque steps of the IR (TreeCopy/TreeSet/TreeCross): an exception inside one of them aborts the
    # iteration loop.  The scripted case matrix of harness/c0809.py (every ordered pair of parent shapes of depth <= 2 over unary and
    # binary nodes x every crossover/mutation point, every grow outcome, reproduction scripts, seeded GP runs) runs the real operators.
    try:
        rc3, data3, out3 = ctx.run_harness_json('c0809.py', payload={'mode': 'cases'}, timeout=3000)
        if data3 is None:
            ctx.oblige('GP tree operators: case matrix of harness/c0809.py ran', False, out3[-2000:])
        else:
            raised = [c for c in data3['cases'] if isinstance(c.get('o8'), str) and ' raised ' in c['o8']]
            fams = {}
            for c in data3['cases']:
                fams[c['fam']] = fams.get(c['fam'], 0) + 1
            ctx.cov['gp_tree_operator_cases'] = fams
            ctx.oblige('GP tree operators (grow, _mutate, _cross, _reproduction, scripted GP runs) complete without an exception on %d scripted cases'
                       % len(data3['cases']), not raised, '%d cases raised, e.g. %s' % (len(raised), raised[0]['o8'] if raised else ''))
            seen = set()
            for c in raised:
                k = 'gp-tree-operator-raises:%s:%s' % (c['fam'], c['o8'].split(' raised ')[-1].split(':')[0].split('(')[0].strip()[:40])
                if k in seen:
                    continue
                seen.add(k)
                ctx.report(k, 'GP: %s on a scripted case (an exception inside a tree operator aborts run() before n_iterations iterations)' % c['o8'],
                           {'kind': 'c0809_case', 'case': {kk: vv for kk, vv in c.items() if kk != 'exp'}})
            if raised:
                ctx.explain('GP tree operators')
    except Exception:  # noqa: BLE001
        import traceback
        ctx.oblige('GP tree operator obligation of C03 ran', False, traceback.format_exc())
    ctx.cov['rule'] = ('theorems for all boxes/objectives/hooks/oracles/iteration counts per regenerated program; run monitor: configurations '
                       'run to completion under a wall-clock limit with hook count, sweep-follows-hook, iteration count and budget oracles')
    if ok:
        _ir.trace_inclusion(ctx, meta)
        _ir.state_replay(ctx, meta)
    _ir.monitor(ctx)
    _ir.translation_failures(ctx, errors)
    ctx.sample({'theorem': 'C03_iterations_hooks_sweeps: c03_check k p = true -> forall hk preserving the population size, run p = Some (x\', evs, o\') -> '
                           'cnt KHook evs = 1 + n_iter /\\ cnt KDump evs = n_iter /\\ dumps are the iteration-end states /\\ every EvHook y is followed by the evaluation of y\'s population in order'})


def replay(ctx, path):
    import json
    doc = json.load(open(path))
    rp = doc.get('replay') if isinstance(doc.get('replay'), dict) else {}
    if rp.get('kind') == 'c0809_case':
        # re-run the case matrix on the current tree: the violation persists iff the same operator still raises
        rc3, data3, out3 = ctx.run_harness_json('c0809.py', payload={'mode': 'cases'}, timeout=3000)
        fam = rp['case'].get('fam')
        still = data3 is None or any(isinstance(c.get('o8'), str) and ' raised ' in c['o8'] and c['fam'] == fam for c in data3['cases'])
        print('replay %s: %s' % (doc.get('key'), 'still raises' if still else 'no longer raises'))
        if still:
            print('VIOLATION property=%s replay=%s' % (doc.get('property', ctx.pid), path))
        return 1 if still else 0
    return _ir.replay(ctx, path)
