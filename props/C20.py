"""C20 -- per-agent records are truthful; greedy optimizers never accept a worse solution.

Theorems: Props/C20.v (Analysis/Truthful.v through the verified abstract interpreter) on the programs T2 regenerates:
clause 1 (c20_check, all 17 optimizers): at every record every agent's fitness is the objective at its stored position
(for the swarm family at its stored local best); clause 2 (c20_greedy_check; ABC, CS, FPA, PSO, AIWPSO, RPSO per agent,
HS/IHS per rank): fitness never increases between consecutive records (observer hooks).  Clause 1 is also proved for every
pre-evaluation hook that only moves agents (c20h_check: the Hook statement forgets position/fitness consistency of every slot, the
sweep that follows re-establishes it -- a hook called between the sweep and history.dump breaks the obligation).  WCA fails clause 1 on the unchanged tree
(finding g: _raining_process moves agents after the sweep): refuted in Coq (wca_c20_refuted) and recorded."""
from props import _ir

IMPORTS = ['Analysis.AbsInt', 'Analysis.Truthful']
GREEDY = ['ABC', 'CS', 'FPA', 'PSO', 'AIWPSO', 'RPSO', 'HS', 'IHS']


def run(ctx):
    ctx.assume('the objective is a deterministic function; arithmetic results NaN-free and shape-preserving (okc_std); the hook is an observer '
               '(c20_check, clause 2) or any hook that keeps fitnesses / best / trial / shadows / local positions and leaves positions well formed '
               '(c20h_check, clause 1: hook_moves_positions_only)',
               'swarm family: every initial fitness (the FLOAT_MAX sentinel) is strictly above every objective value',
               'a freshly built space is feasible (C06 / C01_fresh_space_is_admissible)')
    meta, errors = _ir.regenerate(ctx)
    _ir.agent_data_model(ctx)
    ok, log = ctx.build_props()
    if ok:
        _ir.nonvacuity(ctx, meta)
        _ir.check_programs(ctx, meta, IMPORTS, 'c20_check', '(fun p => t_alarms (is_pso p) GNone p)',
                           'a record may hold a fitness that is not the objective at the recorded position', 'c20_truthful')
        _ir.check_programs(ctx, meta, IMPORTS, 'c20h_check', '(fun p => th_alarms true (is_pso p) GNone p)',
                           'under a pre-evaluation hook that moves agents a record may hold a fitness that is not the objective at the recorded position',
                           'c20_truthful_any_position_moving_hook')
        _ir.check_programs(ctx, meta, IMPORTS, 'c20_greedy_check', '(fun p => t_alarms (is_pso p) (if sorts p then GRank else GSlot) p)',
                           'an individual\'s recorded fitness may increase between two records', 'c20_greedy_slot / c20_greedy_rank', only=GREEDY)
        # histories of tasks (C20_task_histories): the regenerated programs outside the swarm family qualify (WCA is the recorded finding g)
        hist = [o for o in _ir.OPTS if o not in ('PSO', 'AIWPSO', 'RPSO', 'WCA')]
        _ir.check_programs(ctx, meta, IMPORTS + ['Analysis.TruthfulHist'], '(prog20_ok GNone)', None,
                           'in a history of tasks a record may hold a fitness that is not the objective at the recorded position', 'C20_task_histories', only=hist)
        _ir.check_programs(ctx, meta, IMPORTS + ['Analysis.TruthfulHist'], '(prog20_ok GSlot)', None,
                           'in a history of tasks an agent\'s recorded fitness may increase between two records of a task', 'C20_task_histories', only=['ABC', 'CS', 'FPA'])
        _ir.check_programs(ctx, meta, IMPORTS + ['Analysis.TruthfulHist'], '(prog20_ok GRank)', None,
                           'in a history of tasks the k-th best recorded fitness may get worse between two records of a task', 'C20_task_histories', only=['HS', 'IHS'])
        _ir.trace_inclusion(ctx, meta)
        _ir.state_replay(ctx, meta)
    ctx.cov['rule'] = ('theorems for all boxes/objectives/oracles/iteration counts per regenerated program; run monitor: the objective re-applied to every '
                       'stored position (local best for the swarm family) of every record, consecutive records compared per agent / per rank')
    _ir.monitor(ctx)
    _ir.translation_failures(ctx, errors)
    ctx.sample({'theorem': 'c20_truthful_any_position_moving_hook: hook_moves_positions_only lbs h -> c20h_check p = true -> at every EvDump y of every run '
                           'under hook h: Forall (fun a => afit a = f (apos a)) (pop y) (swarm family: against loc y)'})
    ctx.sample({'theorem': 'c20_truthful: c20_check p = true -> at every EvDump y: Forall (fun a => afit a = f (apos a)) (pop y) (swarm family: against loc y); '
                           'c20_greedy_slot / c20_greedy_rank: consecutive dumps y1, y2: fitnesses of y2 pointwise (rank-wise for HS/IHS) <= those of y1'})


def replay(ctx, path):
    return _ir.replay(ctx, path)
