"""C01 -- the objective is only ever evaluated at feasible points.

Theorem: Props/C01.v (Analysis/Feasible.v through the generic abstract interpreter Analysis/AbsInt.v, over the
semantics Model/IRSem.v of the programs T2 regenerates from /repo on every run).  Per-optimizer obligation:
`c01_check prog_X = true` (vm_compute).  A failing obligation or translation is handed to the run monitor S-run,
which looks for a concrete infeasible evaluation on the real implementation."""
from props import _ir

IMPORTS = ['Analysis.AbsInt', 'Analysis.Feasible']


def run(ctx):
    ctx.assume('arithmetic results are NaN-free and keep the (variables, dimensions) shape (okc_std): NaN/overflow of the update '
               'formulas is outside the IR and searched for by the run monitor',
               'the pre-evaluation hook is an observer (hk = id); the objective is a function and does not mutate its argument',
               'a freshly built space is feasible (init_ok): C06 proves it for the constructors',
               'agents carry the bounds of their space (C06), so Agent.check_limits and Space.check_limits clip to the same box')
    meta, errors = _ir.regenerate(ctx)
    ok, log = ctx.build_props()
    failed = []
    if ok:
        _ir.nonvacuity(ctx, meta)
        failed = _ir.check_programs(ctx, meta, IMPORTS, 'c01_check', '(fun p => snd (fa_absint 0 false p fa_init))',
                                    'the objective may be evaluated at an infeasible point', 'C01_evaluations_feasible')
        # histories of tasks on one space: the relational refinement (fitness-order facts), Props/C01.v C01_task_histories
        failed += [o for o in _ir.check_programs(
            ctx, meta, IMPORTS + ['Analysis.FeasibleRel'], 'c01r_check', '(fun p => snd (c01r_result p))',
            'in a history of tasks on one space the objective may be evaluated at an infeasible point, or a best position reported '
            'that is neither feasible nor the untouched placeholder', 'C01_task_histories') if o not in failed]
    ctx.cov['rule'] = ('theorem for all boxes/objectives/oracles/iteration counts per regenerated program; run monitor: '
                       'configurations of the S-run matrix whose objective arguments and reported best positions were checked; '
                       'non-trivial = configurations with extreme draw scripts, narrow/huge/degenerate boxes or a moving hook')
    # the property oracle on the real implementation (always), focused runs for whatever broke
    if ok:
        _ir.trace_inclusion(ctx, meta)
        _ir.state_replay(ctx, meta)
    _ir.monitor(ctx)
    _ir.translation_failures(ctx, errors)
    ctx.sample({'theorem': 'C01_task_histories: forall ps, Forall (fun p => c01r_check p = true) ps -> forall box f n_iter INIT x0 evs x\', restart_ok x0 -> '
                           'tasks ps x0 evs x\' -> Forall feasible (eval_args evs) /\\ best_ok at every hook/dump/end of task /\\ restart_ok x\' '
                           '(a fresh space is restart_ok: C01_fresh_space_starts_a_history)'})
    ctx.sample({'theorem': 'C01_evaluations_feasible: forall p, c01_check p = true -> forall lbs ubs f n_iter INIT, box_ok -> forall o x0 x\' evs o\', '
                           'init_ok x0 -> run p o x0 = Some (x\', evs, o\') -> Forall feasible (eval_args evs) /\\ best feasible-or-placeholder at every hook/dump/return'})


def replay(ctx, path):
    return _ir.replay(ctx, path)
