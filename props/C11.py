"""C11 -- tree measurements and traversals agree with their definitions.

Theorems: coq/theories/Props/C11.v (closed by lemmas of Model/TreeAlgoProofs.v about the executable mirrors of
core/node.py in Model/TreeAlgo.v, over the functional trees of Model/TreeDef.v; unbounded in size/depth).
Tie: harness/c11.py builds real Node graphs (all 676 shapes of depth <= 3 in two labellings, sampled depth-4
shapes, GROW-generated trees), calls the real n_nodes/n_leaves/min_depth/max_depth/pre_order/post_order and
find_node(p) for every p in [0, size+1]; Coq evaluates the model on the same trees with vm_compute and compares
inside Coq.  The property oracle (independent recursive reference) is evaluated on the implementation itself.
Translator: translate/t_treealgo.py regenerates Gen/TreeAlgoDescr.v (descriptions of pre_order, post_order, _properties,
find_node over the mini-IR of Model/TreeAlgoDescr.v) from the source on every run; Props/C11.v proves each equal to the
hand-stated description (reflexivity), and Model/TreeAlgoDescrProofs.v proves interpreter(description) = mirror."""
import json
import os
import re
from concurrent.futures import ThreadPoolExecutor

from vlib import core
from translate import t_treealgo

DESCR = (('pre_order_descr', 'descr_pre', 'Node.pre_order'), ('post_order_descr', 'descr_post', 'Node.post_order'),
         ('properties_descr', 'descr_props', '_properties + n_nodes/n_leaves/min_depth/max_depth'),
         ('find_node_descr', 'descr_find', 'Node.find_node'))


def regenerate():
    text, items, errors = t_treealgo.generate(core.REPO)
    core.write_if_changed(os.path.join(core.GEN, 'TreeAlgoDescr.v'), text)
    return errors


def check_descriptions(ctx, report=True):
    """Regenerate Gen/TreeAlgoDescr.v from the current source; one obligation per function: translated, and
    literally equal to the hand-stated description (the same equalities are theorems of Props/C11.v)."""
    text, items, errors = t_treealgo.generate(core.REPO)
    core.write_if_changed(os.path.join(core.GEN, 'TreeAlgoDescr.v'), text)
    for it in items[:2]:
        ctx.sample({'regenerated_from': '%s:%d' % (it['file'], it['line']), 'text': it['text']})
    failed = set()
    for er in errors:
        failed.add(er['item'])
        ctx.oblige('T-treealgo translation of %s' % er['item'], False, '%s:%s: %s' % (er['file'], er['line'], er['msg']))
    ctx.oblige('T-treealgo translated %d of 4 functions of core/node.py' % (4 - len(failed)), not errors,
               '; '.join('%s: %s' % (e['item'], e['msg']) for e in errors))
    okb, log = ctx.build(['theories/Gen/TreeAlgoDescr.vo'])
    if not okb:
        ctx.oblige('coq-build theories/Gen/TreeAlgoDescr.vo', False, core.coq_error_excerpt(log))
        return {}
    lines = ['From Coq Require Import List ZArith.', 'From OV Require Import Model.TreeAlgoDescr.', 'From OV Require Gen.TreeAlgoDescr.']
    for gen, hand, _ in DESCR:
        lines.append('Goal True. first [ assert (OV.Gen.TreeAlgoDescr.%s = Some %s) by reflexivity; idtac "@@DESCR %s same" '
                     '| idtac "@@DESCR %s DIFFERS" ]. exact I. Qed.' % (gen, hand, gen, gen))
    okc, outc = ctx.coq_eval('\n'.join(lines) + '\n', 'descr', timeout=300)
    gen_defs = {}
    for blk in text.split('Definition ')[1:]:
        gen_defs[blk.split(' ')[0]] = 'Definition ' + blk.strip()
    res = {}
    err_of = {e['item']: '%s:%s: %s' % (e['file'], e['line'], e['msg']) for e in errors}
    for gen, hand, what in DESCR:
        same = okc and ('@@DESCR %s same' % gen) in outc
        res[gen] = same
        ctx.oblige('regenerated description of %s = %s (Model/TreeAlgoDescr.v)' % (what, hand), same,
                   ('the source no longer has the shape the mirror of Model/TreeAlgo.v implements; regenerated:\n%s'
                    % gen_defs.get(gen, '?')) if okc else outc[-1500:])
        if not same and report:
            ctx.report('descr:' + gen,
                       'the description of %s regenerated from the source is not the one the model implements (%s): the '
                       'theorems of Props/C11.v no longer speak about this code'
                       % (what, err_of.get(gen, 'translated, but a push order / condition / update / return differs')),
                       {'kind': 'description', 'item': gen, 'expected': hand, 'regenerated': gen_defs.get(gen),
                        'translation_error': err_of.get(gen)}, found_input=False)
    return res

CHUNK = 500
BITS = {1: ('measurements (n_nodes, n_leaves, min_depth, max_depth)', 'C11_measurements'),
        2: ('pre_order', 'C11_pre_order'),
        4: ('post_order', 'C11_post_order'),
        8: ('find_node for 1 <= p < size', 'C11_find_node_slot / C11_find_node_answers')}


# ---------------------------------------------------------------- Coq encoding
def coq_shape(s):
    tm, l, r = s
    return 'Sh %s %s %s' % ('true' if tm else 'false',
                            'None' if l is None else '(Some (%s))' % coq_shape(l),
                            'None' if r is None else '(Some (%s))' % coq_shape(r))


def coq_nat(v, bad=0):
    return str(v) if isinstance(v, int) and 0 <= v < 10 ** 7 else str(bad)


def coq_z(v):
    if not isinstance(v, int) or abs(v) > 10 ** 7:
        return '(-7)%Z'
    return '(%d)%%Z' % v


def coq_onat(v):
    return 'None' if v is None else '(Some %s)' % coq_nat(v, 999999)


def coq_bool(b):
    return 'true' if b else 'false'


def coq_find(f):
    if 'err' in f:
        return 'FnAttrErr'
    if 'other' in f:
        return 'FnOther'
    return 'FnSlot %s %s' % (coq_onat(f['parent']), coq_bool(f['flag']))


def coq_case(c):
    o = c['obs']
    p = o['props']
    return ('{| o_shape := %s; o_props := (%s, %s, %s, %s); o_pre := [%s]; o_post := [%s]; o_heap := [%s]; o_find := [%s] |}'
            % (coq_shape(c['shape']), coq_nat(p[0]), coq_nat(p[1]), coq_z(p[2]), coq_z(p[3]),
               '; '.join(coq_nat(x, 999999) for x in (o['pre_order'] or [])),
               '; '.join(coq_nat(x, 999999) for x in (o['post_order'] or [])),
               '; '.join('(%d, (%s, %s))' % (i, coq_onat(par), coq_bool(flg)) for i, par, flg in o['heap']),
               '; '.join(coq_find(f) for f in o['find'])))


def coq_file(cases):
    lines = ['From Coq Require Import ZArith List Bool.', 'From OV Require Import Model.TreeDef Model.TreeAlgo.',
             'Import ListNotations.', 'Definition cases : list obs := [']
    lines.append(';\n'.join('  ' + coq_case(c) for c in cases))
    lines.append('].')
    lines.append('Goal True. let r := eval vm_compute in (bad_cases cases) in idtac "@@BAD" r. exact I. Qed.')
    return '\n'.join(lines) + '\n'


def parse_bad(out):
    k = out.find('@@BAD')           # a long list is printed over several lines
    if k < 0:
        return None
    return [(int(a), int(b)) for a, b in re.findall(r'\((\d+),\s*(\d+)\)', out[k:])]


def size_of(s):
    return 1 + sum(size_of(x) for x in s[1:] if x is not None)


def depth_of(s):
    ch = [x for x in s[1:] if x is not None]
    return 0 if not ch else 1 + max(depth_of(x) for x in ch)


# ---------------------------------------------------------------- run
def run(ctx):
    ctx.assume('Python object identity (`is`) of Node objects is modelled by pairwise distinct ids (NoDup (ids t)); '
               'proved for the pre-order numbering used by the correspondence (C11_corr_trees_have_unique_ids)',
               'parent/flag fields are the structural links (child.parent = node, right child flag False, root parent None): '
               'set so by TreeSpace.grow and by the harness builder; compared with heap_of t inside Coq on every case',
               'positions are non-negative ints (a negative position indexes from the end in Python; outside the property text)')
    ctx.trust('translator T-treealgo (translate/t_treealgo.py): core/node.py pre_order / post_order / _properties / find_node -> '
              'descriptions over the mini-IR of Model/TreeAlgoDescr.v (its interpreter is the stated meaning of a description)',
              'Model/TreeAlgo.v is a hand-written mirror; proved equal to the interpreter on the regenerated descriptions, '
              'and compared with the real methods by the correspondence run',
              'harness/c11.py: graph builder, pre-order index serialisation, recursive reference oracle',
              'props/C11.py: Coq encoding of the observed cases')
    check_descriptions(ctx)
    ok, log = ctx.build_props()
    rc, data, out = ctx.run_harness_json('c11.py', payload={'mode': 'run'}, timeout=1500)   # a payload so that stdin is a pipe
    if data is None:
        ctx.oblige('harness c11.py ran', False, out[-3000:])
        return
    cases = data['cases']
    for c in cases:
        if c.get('grow_error'):
            ctx.oblige('TreeSpace could be built for GROW trees (%s)' % c['source'], False, c['grow_error'])
    cases = [c for c in cases if c.get('shape') is not None]
    ctx.oblige('harness c11.py produced %d trees (%d from the exhaustive depth<=3 enumeration)' % (len(cases), data['n_exhaustive']),
               len(cases) > 0 and data['n_exhaustive'] == 2 * 676)

    # ---- the property oracle on the implementation: a failure is a violation whatever the model says
    by_key = {}
    for i, c in enumerate(cases):
        for key, msg, p in c['oracle']:
            best = by_key.get(key)
            if best is None or size_of(c['shape']) < size_of(cases[best[0]]['shape']):
                by_key[key] = (i, msg, p)
    for key in sorted(by_key):
        i, msg, p = by_key[key]
        c = cases[i]
        ctx.report('oracle:' + key, 'on a real Node tree (%s, %d nodes): %s' % (c['source'], size_of(c['shape']), msg),
                   {'kind': 'oracle', 'oracle_key': key, 'shape': c['shape'], 'p': p, 'message': msg, 'source': c['source'],
                    'grown': bool(c.get('grown')), 'grow': c.get('grow'), 'heap': c['obs']['heap'], 'obs': c['obs']})
    n_oracle_bad = sum(1 for c in cases if c['oracle'])
    ctx.oblige('property oracle holds on the implementation for all %d trees' % len(cases), n_oracle_bad == 0,
               '%d trees fail; keys: %s' % (n_oracle_bad, sorted(by_key)))

    # ---- measure -> edit through the public setters / deepcopy -> measure again (a tree that has been edited is a tree)
    edits = data.get('edits', [])
    by_key = {}
    for i, h in enumerate(edits):
        for key, msg, p, which, step in h['fails']:
            best = by_key.get(key)
            if best is None or size_of(h['shape']) < size_of(edits[best[0]]['shape']):
                by_key[key] = (i, msg, p, step)
    for key in sorted(by_key):
        i, msg, p, step = by_key[key]
        h = edits[i]
        ctx.report('oracle:%s:after-edit' % key,
                   'history measure -> deepcopy -> edit -> measure again on a real Node tree (%s, %d nodes, %s edited): %s'
                   % (h['source'], size_of(h['shape']), 'original' if h['mode'] == 'orig' else 'copy', msg),
                   {'kind': 'edit', 'oracle_key': key, 'shape': h['shape'], 'grow': h.get('grow'), 'mode': h['mode'],
                    'script': h['script'], 'p': p, 'step': step, 'message': msg, 'source': h['source']})
    n_edit_bad = sum(1 for h in edits if h['fails'])
    ctx.oblige('property oracle holds on edited trees and on their untouched original/copy for all %d edit histories '
               '(%d edits)' % (len(edits), sum(len(h['script']) for h in edits)), len(edits) > 0 and n_edit_bad == 0,
               '%d histories fail; keys: %s' % (n_edit_bad, sorted(by_key)))
    ctx.cov['edit_histories'] = {'histories': len(edits), 'edits': sum(len(h['script']) for h in edits),
                                 'calls': sum(h['calls'] for h in edits), 'from_grow': sum(1 for h in edits if h.get('grow')),
                                 'edited_original': sum(1 for h in edits if h['mode'] == 'orig'),
                                 'edited_copy': sum(1 for h in edits if h['mode'] == 'copy')}
    if edits:
        ctx.sample({'edit_history': {'shape': edits[0]['shape'], 'mode': edits[0]['mode'], 'script': edits[0]['script'],
                                     'final_shape': edits[0]['final_shape']}})

    # ---- coverage
    n_corr = sum(6 + len(c['obs']['find']) for c in cases)
    n_eval = n_corr + sum(h['calls'] for h in edits)
    distinct = set(json.dumps(c['shape']) for c in cases if size_of(c['shape']) >= 2)
    ctx.count(n_eval, len(distinct))
    dist = {}
    for c in cases:
        k = '%s/depth%d' % (c['source'].split('/')[0] + ('/' + c['source'].split('/')[1] if c['source'].startswith('enum3') else ''),
                            depth_of(c['shape']))
        dist[k] = dist.get(k, 0) + 1
    ctx.cov['distribution'] = dist
    ctx.cov['rule'] = ('trees: ALL 676 shapes over {leaf, left-only, right-only, binary} of depth <= 3, each with the natural '
                       'labelling (leaf=TERMINAL, inner=FUNCTION) and with a seeded random labelling; seeded samples of depth-4 '
                       'shapes (half uniform, half skewed towards unary chains); 26 fixed deep trees (chains, zigzags, combs of depth 5..9, the '
                       'full tree of depth 5) in two labellings; trees grown by TreeSpace.grow over random '
                       'subsets of the ten functions. evaluations = calls of the real properties/methods (4 measurements + 2 '
                       'orders + find_node(p) for every p in [0, size+1] per tree); distinct_nontrivial = distinct labelled '
                       'shapes with at least 2 nodes. Edit histories: a seeded sample of these trees (>= 3 nodes, depth >= 2; one third GROW) is '
                       'measured, deep-copied, edited 1-3 times through node.left/right = new sub-tree at depth >= 1 / >= 2 (parent/flag '
                       'set as GP._mutate does), and the full oracle is re-run on the edited tree and on the untouched original/copy after '
                       'every edit. The depth<=3 part is exhaustive, the rest is sampled (exhaustive=false overall).')
    ctx.cov['exhaustive'] = False
    ctx.cov['programs'] = len(cases)
    mid = cases[len(cases) // 3]
    ctx.sample({'tree_case': {'shape [is_terminal, left, right]': mid['shape'], 'source': mid['source'], 'observed': mid['obs']}})
    big = max(cases, key=lambda c: size_of(c['shape']))
    ctx.sample({'largest_tree_case': {'nodes': size_of(big['shape']), 'source': big['source'], 'props': big['obs']['props'],
                                      'post_order': big['obs']['post_order']}})
    ctx.sample({'theorem': 'C11_post_order : forall t, NoDup (ids t) -> post_stack t = Some (post_rec t)'})
    ctx.sample({'theorem': 'C11_measurements : forall t, props_bfs t = Some (size t, leaves t, Z.of_nat (min_leaf_depth t), '
                           'Z.of_nat (max_leaf_depth t))'})
    if not ok:
        return

    # ---- model vs implementation, inside Coq
    chunks, starts, cur, cur_bytes = [], [], [], 0
    for i, c in enumerate(cases):
        n = 120 * size_of(c['shape']) + 200                 # rough size of the case's Coq text
        if cur and (len(cur) >= CHUNK or cur_bytes + n > 600000):
            chunks.append(cur)
            cur, cur_bytes = [], 0
        if not cur:
            starts.append(i)
        cur.append(c)
        cur_bytes += n
    chunks.append(cur)
    texts = [coq_file(ch) for ch in chunks]
    ctx.oblige('correspondence files stay below 1.5 MB each (largest %d bytes)' % max(len(t) for t in texts),
               max(len(t) for t in texts) < 1500000)
    with ThreadPoolExecutor(max_workers=6) as ex:
        results = list(ex.map(lambda kt: ctx.coq_eval(kt[1], 'cases%d' % kt[0], timeout=900), enumerate(texts)))
    bad = []
    for k, (okc, outc) in enumerate(results):
        b = parse_bad(outc) if okc else None
        if b is None:
            ctx.oblige('correspondence chunk %d evaluates in Coq' % k, False, outc[-3000:])
            return
        bad += [(starts[k] + i, code) for i, code in b]
    in_text = [(i, code) for i, code in bad if code & 15]
    ctx.oblige('correspondence: model (props_bfs, pre_stack, post_stack, find_node_tbl) = real Node methods on %d trees, '
               '%d calls' % (len(cases), n_corr), not in_text,
               'mismatching (case, bits): %s' % in_text[:10])
    heap_bad = [i for i, code in bad if code & 16]
    drift = [i for i, code in bad if code & 32]
    ctx.cov['outside_text_find_node_drift'] = {
        'note': 'find_node(0) and find_node(p >= size) are outside the property text; the model mirrors the current code there '
                '(AttributeError for a function root, (None, True) for a terminal root, (None, False) beyond the end)',
        'cases_differing_from_model': len(drift), 'example': cases[drift[0]]['obs']['find'] if drift else None}
    ctx.cov['links_differ_from_structural'] = len(heap_bad)
    ctx.cov['disagreements_checked'] = len(bad)
    reported = set()
    for i, code in in_text:
        c = cases[i]
        if c['oracle']:
            continue            # already a concrete violation above
        for bit, (what, thm) in BITS.items():
            if code & bit and bit not in reported and len(reported) < 4:
                reported.add(bit)
                ctx.report('corr:%s' % what.split(' ')[0],
                           'model and implementation disagree on %s (the property oracle passed on this tree): the theorem %s '
                           'no longer speaks about the code' % (what, thm),
                           {'kind': 'correspondence', 'shape': c['shape'], 'obs': c['obs'], 'bits': code, 'theorem': thm,
                            'source': c['source'], 'grown': bool(c.get('grown')), 'grow': c.get('grow'),
                            'heap': c['obs']['heap']},
                           found_input=False)


def replay(ctx, path):
    doc = json.load(open(path))
    if doc.get('replay', {}).get('kind') == 'description':
        res = check_descriptions(ctx, report=False)
        item = doc['replay']['item']
        print(json.dumps({'item': item, 'regenerated_equals_model_description': res.get(item)}, indent=1))
        if not res.get(item):
            print('VIOLATION property=C11 replay=%s' % path)
            return 1
        return 0
    rc, data, out = ctx.run_harness_json('c11.py', payload=doc, timeout=300)
    if data is None:
        print(out[-2000:])
        return 2
    print(json.dumps({'fails': data.get('fails'), 'oracle': data.get('oracle'), 'note': data.get('note'),
                      'observed': data.get('obs')}, indent=1)[:6000])
    if data.get('fails'):
        print('VIOLATION property=C11 replay=%s' % path)
        return 1
    return 0
