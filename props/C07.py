"""C07 -- agents are independent objects and the population keeps its size and shape.

Theorem: Props/C07.v (Analysis/Distinct.v): EVERY program of the effect IR keeps the population size, pairwise distinct
position-array identities (agents and best agent) and every position's shape, at every hook, record and at return.
The IR has no aliasing construct: T2 (fail-closed) aborts on every right-hand side that would share storage
(`x.position = y.position`, `agents[k] = a`, slices, np.asarray, helper returning an alias ...), so a C07 defect in the
source shows up as a translation error -- then the run monitor (np.shares_memory sweep + poke test) looks for the
concrete aliasing pair."""
from props import _ir


def run(ctx):
    ctx.assume('copy.deepcopy yields fresh storage; `+=`/row assignment mutate in place; binary operations and np.* calls allocate (T2\'s '
               'fresh/deep-copy/alias classification, validated by np.shares_memory at every hook)',
               'arithmetic keeps the (variables, dimensions) shape (NumPy broadcasting; validated by the run monitor)',
               'the hook preserves the invariant (e.g. an observer)')
    meta, errors = _ir.regenerate(ctx)
    ok, log = ctx.build_props()
    if ok:
        _ir.nonvacuity(ctx, meta)
        _ir.check_programs(ctx, meta, ['Analysis.Distinct'], 'c07_check', None, 'aliasing / population size', 'C07_ir')
    ctx.cov['rule'] = ('theorem for every IR program, every oracle/objective/box/iteration count; T2 aborts on aliasing; run monitor: '
                       'len(agents), shapes and pairwise np.shares_memory at every hook and at return, poke test at return')
    if ok:
        _ir.trace_inclusion(ctx, meta)
        _ir.state_replay(ctx, meta)
    _ir.monitor(ctx)
    _ir.translation_failures(ctx, errors)
    ctx.sample({'theorem': 'C07_ir: forall p ... Inv n sp x0 -> run p o x0 = Some (x\', evs, o\') -> at every EvHook y / EvDump y and for x\': '
                           'length (pop y) = n /\\ NoDup (map aid (pop y) ++ [aid (best y)]) /\\ shapes unchanged'})


def replay(ctx, path):
    return _ir.replay(ctx, path)
