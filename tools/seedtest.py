#!/usr/bin/env python3
"""Evaluate a seeded breaking change against the checks, in an isolated copy of /verif.

    tools/seedtest.py <mutdir> <prop> [<prop2> ...]       mutdir contains patch.diff, demo.py, meta.json
Uses the scratch worktree /tmp/mut/<worktree> named in --wt (default: the property id) and the /verif copy
/root/scratch/vm (rsync it first).  Prints the VIOLATION / KNOWN-FINDING lines of each check and a verdict."""
import argparse
import json
import os
import subprocess
import sys


def sh(cmd, cwd=None, env=None, timeout=3600):
    p = subprocess.run(cmd, shell=True, cwd=cwd, env=env, stdout=subprocess.PIPE, stderr=subprocess.STDOUT, text=True, timeout=timeout)
    return p.returncode, p.stdout


def main():
    ap = argparse.ArgumentParser()
    ap.add_argument('mutdir')
    ap.add_argument('props', nargs='+')
    ap.add_argument('--wt', default=None)
    ap.add_argument('--vm', default='/root/scratch/vm')
    ap.add_argument('--tier', default='quick')
    ap.add_argument('--skip-tests', action='store_true')
    a = ap.parse_args()
    wt = a.wt or '/tmp/mut/_seedtest'
    patch = os.path.join(os.path.abspath(a.mutdir), 'patch.diff')
    demo = os.path.join(os.path.abspath(a.mutdir), 'demo.py')
    res = {'mutdir': a.mutdir, 'props': a.props, 'worktree': wt}
    sh('git checkout -- . && git clean -fdq -e out -e out2', cwd=wt)
    env = dict(os.environ, PYTHONPATH=wt, PYTHONHASHSEED='0')
    DEMO = '/root/scratch/demo_run' + os.environ.get('LANE', '')
    os.makedirs(DEMO, exist_ok=True)
    rc, out = sh('/venv/bin/python %s' % demo, cwd=DEMO, env=env, timeout=900)
    res['demo_clean_rc'] = rc
    rc, out = sh('git apply %s' % patch, cwd=wt)
    if rc != 0:
        print('patch does not apply:', out)
        return 2
    try:
        if not a.skip_tests:
            rc, out = sh('/venv/bin/python -m pytest -q -p no:cacheprovider --timeout=900 -x 2>&1 | tail -3', cwd=wt, env=env)
            res['tests'] = out.strip().split('\n')[-1]
        rc, out = sh('/venv/bin/python %s' % demo, cwd=DEMO, env=env, timeout=900)
        res['demo_mutant_rc'] = rc
        res['checks'] = {}
        for p in a.props:
            env2 = dict(os.environ, VERIF_REPO=wt)
            rc, out = sh('./check %s --tier %s' % (p, a.tier), cwd=a.vm, env=env2, timeout=3600)
            lines = [l for l in out.split('\n') if l.startswith('VIOLATION') or l.startswith('KNOWN-FINDING')]
            viol = [l for l in lines if l.startswith('VIOLATION')]
            res['checks'][p] = {'rc': rc, 'violations': viol, 'n_known': len(lines) - len(viol),
                                'broken': [l for l in out.split('\n') if 'obligation BROKEN' in l][:6]}
            for v in viol[:3]:
                path = v.split('replay=')[1].split()[0]
                try:
                    d = json.load(open(path))
                    res['checks'][p].setdefault('keys', []).append({'key': d.get('key'), 'what': d.get('what', '')[:300], 'found_input': d.get('found_input')})
                    rc2, out2 = sh('./check %s --replay %s' % (p, path), cwd=a.vm, env=env2, timeout=900)
                    res['checks'][p].setdefault('replay_rc_on_mutant', []).append(rc2)
                except Exception as ex:  # noqa: BLE001
                    res['checks'][p].setdefault('keys', []).append(repr(ex))
    finally:
        sh('git checkout -- . && git clean -fdq -e out -e out2', cwd=wt)
    caught = {p: bool(c['violations']) and c['rc'] == 1 for p, c in res['checks'].items()}
    res['caught'] = caught
    print(json.dumps(res, indent=1))
    return 0


if __name__ == '__main__':
    sys.exit(main())
