#!/usr/bin/env python3
"""Regenerates /verif/seeded/README.md (which check catches which seeded change) from seeded/*/meta.json."""
import glob
import json
import os

rows = []
for m in sorted(glob.glob('/verif/seeded/*/meta.json')):
    d = json.load(open(m))
    name = os.path.basename(os.path.dirname(m))
    checks = d.get('checks', {})
    cell = []
    for p, c in sorted(checks.items()):
        if c.get('caught'):
            how = 'concrete replay' if c.get('concrete_input_found') else 'obligation only (no-failing-input-found)'
            keys = ', '.join(sorted({str(k) for k in c.get('violation_keys', [])})[:2])
            cell.append('%s: VIOLATION, %s [%s]' % (p, how, keys[:110]))
        elif p != name.split('-')[0]:
            cell.append('%s: silent (exit %s; also run, not the property the change was written against)' % (p, c.get('exit_code')))
        else:
            cell.append('%s: not flagged (exit %s)' % (p, c.get('exit_code')) if d.get('note') else '%s: **missed** (exit %s)' % (p, c.get('exit_code')))
    if d.get('note'):
        cell.append('note: ' + d['note'])
    if d.get('rebased'):
        cell.append(d['rebased'])
    rows.append('| %s | %s | %s | %s |' % (name, (d.get('summary') or '')[:230].replace('|', '/').replace('\n', ' '),
                                         (d.get('needs') or '')[:170].replace('|', '/').replace('\n', ' '), '<br>'.join(cell)))
out = ['# Seeded changes', '',
       'Each directory holds `patch.diff` (a change to /repo that breaks the named property while the 246 tests still pass), `demo.py`',
       '(fails with the change, passes without) written by an independent agent that saw only the property text, and `meta.json`',
       '(what it needs to manifest, what was run, which checks caught it).  Apply with `git -C /repo apply seeded/<id>/patch.diff`,',
       'run `./check <prop> --tier quick`, undo with `git -C /repo checkout -- .`.  Nine rounds: `Cxx-k` (first), `Cxx-r2-k` (second:',
       'different kinds and sites), `Cxx-r3-k` (third: histories, rare configurations, exceptions in rare branches, floating-point corner cases,',
       'shared code, innocent-looking clean-ups), `Cxx-r4-k` (fourth: helpers / base classes / data-model methods, single branches, boundary counts,',
       'dtype and shape corners, error paths, aliasing-dependent orders, faster equivalents), `Cxx-r5-k` (fifth: interactions of two features, shared',
       'infrastructure with the anchored functions textually untouched, Python subtleties, numeric corners), `Cxx-r6-k` (sixth: logging and formatting side effects,',
       'builtin versus NumPy namesakes, early exits, what is passed between layers, cached attribute reads, precedence and integer wrap-around), `Cxx-r7-k` (seventh, adversarial: effects that only show at scale, files outside the anchors, unusual but valid element types, three-step sequences, rare numerical coincidences), `Cxx-r8-k` (eighth: ordinary pull requests of a maintainer -- performance, modernisation, robustness, API polish), `Cxx-r9-k` (ninth, ten properties only: the fix of one real-looking issue by a contributor that is right for the reported case and breaks the property elsewhere; public API only).  The `checks` column is the result of the LAST regression run of every seed against the current checks.', '',
       '| id | change | needs to manifest | checks |', '|---|---|---|---|'] + rows
open('/verif/seeded/README.md', 'w').write('\n'.join(out) + '\n')
print(len(rows), 'rows')
