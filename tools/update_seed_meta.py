#!/usr/bin/env python3
"""Refresh the `checks` field of /verif/seeded/<id>/meta.json from a regression run of all kept seeds against the current checks
(results written by tools/seedtest.py into /root/scratch/seed_results/regress/<id>.json)."""
import glob
import json
import os

n = 0
for res in sorted(glob.glob('/root/scratch/seed_results/regress/C*.json')):
    name = os.path.basename(res)[:-5]
    mp = os.path.join('/verif/seeded', name, 'meta.json')
    if not os.path.exists(mp):
        continue
    try:
        d = json.load(open(res))
    except ValueError:
        print('unreadable', res)
        continue
    meta = json.load(open(mp))
    if d.get('demo_mutant_rc') in (0, None) or d.get('demo_clean_rc') != 0 or 'passed' not in d.get('tests', ''):
        print('NOT CONFIRMED on the current tree', name, d.get('tests', '')[-30:], d.get('demo_clean_rc'), d.get('demo_mutant_rc'))
        meta['regression_note'] = 'not confirmed on the current /repo (tests %r, demo clean %r, demo with change %r)' % (
            d.get('tests', '')[-30:].strip('= '), d.get('demo_clean_rc'), d.get('demo_mutant_rc'))
    else:
        meta.pop('regression_note', None)
    meta['checks'] = {}
    for p, c in d['checks'].items():
        meta['checks'][p] = {'caught': bool(c['violations']) and c['rc'] == 1, 'exit_code': c['rc'],
                             'violation_keys': [k.get('key') if isinstance(k, dict) else k for k in c.get('keys', [])],
                             'concrete_input_found': any(isinstance(k, dict) and k.get('found_input') for k in c.get('keys', [])),
                             'replay_exit_codes_on_the_changed_tree': c.get('replay_rc_on_mutant'),
                             'broken_obligations': [b.split('BROKEN: ')[-1][:160] for b in c.get('broken', [])]}
    json.dump(meta, open(mp, 'w'), indent=1)
    n += 1
print('updated', n)
