#!/usr/bin/env python3
"""Copy confirmed seeded changes into /verif/seeded/<prop>-<k>/ with what was run and which check caught them.
    tools/keep_seed.py            (reads /root/scratch/seed_results/*.json and /tmp/mut/<prop>/out/<k>/)"""
import glob
import json
import os
import shutil

for res in sorted(glob.glob('/root/scratch/seed_results/C*-*.json')):
    try:
        d = json.load(open(res))
    except ValueError:
        continue
    name = os.path.basename(res)[:-5]
    src = d['mutdir']
    if not os.path.isdir(src):
        continue
    ok = d.get('demo_clean_rc') == 0 and d.get('demo_mutant_rc') not in (0, None) and 'passed' in d.get('tests', '')
    if not ok:
        print('NOT CONFIRMED', name, d.get('tests'), d.get('demo_clean_rc'), d.get('demo_mutant_rc'))
        continue
    dst = os.path.join('/verif/seeded', name)
    if src.startswith('/verif/seeded/') or (os.path.exists(os.path.join(dst, 'meta.json')) and os.path.getmtime(os.path.join(dst, 'meta.json')) > os.path.getmtime(res)):
        continue          # already kept and refreshed by a later regression run (tools/update_seed_meta.py)
    os.makedirs(dst, exist_ok=True)
    for f in ('patch.diff', 'demo.py'):
        shutil.copy(os.path.join(src, f), os.path.join(dst, f))
    meta = json.load(open(os.path.join(src, 'meta.json')))
    meta['confirmed'] = {'test_suite_with_change': d['tests'].strip('= '), 'demo_exit_clean_tree': d['demo_clean_rc'],
                         'demo_exit_with_change': d['demo_mutant_rc'],
                         'what_i_ran': 'git apply patch.diff in a scratch worktree of /repo; full pytest suite; demo.py with and without the change; '
                                       './check <id> --tier quick with VERIF_REPO=<worktree> in an isolated copy of /verif; ./check <id> --replay <file>'}
    meta['checks'] = {}
    for p, c in d['checks'].items():
        meta['checks'][p] = {'caught': bool(c['violations']) and c['rc'] == 1, 'exit_code': c['rc'],
                             'violation_keys': [k.get('key') if isinstance(k, dict) else k for k in c.get('keys', [])],
                             'concrete_input_found': any(isinstance(k, dict) and k.get('found_input') for k in c.get('keys', [])),
                             'replay_exit_codes_on_the_changed_tree': c.get('replay_rc_on_mutant'),
                             'broken_obligations': [b.split('BROKEN: ')[-1][:160] for b in c.get('broken', [])]}
    json.dump(meta, open(os.path.join(dst, 'meta.json'), 'w'), indent=1)
    print('kept', name, {p: m['caught'] for p, m in meta['checks'].items()})
