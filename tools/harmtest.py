#!/usr/bin/env python3
"""Run the checks whose anchors include the files a HARMLESS refactoring touches; any VIOLATION is a false alarm
(`no-failing-input-found` ones are tolerated by the brief but listed).   tools/harmtest.py <dir-with-patch.diff> ..."""
import json
import os
import re
import subprocess
import sys

VM = os.environ.get('HT_VM', '/root/scratch/vm')
WT = os.environ.get('HT_WT', '/tmp/mut/_seedtest')
props = [json.loads(l) for l in open('/verif/properties.jsonl')]


def sh(cmd, cwd=None, env=None, timeout=3600):
    p = subprocess.run(cmd, shell=True, cwd=cwd, env=env, stdout=subprocess.PIPE, stderr=subprocess.STDOUT, text=True, timeout=timeout)
    return p.returncode, p.stdout


for d in sys.argv[1:]:
    patch = os.path.join(os.path.abspath(d), 'patch.diff')
    files = re.findall(r'^\+\+\+ b/(\S+)', open(patch).read(), re.M)
    rel = sorted({p['id'] for p in props if any(f in p['anchors']['files'] for f in files)})
    if any(f.startswith('opytimizer/optimizers/') for f in files):
        rel = sorted(set(rel) | {'C15'})
    sh('git checkout -- . && git clean -fdq -e out -e out2', cwd=WT)
    rc, out = sh('git apply %s' % patch, cwd=WT)
    res = {'dir': d, 'files': files, 'checks': {}}
    if rc != 0:
        res['error'] = 'patch does not apply: ' + out[-300:]
    else:
        try:
            for p in rel:
                rc, out = sh('./check %s --tier quick' % p, cwd=VM, env=dict(os.environ, VERIF_REPO=WT))
                v = [l for l in out.split('\n') if l.startswith('VIOLATION')]
                res['checks'][p] = {'rc': rc, 'violations': len(v), 'no_input': sum('no-failing-input-found' in l for l in v),
                                    'broken': [l.split('BROKEN: ')[-1][:140] for l in out.split('\n') if 'obligation BROKEN' in l][:4]}
                for l in v[:2]:
                    try:
                        dd = json.load(open(l.split('replay=')[1].split()[0]))
                        res['checks'][p].setdefault('keys', []).append((dd.get('key', '')[:120], dd.get('found_input')))
                    except Exception:  # noqa: BLE001
                        pass
        finally:
            sh('git checkout -- . && git clean -fdq -e out -e out2', cwd=WT)
    alarms = {p: c for p, c in res['checks'].items() if c['rc'] != 0}
    print(json.dumps({'dir': d, 'files': files, 'ran': rel, 'alarms': alarms}, indent=1))
    sys.stdout.flush()
