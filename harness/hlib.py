"""Harness-side helpers (run under /venv/bin/python with PYTHONPATH=/repo:/verif)."""
import json
import logging
import math
import os
import random
import struct
import sys

logging.disable(logging.CRITICAL)
import warnings  # noqa: E402
warnings.filterwarnings('ignore')
import numpy as np  # noqa: E402
np.seterr(all='ignore')

SEED = int(os.environ.get('VERIF_SEED', '0') or 0)
TIER = os.environ.get('VERIF_TIER', 'quick')
QUICK = not TIER.startswith('t')


def rng(tag=''):
    return random.Random('%d/%s' % (SEED, tag))


def key(x):
    x = float(x)
    if math.isnan(x):
        return None
    b = struct.unpack('<q', struct.pack('<d', x))[0]
    if b >= 0:
        return b
    return -(b & 0x7fffffffffffffff) - 1


def unkey(k):
    if k is None:
        return float('nan')
    if k >= 0:
        return struct.unpack('<d', struct.pack('<q', k))[0]
    return struct.unpack('<d', struct.pack('<Q', (-(k + 1)) | (1 << 63)))[0]


def keys2d(a):
    a = np.asarray(a, dtype=float)
    if a.ndim == 1:
        return [key(v) for v in a]
    return [[key(v) for v in row] for row in a]


def arr_of_keys(rows):
    return np.array([[unkey(k) for k in r] for r in rows], dtype=float)


def nextafter(x, d):
    return float(np.nextafter(x, d))


def emit(obj):
    sys.stdout.write('@@JSON ' + json.dumps(obj, default=_default) + '\n')
    sys.stdout.flush()


def _default(o):
    if isinstance(o, (np.integer,)):
        return int(o)
    if isinstance(o, (np.floating,)):
        return float(o)
    if isinstance(o, np.ndarray):
        return o.tolist()
    return repr(o)


def payload():
    data = sys.stdin.read()
    return json.loads(data) if data.strip() else None


class ScriptedUniform:
    """Replaces np.random.uniform: answers come from `fn(low, high, n)`; every call is logged."""

    def __init__(self, fn):
        self.fn = fn
        self.calls = []
        self.orig = None

    def __call__(self, low=0.0, high=1.0, size=None):
        n = 1 if size is None else int(np.prod(size))
        vals = np.asarray(self.fn(low, high, n), dtype=float).reshape(-1)[:n]
        self.calls.append((low, high, size, vals.copy()))
        if size is None:
            return float(vals[0])
        return vals.reshape(size)

    def __enter__(self):
        self.orig = np.random.uniform
        np.random.uniform = self
        return self

    def __exit__(self, *a):
        np.random.uniform = self.orig


def exc_kind(ex):
    """Library typed errors -> short names; anything else -> 'Untyped:<class>'."""
    import opytimizer.utils.exception as e
    for name in ('ArgumentError', 'BuildError', 'SizeError', 'TypeError', 'ValueError'):
        if type(ex) is getattr(e, name):
            # a typed library error is a member of the library's own family: `except opytimizer.utils.exception.Error` must catch it
            # (and it must not have become a builtin ValueError/TypeError through a changed base class)
            base = getattr(e, 'Error', None)
            if base is not None and not isinstance(ex, base):
                return 'Untyped:%s-outside-the-library-Error-family' % name
            if isinstance(ex, (ValueError, TypeError, LookupError, ArithmeticError)):
                return 'Untyped:%s-is-a-builtin-%s' % (name, [b.__name__ for b in (ValueError, TypeError, LookupError, ArithmeticError) if isinstance(ex, b)][0])
            return name
    return 'Untyped:' + type(ex).__name__


def prior_tasks(wide=True):
    """Properties that quantify over histories of the PROCESS ("whatever ran earlier") are observed after this battery: one short task
    of several bundled optimizers through Opytimizer.start(), among them a relativistic swarm in a box so wide that its velocities pass the
    light-speed constant, and a gravitational search on a constant objective (0/0 in the masses).  What a task leaves behind in the
    process -- NumPy's error mode, print options, a cached constant, a spare deviate -- then meets the code under observation.  NumPy's
    global generator is restored afterwards.  A task that does not complete is not this harness's subject (C03)."""
    import importlib
    import numpy as np
    try:
        from opytimizer import Opytimizer
        from opytimizer.core.function import Function
        from opytimizer.spaces.search import SearchSpace
    except Exception:  # noqa: BLE001
        return
    st = np.random.get_state()
    jobs = [('pso', 'PSO', [-5.0, -5.0], [5.0, 5.0], lambda x: float(np.sum(x ** 2))),
            ('gsa', 'GSA', [0.0, 0.0], [1.0, 1.0], lambda x: np.float64(1.0)),
            ('hs', 'HS', [-1.0], [1.0], lambda x: float(np.sum(np.abs(x)))),
            ('cs', 'CS', [-5.0, -5.0], [5.0, 5.0], lambda x: float(np.sum(x ** 2)))]
    if wide:
        jobs.append(('rpso', 'RPSO', [-1e6, -1e6, -1e6], [1e6, 1e6, 1e6], lambda x: float(np.sum(x ** 2))))
    for k, (mod, cls, lb, ub, f) in enumerate(jobs):
        try:
            np.random.seed(100 + k)
            opt = getattr(importlib.import_module('opytimizer.optimizers.' + mod), cls)()
            sp = SearchSpace(n_agents=4, n_variables=len(lb), n_iterations=4, lower_bound=lb, upper_bound=ub)
            Opytimizer(space=sp, optimizer=opt, function=Function(pointer=f)).start()
        except Exception:  # noqa: BLE001
            pass
    np.random.set_state(st)
