"""C06 correspondence: real check_limits / constructors on key-encoded inputs."""
import itertools
import numpy as np
from harness import hlib
from harness.hlib import key, unkey, keys2d, nextafter

from opytimizer.core.agent import Agent
from opytimizer.spaces.search import SearchSpace
from opytimizer.spaces.hyper import HyperSpace
from opytimizer.spaces.tree import TreeSpace

INF = float('inf')
NAN = float('nan')
V = [-INF, -1e308, -1.5, nextafter(-1.0, -INF), -1.0, nextafter(-1.0, 0.0), -5e-324, -0.0, 0.0, 5e-324,
     nextafter(1.0, 0.0), 1.0, nextafter(1.0, 2.0), 2.5, 1e308, INF, NAN]


def laid_out(pos):
    """The position as an array of the declared shape in one of three memory layouts, chosen by the content (so that a replay of the
    same input uses the same one): C-contiguous, a row-strided view of a larger buffer (a warm start from a design matrix), Fortran order.
    Limit enforcement must not depend on it."""
    arr = np.array(pos, dtype=float)
    if arr.ndim != 2 or arr.size == 0:
        return arr
    flat = [v for v in arr.ravel() if v == v and abs(v) != float('inf')]
    pick = (7 * arr.shape[0] + arr.shape[1] + (int(min(abs(flat[0]), 1e6) * 10) if flat else 0)) % 3
    if pick == 1:
        big = np.full((2 * arr.shape[0], 2 * arr.shape[1]), 123.456)
        big[::2, ::2] = arr
        return big[::2, ::2]
    if pick == 2:
        return np.asfortranarray(arr)
    return arr


def run_agent(lbs, ubs, pos):
    a = Agent(n_variables=max(1, len(pos)), n_dimensions=max(1, len(pos[0]) if pos else 1))
    a.lb = np.array(lbs, dtype=float)
    a.ub = np.array(ubs, dtype=float)
    a.position = laid_out(pos)
    a.check_limits()
    return keys2d(a.position)


def run_space(cls, lbs, ubs, positions, int_bounds=False):
    nv = len(positions[0])
    kw = dict(n_agents=len(positions), n_variables=nv, n_iterations=1, lower_bound=[0] * nv, upper_bound=[1] * nv)
    if cls is HyperSpace:
        kw['n_dimensions'] = len(positions[0][0])
    s = cls(**kw)
    # bypass the size guard on purpose for mismatched-length cases: the loop semantics is what is compared
    s._lb = np.array(lbs, dtype=int if int_bounds else float)
    s._ub = np.array(ubs, dtype=int if int_bounds else float)
    for a, p in zip(s.agents, positions):
        a.position = laid_out(p)
    s.check_limits()
    return [keys2d(a.position) for a in s.agents]


def clip_oracle(lbs, ubs, pos, out, rerun):
    """The property itself, on the implementation's output (only where it speaks: lb <= ub, non-NaN x)."""
    for j, (rin, rout) in enumerate(zip(pos, out)):
        if j >= len(lbs) or j >= len(ubs):
            if [key(v) for v in rin] != list(rout):
                return 'row %d beyond the bounds was modified' % j
            continue
        lo, hi = lbs[j], ubs[j]
        if lo != lo or hi != hi or lo > hi:
            continue
        for x, ko in zip(rin, rout):
            if x != x:
                continue
            o = unkey(ko)
            if x < lo and not o == lo:
                return 'x=%r below lb=%r went to %r' % (x, lo, o)
            if x > hi and not o == hi:
                return 'x=%r above ub=%r went to %r' % (x, hi, o)
            if lo <= x <= hi and key(x) != ko:
                return 'in-range x=%r (bits %r) changed to %r' % (x, key(x), ko)
    if rerun != out:
        return 'not idempotent'
    return None


def clip_cases():
    r = hlib.rng('c06clip')
    cases = []
    # exhaustive over V^3: one agent per (lo, hi), one row holding every x
    for lo, hi in itertools.product(V, V):
        pos = [list(V)]
        cases.append({'target': 'agent', 'lbs': [key(lo)], 'ubs': [key(hi)], 'pos': keys2d(pos),
                      'out': run_agent([lo], [hi], pos), 'tag': 'grid'})
    n_rand = 300 if hlib.QUICK else 5000

    def rnd_float():
        c = r.random()
        if c < 0.15:
            return r.choice(V)
        if c < 0.5:
            return r.uniform(-10, 10)
        if c < 0.7:
            return r.uniform(-1, 1) * 10.0 ** r.randint(-300, 300)
        if c < 0.85:
            return float(r.randint(-5, 5))
        return r.uniform(0, 1)

    for i in range(n_rand):
        nv = r.randint(1, 4)
        nd = r.randint(1, 3)
        lbs, ubs = [], []
        for _ in range(nv):
            a, b = rnd_float(), rnd_float()
            if not (a != a or b != b) and a > b and r.random() < 0.9:
                a, b = b, a
            if r.random() < 0.1:
                b = a
            lbs.append(a)
            ubs.append(b)
        pos = []
        for j in range(nv):
            row = []
            for _ in range(nd):
                c = r.random()
                lo, hi = lbs[j], ubs[j]
                if c < 0.2:
                    row.append(rnd_float())
                elif c < 0.3:
                    row.append(lo)
                elif c < 0.4:
                    row.append(hi)
                elif c < 0.5 and lo == lo:
                    row.append(nextafter(lo, r.choice([-INF, INF])))
                elif c < 0.6 and hi == hi:
                    row.append(nextafter(hi, r.choice([-INF, INF])))
                elif lo == lo and hi == hi and abs(lo) < 1e300 and abs(hi) < 1e300:
                    row.append(lo + (hi - lo) * r.uniform(-0.5, 1.5))
                else:
                    row.append(rnd_float())
            pos.append(row)
        which = r.choice(['agent', 'search', 'hyper', 'agent_short', 'search_int'])
        if which == 'agent':
            cases.append({'target': 'agent', 'lbs': [key(v) for v in lbs], 'ubs': [key(v) for v in ubs],
                          'pos': keys2d(pos), 'out': run_agent(lbs, ubs, pos), 'tag': 'random'})
        elif which == 'agent_short':
            k = r.randint(0, nv)
            k2 = r.randint(0, nv)
            cases.append({'target': 'agent', 'lbs': [key(v) for v in lbs[:k]], 'ubs': [key(v) for v in ubs[:k2]],
                          'pos': keys2d(pos), 'out': run_agent(lbs[:k], ubs[:k2], pos), 'tag': 'short-bounds'})
        elif which == 'search':
            outs = run_space(SearchSpace, lbs, ubs, [pos, pos[::-1] if nv == len(pos) else pos])
            p2 = pos[::-1]
            cases.append({'target': 'search', 'lbs': [key(v) for v in lbs], 'ubs': [key(v) for v in ubs],
                          'pos': keys2d(pos), 'out': outs[0], 'tag': 'random'})
            cases.append({'target': 'search', 'lbs': [key(v) for v in lbs], 'ubs': [key(v) for v in ubs],
                          'pos': keys2d(p2), 'out': outs[1], 'tag': 'random-second-agent'})
        elif which == 'search_int':
            il = [r.randint(-5, 2) for _ in range(nv)]
            iu = [l + r.randint(0, 6) for l in il]
            outs = run_space(SearchSpace, il, iu, [pos], int_bounds=True)
            cases.append({'target': 'search', 'lbs': [key(v) for v in il], 'ubs': [key(v) for v in iu],
                          'pos': keys2d(pos), 'out': outs[0], 'tag': 'int-bounds'})
        else:
            outs = run_space(HyperSpace, lbs, ubs, [pos])
            cases.append({'target': 'hyper', 'lbs': [key(v) for v in lbs], 'ubs': [key(v) for v in ubs],
                          'pos': keys2d(pos), 'out': outs[0], 'tag': 'random'})
    for c in cases:
        lbs = [unkey(k) for k in c['lbs']]
        ubs = [unkey(k) for k in c['ubs']]
        if c['target'] == 'hyper':
            lbs = [0.0] * len(lbs)
            ubs = [1.0] * len(ubs)
        pos = [[unkey(k) for k in row] for row in c['pos']]
        again = run_agent(lbs, ubs, [[unkey(k) for k in row] for row in c['out']]) if c['target'] == 'agent' else c['out']
        c['oracle'] = clip_oracle(lbs, ubs, pos, c['out'], again)
    return cases


def ctor_oracle(kind, na, nv, nd, ni, lb, ub, res):
    def okint(v):
        return isinstance(v, int) and v > 0
    valid = all(okint(v) for v in (na, nv, nd, ni)) and len(lb) == int(nv) and len(ub) == int(nv) if okint(nv) else False
    if not valid:
        if 'err' not in res:
            return 'invalid arguments accepted'
        if res['err'] not in ('TypeError', 'ValueError', 'SizeError'):
            return 'invalid arguments raised %s instead of a typed error' % res['err']
        return None
    if 'err' in res:
        return 'valid arguments rejected with %s: %s' % (res['err'], res.get('msg'))
    if res['n_agents'] != int(na):
        return 'population size %r != %r' % (res['n_agents'], na)
    if not res['best_distinct']:
        return 'best agent shares storage with an agent'
    try:
        [unkey(k) for k in res['space_lb']], [unkey(k) for k in res['space_ub']]
    except TypeError:
        return 'the space\'s bounds are not vectors of n_variables numbers: lb %r, ub %r (declared %r / %r)' % (res['space_lb'], res['space_ub'], list(lb), list(ub))
    if [unkey(k) for k in res['space_lb']] != [float(v) for v in lb] or [unkey(k) for k in res['space_ub']] != [float(v) for v in ub]:
        return 'the space\'s bounds %r / %r differ from the declared bounds %r / %r' % (
            [unkey(k) for k in res['space_lb']], [unkey(k) for k in res['space_ub']], list(lb), list(ub))
    # a tree space also places its terminals (the constants of the expressions) in the declared box, with the box as their bounds
    for ti, a in enumerate(res.get('terminals', [])):
        if [unkey(k) for k in a['lb']] != list(lb) or [unkey(k) for k in a['ub']] != list(ub):
            return 'terminal %d carries bounds %r / %r instead of the declared %r / %r' % (ti, [unkey(k) for k in a['lb']], [unkey(k) for k in a['ub']], list(lb), list(ub))
        for j, row in enumerate(a['pos']):
            for k in row:
                x = unkey(k)
                if not (lb[j] <= x <= ub[j]):
                    return 'initial coordinate %r of terminal %d outside [%r, %r]' % (x, ti, lb[j], ub[j])
    for a, shp in zip(res['agents'], res['shapes']):
        if shp != [int(nv), int(nd)]:
            return 'shape %r' % shp
        elb = [0.0] * int(nv) if kind == 'hyper' else list(lb)
        eub = [1.0] * int(nv) if kind == 'hyper' else list(ub)
        if [unkey(k) for k in a['lb']] != elb or [unkey(k) for k in a['ub']] != eub:
            return 'agent bounds differ from the box it is clipped to'
        for j, row in enumerate(a['pos']):
            for k in row:
                x = unkey(k)
                if not (elb[j] <= x <= eub[j]):
                    return 'initial coordinate %r outside [%r, %r]' % (x, elb[j], eub[j])
    return None


def ctor_build(kind, na, nv, nd, ni, lb, ub):
    try:
        if kind == 'search':
            s = SearchSpace(n_agents=na, n_variables=nv, n_iterations=ni, lower_bound=lb, upper_bound=ub)
        elif kind == 'hyper':
            s = HyperSpace(n_agents=na, n_variables=nv, n_dimensions=nd, n_iterations=ni, lower_bound=lb, upper_bound=ub)
        else:
            s = TreeSpace(n_trees=na, n_terminals=2, n_variables=nv, n_iterations=ni, min_depth=1, max_depth=2,
                          functions=['SUM'], lower_bound=lb, upper_bound=ub)
        return {'terminals': [{'pos': keys2d(a.position), 'lb': keys2d(a.lb), 'ub': keys2d(a.ub)} for a in getattr(s, 'terminals', [])],
                'agents': [{'pos': keys2d(a.position), 'lb': keys2d(a.lb), 'ub': keys2d(a.ub)} for a in s.agents],
                'space_lb': keys2d(s.lb), 'space_ub': keys2d(s.ub), 'n_agents': len(s.agents),
                'best_distinct': all(s.best_agent is not a and not np.shares_memory(s.best_agent.position, a.position) for a in s.agents),
                'shapes': [list(a.position.shape) for a in s.agents]}
    except Exception as ex:  # noqa: BLE001
        return {'err': hlib.exc_kind(ex), 'msg': str(ex)[:200]}


def enc(v):
    if isinstance(v, bool):
        return {'bool': v}
    if isinstance(v, int):
        return {'int': v}
    return 'other'


def ctor_cases():
    r = hlib.rng('c06ctor')
    sizes_ok = [1, 2, 3, True]
    sizes_bad = [0, -1, 1.0, '1', None, False, [1]]
    cases = []
    combos = []
    for kind in ('search', 'hyper', 'tree'):
        for na, nv, nd in itertools.product([1, 2, 3], [1, 2, 3], [1, 2, 3] if kind == 'hyper' else [1]):
            combos.append((kind, na, nv, nd, 2, 0, 0))
        for bad in sizes_bad:
            for slot in range(4):
                args = [2, 2, 2 if kind == 'hyper' else 1, 2]
                args[slot] = bad
                if kind != 'hyper' and slot == 2:
                    continue
                combos.append((kind, args[0], args[1], args[2], args[3], 0, 0))
        for dl, du in [(1, 0), (0, 1), (-1, 0), (0, -1), (1, 1), (-1, 1)]:
            combos.append((kind, 2, 2, 2 if kind == 'hyper' else 1, 2, dl, du))
        combos.append((kind, True, 2, 2 if kind == 'hyper' else 1, 3, 0, 0))
    if hlib.QUICK:
        r.shuffle(combos)
        combos = combos[:120]
    # empty bound lists (a falsy argument: `x or default` would swallow it), always run, after the sampled combinations
    for kind in ('search', 'hyper', 'tree'):
        nd = 2 if kind == 'hyper' else 1
        combos += [(kind, 2, 1, nd, 2, -1, 0), (kind, 2, 1, nd, 2, 0, -1), (kind, 1, 1, nd, 1, -1, -1), (kind, 2, 2, nd, 2, -2, 0), (kind, 2, 2, nd, 2, 0, -2)]
    # bounds given as tuples or NumPy arrays instead of lists (valid: they are converted with np.asarray), right and wrong lengths
    bkinds = {}
    for kind in ('search', 'hyper', 'tree'):
        nd = 2 if kind == 'hyper' else 1
        for bk in ('tuple', 'array'):
            for (nv_, dl_, du_) in ((1, 0, 0), (2, 0, 0), (1, 1, 0), (1, 0, 2), (2, -1, 0)):
                bkinds[len(combos)] = bk
                combos.append((kind, 2, nv_, nd, 2, dl_, du_))
    for ci, (kind, na, nv, nd, ni, dl, du) in enumerate(combos):
        nvi = nv if isinstance(nv, int) and not isinstance(nv, bool) and nv > 0 else 2
        lb = [r.choice([-10.0, 0.0, -1e-3, 5.0, -1e6]) for _ in range(max(0, nvi + dl))]
        ub = [(lb[j] if j < len(lb) else 0.0) + r.choice([0.0, 1.0, 1e-9, 20.0, 1e6]) for j in range(max(0, nvi + du))]
        # bound lists of mixed Python types: all-int lower bounds with fractional upper bounds (and vice versa), int/int
        typing = r.choice(['float', 'float', 'int_lb', 'int_ub', 'int_both'])
        if typing in ('int_lb', 'int_both'):
            lb = [int(r.choice([-10, 0, -3, 5, 2])) for _ in lb]
            ub = [(lb[j] if j < len(lb) else 0) + r.choice([0.75, 2.5, 0.5, 20.25, 1e-3] if typing == 'int_lb' else [0, 1, 20, 3]) for j in range(len(ub))]
        elif typing == 'int_ub':
            ub = [int(r.choice([7, 10, 12, 100])) for _ in ub]
            lb = [(ub[j] if j < len(ub) else 0) - r.choice([0.75, 2.5, 0.5, 20.25, 1e-3]) for j in range(len(lb))]
        mode = r.choice(['low', 'high', 'mid', 'rand'])

        def fn(low, high, n, mode=mode):
            low = float(np.asarray(low).reshape(-1)[0])
            high = float(np.asarray(high).reshape(-1)[0])
            if mode == 'low':
                return [low] * n
            if mode == 'high':
                return [nextafter(high, low) if high > low else low] * n
            if mode == 'mid':
                return [low + (high - low) * 0.5] * n
            return [low + (high - low) * r.random() for _ in range(n)]

        res = {}
        lb_arg, ub_arg = lb, ub
        if bkinds.get(ci) == 'tuple':
            lb_arg, ub_arg = tuple(lb), tuple(ub)
        elif bkinds.get(ci) == 'array':
            lb_arg, ub_arg = np.array(lb, dtype=float), np.array(ub, dtype=float)
        with hlib.ScriptedUniform(fn) as su:
            res = ctor_build(kind, na, nv, nd, ni, lb_arg, ub_arg)
            draws = [[key(v) for v in c[3]] for c in su.calls]
        res_oracle = ctor_oracle(kind, na, nv, nd, ni, lb, ub, res)
        cases.append({'kind': kind, 'oracle': res_oracle, 'n_agents': enc(na), 'n_vars': enc(nv), 'n_dims': enc(nd), 'n_iters': enc(ni),
                      'lb': [key(v) for v in lb], 'ub': [key(v) for v in ub], 'draws': draws, 'res': res,
                      'raw': [repr(na), repr(nv), repr(nd), repr(ni), len(lb), len(ub), mode, typing, repr(lb), repr(ub), bkinds.get(ci, 'list')]})
    return cases


if __name__ == '__main__':
    hlib.emit({'clip': clip_cases(), 'ctor': ctor_cases()})
