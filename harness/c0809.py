"""C08 / C09 harness: real Node graphs, real grow/_mutate/_cross/_reproduction/run with scripted randomness.

For every case it emits (a) the canonical serialisation of the object graph after the call (compared inside Coq
with the model's, Model/TreeHeapSer.v) and (b) the verdict of the property oracle evaluated on the
implementation: an independent well-formedness / disjointness checker, parents-untouched comparison of the
graph before and after, and a slot-exchange check against an independent path-based reference.

stdin: {"mode": "cases", "tier": ...} | {"mode": "replay", "case": {...}}"""
import itertools
import os
import sys

import numpy as np

from harness import hlib

import opytimizer.math.random as omr
import opytimizer.utils.constants as oc
from opytimizer.core.function import Function
from opytimizer.core.node import Node
from opytimizer.optimizers.gp import GP
from opytimizer.spaces.tree import TreeSpace

OPS = ['SUM', 'SUB', 'MUL', 'DIV', 'EXP', 'SQRT', 'LOG', 'ABS', 'SIN', 'COS']
EXC = [[777]]
BUDGET = 400          # nodes per traversal before a graph is declared cyclic


class ScriptExhausted(BaseException):
    pass


class Script:
    """Scripted generate_uniform_random_number / np.random.choice."""

    def __init__(self, draws=(), picks=()):
        self.draws = [tuple(d) for d in draws]
        self.picks = list(picks)
        self.nd = 0
        self.np_ = 0
        self.nc = 0

    def uniform(self, low=0.0, high=1.0, size=None):
        if self.content_draw(size):
            self.nc += 1
            n = 1 if size is None else int(np.prod(size))
            v = low + (high - low) * (((7 * self.nc + 3) % 16) / 16.0)
            return np.full(n, v, dtype=float)
        if self.nd >= len(self.draws):
            raise ScriptExhausted('draws')
        n, d = self.draws[self.nd]
        self.nd += 1
        return np.array([low + ((high - low) * n) / d], dtype=float)

    @staticmethod
    def content_draw(size):
        """A draw that fills position arrays (contents are not part of C08/C09) as opposed to a draw that selects
        a node / a point.  It is one iff it is made, through whatever helpers, on behalf of
        _initialize_terminals / _initialize_agents (any frame between the call and this harness), or -- should
        those entry points disappear -- from any `*initialize*` routine."""
        f = sys._getframe(2)
        here = __file__
        while f is not None and f.f_code.co_filename != here:
            name = f.f_code.co_name
            if name in ('_initialize_terminals', '_initialize_agents') or 'initialize' in name:
                return True
            f = f.f_back
        return False

    def choice(self, a, *args, **kw):
        if self.np_ >= len(self.picks):
            raise ScriptExhausted('picks')
        i = self.picks[self.np_]
        self.np_ += 1
        return np.asarray(a)[i]

    def __enter__(self):
        self.o_u, self.o_c, self.o_nu = omr.generate_uniform_random_number, np.random.choice, np.random.uniform
        omr.generate_uniform_random_number = self.uniform
        np.random.choice = self.choice
        return self

    def __exit__(self, *a):
        omr.generate_uniform_random_number, np.random.choice = self.o_u, self.o_c

    def rest(self):
        return len(self.draws) - self.nd


# ---------------------------------------------------------------------------- fixtures

def make_space(n_trees, nt, funs, min_depth, max_depth, n_iter=1, script=None):
    """funs: operator indices.  Without a script the initial trees are single terminals."""
    names = [OPS[i] for i in funs]
    if script is None:
        nf = len(funs)
        script = Script([(nf, nf + nt) if min_depth < max_depth else (0, 1)] * n_trees)
        with script:
            return TreeSpace(n_trees=n_trees, n_terminals=nt, n_variables=2, n_iterations=n_iter,
                             min_depth=min_depth, max_depth=max_depth, functions=names,
                             lower_bound=[0, 0], upper_bound=[1, 1])
    return TreeSpace(n_trees=n_trees, n_terminals=nt, n_variables=2, n_iterations=n_iter,
                     min_depth=min_depth, max_depth=max_depth, functions=names,
                     lower_bound=[0, 0], upper_bound=[1, 1])


def live_space(c, n_trees=1, n_iter=1, script=None):
    """The space of a case.  With `funs0` the space is BUILT with the function set funs0 and `functions` is
    re-assigned (or rewritten in place) to `funs` afterwards: a history on a live space."""
    sp = make_space(n_trees, c['nt'], c.get('funs0', c['funs']), c['min'], c['max'], n_iter=n_iter, script=script)
    if 'funs0' in c:
        names = [OPS[i] for i in c['funs']]
        if c.get('inplace'):
            sp.functions[:] = names
        else:
            sp.functions = names
    return sp


def build(shape, space):
    if shape[0] == 'T':
        return Node(name=shape[1], type='TERMINAL', value=space.terminals[shape[1]].position)
    n = Node(name=OPS[shape[1]], type='FUNCTION')
    x = build(shape[2], space)
    n.left = x
    x.parent = n
    if shape[0] == 'B':
        y = build(shape[3], space)
        n.right = y
        y.parent = n
        y.flag = False
    return n


def shape_size(s):
    return 1 if s[0] == 'T' else 1 + sum(shape_size(c) for c in s[2:])


def label_shape(skel, nt):
    """skel: 'T' | ('U', a) | ('B', a, b) -> shape with distinct labels in pre-order where possible."""
    cnt = {'t': 0, 'u': 0, 'b': 0}

    def go(s):
        if s == 'T':
            k = cnt['t'] % nt
            cnt['t'] += 1
            return ('T', k)
        if s[0] == 'U':
            op = 4 + cnt['u'] % 6
            cnt['u'] += 1
            return ('U', op, go(s[1]))
        op = cnt['b'] % 4
        cnt['b'] += 1
        a = go(s[1])
        return ('B', op, a, go(s[2]))
    return go(skel)


def skeletons(depth):
    if depth == 0:
        return ['T']
    sub = skeletons(depth - 1)
    return ['T'] + [('U', a) for a in sub] + [('B', a, b) for a in sub for b in sub]


# ---------------------------------------------------------------------------- canonical serialisation

class Cyclic(Exception):
    pass


def pre(root):
    out = []

    def go(n):
        if len(out) > BUDGET:
            raise Cyclic()
        out.append(n)
        if isinstance(n.left, Node):
            go(n.left)
        if isinstance(n.right, Node):
            go(n.right)
    go(root)
    return out


def lab_code(n):
    if n.type == 'TERMINAL':
        return 2 * int(n.name)
    return 2 * OPS.index(n.name) + 1


def ser(space, roots):
    try:
        pres = [pre(r) for r in roots]
    except (Cyclic, RecursionError):
        return [[888]]
    G = {}
    for p in pres:
        for n in p:
            G.setdefault(id(n), len(G))
    A = {}
    for t in space.terminals:
        A.setdefault(id(t.position), len(A))
    order = sorted(G.items(), key=lambda kv: kv[1])
    byid = {}
    for p in pres:
        for n in p:
            byid[id(n)] = n
    for i, _ in order:
        v = byid[i].value
        if v is not None:
            A.setdefault(id(v), len(A))

    def ptr(tab, x):
        if x is None:
            return 0
        return tab[id(x)] + 2 if id(x) in tab else 1
    out = []
    for p in pres:
        row = []
        for n in p:
            row += [ptr(G, n), lab_code(n), ptr(G, n.left), ptr(G, n.right), ptr(G, n.parent),
                    1 if n.flag else 0, ptr(A, n.value)]
        out.append(row)
    return out


# ---------------------------------------------------------------------------- independent oracle

def snap(root):
    """Field-level snapshot of everything reachable through child pointers (object ids included)."""
    try:
        return [(id(n), n.type, n.name, id(n.left) if n.left is not None else None,
                 id(n.right) if n.right is not None else None, id(n.parent) if n.parent is not None else None,
                 n.flag, id(n.value) if n.value is not None else None) for n in pre(root)]
    except (Cyclic, RecursionError):
        return 'cyclic'


def node_ids(root):
    seen = {}
    stack = [root]
    while stack and len(seen) <= BUDGET:
        n = stack.pop()
        if id(n) in seen:
            continue
        seen[id(n)] = n
        for c in (n.left, n.right):
            if isinstance(c, Node):
                stack.append(c)
    return set(seen)


def check_wf(root, space):
    """C08's definition of a proper expression tree, checked without using any method of Node."""
    if not isinstance(root, Node):
        return 'not a Node: %r' % (root,)
    if root.parent is not None:
        return 'the root has a parent'
    shape = (space.n_variables, space.n_dimensions)
    seen = set()
    stack = [root]
    while stack:
        n = stack.pop()
        if id(n) in seen:
            return 'node %r is reachable twice' % (n,)
        seen.add(id(n))
        if len(seen) > BUDGET:
            return 'more than %d nodes' % BUDGET
        for c, side in ((n.left, True), (n.right, False)):
            if c is None:
                continue
            if not isinstance(c, Node):
                return 'child of %r is not a Node' % (n,)
            if c.parent is not n:
                return 'parent link of %r (%s child of %r) does not point to the node it hangs under' % (
                    c, 'left' if side else 'right', n)
            if c.flag is not side:
                return 'flag of %r is %r but it is the %s child of %r' % (c, c.flag, 'left' if side else 'right', n)
        if n.type == 'FUNCTION':
            ar = oc.N_ARGS_FUNCTION.get(n.name)
            have = (n.left is not None, n.right is not None)
            want = {1: (True, False), 2: (True, True)}.get(ar)
            if want is None or have != want:
                return 'function %r (arity %r) has children left=%s right=%s' % (n, ar, have[0], have[1])
            if n.value is not None:
                return 'function node holds a value'
        elif n.type == 'TERMINAL':
            if n.left is not None or n.right is not None:
                return 'terminal %r has a child' % (n,)
            if not isinstance(n.value, np.ndarray) or n.value.shape != shape:
                return 'terminal %r does not hold an array of shape %r' % (n, shape)
        else:
            return 'unknown node type'
        # right first so that the traversal order is the pre-order (irrelevant for the verdict)
        if n.right is not None:
            stack.append(n.right)
        if n.left is not None:
            stack.append(n.left)
    return None


def check_population(space, roots_named, inputs=()):
    """roots_named: [(name, root)].  Every root well formed, no node shared between two of them.
    Roots named in `inputs` are fixtures built by this harness, not by the code under test: they take part in
    the sharing check only."""
    owner = {}
    for name, r in roots_named:
        w = None if name in inputs else check_wf(r, space)
        if w:
            return '%s: %s' % (name, w)
        for i in node_ids(r):
            if i in owner:
                return 'a node is shared between %s and %s' % (owner[i], name)
            owner[i] = name
    return None


def levels(root):
    best = 0
    stack = [(root, 1)]
    cnt = 0
    while stack:
        n, d = stack.pop()
        cnt += 1
        if cnt > BUDGET:
            return BUDGET
        best = max(best, d)
        for c in (n.left, n.right):
            if isinstance(c, Node):
                stack.append((c, d + 1))
    return best


def vtree(n, budget=None):
    """functional tree with the terminal VALUES attached to the labels"""
    budget = budget if budget is not None else [BUDGET]
    if n is None:
        return None
    budget[0] -= 1
    if budget[0] < 0:
        raise Cyclic()
    lab = ('T', int(n.name), np.asarray(n.value).tobytes().hex()) if n.type == 'TERMINAL' else ('F', n.name)
    return (lab, vtree(n.left if isinstance(n.left, Node) else None, budget),
            vtree(n.right if isinstance(n.right, Node) else None, budget))


def ltree(n, budget=None):
    """labels-only functional tree read through the child pointers"""
    budget = budget if budget is not None else [BUDGET]
    if n is None:
        return None
    budget[0] -= 1
    if budget[0] < 0:
        raise Cyclic()
    lab = ('T', int(n.name)) if n.type == 'TERMINAL' else ('F', n.name)
    return (lab, ltree(n.left if isinstance(n.left, Node) else None, budget),
            ltree(n.right if isinstance(n.right, Node) else None, budget))


def lt_of_shape(s):
    if s[0] == 'T':
        return (('T', s[1]), None, None)
    if s[0] == 'U':
        return (('F', OPS[s[1]]), lt_of_shape(s[2]), None)
    return (('F', OPS[s[1]]), lt_of_shape(s[2]), lt_of_shape(s[3]))


def lt_paths(t, path=()):
    out = [(path, t)]
    if t[1] is not None:
        out += lt_paths(t[1], path + ('L',))
    if t[2] is not None:
        out += lt_paths(t[2], path + ('R',))
    return out


def lt_get(t, path):
    for s in path:
        t = t[1] if s == 'L' else t[2]
    return t


def lt_put(t, path, b):
    if not path:
        return b
    if path[0] == 'L':
        return (t[0], lt_put(t[1], path[1:], b), t[2])
    return (t[0], t[1], lt_put(t[2], path[1:], b))


def lt_labels(t):
    return sorted(repr(x[1][0]) for x in lt_paths(t))


def ref_slot(t, p):
    """The slot (a non-empty path) selected by position p: the node itself if it is a terminal, the slot its
    parent hangs in if it is a function; None when there is none."""
    nodes = lt_paths(t)
    if p >= len(nodes):
        return None
    path, n = nodes[p]
    if n[0][0] == 'T':
        return path if len(path) >= 1 else None
    if len(path) == 0:
        return 'error'
    return path[:-1] if len(path) >= 2 else None


def ref_grow(d, draws, funs, nt):
    """Independent GROW from the script of fractions; consumes from the list."""
    n, den = draws.pop(0)
    if d == 0:
        return (('T', (nt * n) // den), None, None)
    v = ((len(funs) + nt) * n) // den
    if v >= len(funs):
        return (('T', v - len(funs)), None, None)
    name = OPS[funs[v]]
    kids = [ref_grow(d - 1, draws, funs, nt) for _ in range(oc.N_ARGS_FUNCTION[name])]
    return (('F', name), kids[0] if kids else None, kids[1] if len(kids) > 1 else None)


def pt(lo, hi, u):
    return lo + ((hi - lo) * u[0]) // u[1]


# ---------------------------------------------------------------------------- case runners

def guarded(f):
    """(result, None) or (None, exception-name)."""
    try:
        return f(), None
    except ScriptExhausted as ex:
        return None, 'ScriptExhausted:' + str(ex)
    except RecursionError:
        return None, 'RecursionError'
    except Exception as ex:      # noqa
        return None, type(ex).__name__ + ': ' + str(ex)[:120]


def run_find(c):
    sp = make_space(1, c['nt'], [0], 1, 1)
    t = build(c['shape'], sp)
    r, exc = guarded(lambda: t.find_node(c['p']))
    if exc:
        c['exp'] = EXC
        c['exc'] = exc
    else:
        G = {id(n): i for i, n in enumerate(pre(t))}
        c['exp'] = [[0 if r[0] is None else (G[id(r[0])] + 2 if id(r[0]) in G else 1), 1 if r[1] else 0]]


def run_deepcopy(c):
    import copy
    sp = make_space(1, c['nt'], [0], 1, 1)
    t = build(c['shape'], sp)
    fixture_ok = check_wf(t, sp) is None       # the fixture is ours: if the arity table no longer admits it, C08 is silent here
    before = snap(t)
    cp, exc = guarded(lambda: copy.deepcopy(t))
    if exc:
        c['exp'], c['exc'] = EXC, exc
        return
    c['exp'] = ser(sp, [t, cp])
    # property part (the best tree is a deep copy): well formed, disjoint, same labels, source untouched
    o = check_population(sp, [('source', t), ('copy', cp)], inputs=('source',))
    if not o and ltree(cp) != ltree(t):
        o = 'the copy differs from its source'
    if not o and snap(t) != before:
        o = 'deepcopy modified its source'
    c['o8'] = o if fixture_ok else None
    if not o and fixture_ok:
        # a copy holds what its source holds: terminal arrays of other element types than the float64 a TreeSpace creates (float32,
        # float16, extended precision, integers) are copied with their type, shape and exact elements
        for dt in ('float32', 'float16', 'longdouble', 'int64'):
            t2 = build(c['shape'], sp)
            for n in pre(t2):
                if n.type == 'TERMINAL':
                    n.value = (np.asarray(n.value, dtype=float) * 1.37 + 0.1).astype(dt)
            cp2, exc2 = guarded(lambda: copy.deepcopy(t2))
            if exc2:
                o = 'deepcopy of a tree with %s terminals raised %s' % (dt, exc2)
                break
            bad = [(a.value.dtype, b.value.dtype) for a, b in zip(pre(t2), pre(cp2)) if a.type == 'TERMINAL' and not (
                isinstance(b.value, np.ndarray) and a.value.dtype == b.value.dtype and a.value.shape == b.value.shape
                and bool(np.array_equal(a.value, b.value)))]
            if bad or len(pre(t2)) != len(pre(cp2)):
                o = 'deepcopy of a tree with %s terminals: the copy holds %s where the source holds %s' % (dt, bad[0][1] if bad else 'other nodes', bad[0][0] if bad else dt)
                break
        if o:
            c['o8'] = c['o9'] = o


def run_grow(c):
    sp = live_space(c)
    gmin, gmax = sp.min_depth, sp.max_depth
    if c.get('deeper_space'):
        # grow(min_depth, max_depth) is a public method with its own arguments: called with a smaller max_depth than the space's own
        # (the space allows deeper trees than this call asks for)
        try:
            sp.max_depth = gmax + int(c['deeper_space'])
        except Exception:  # noqa: BLE001
            pass
    s = Script(c['ds'])
    with s:
        t, exc = guarded(lambda: sp.grow(gmin, gmax))
    if exc:
        c['exp'], c['exc'] = EXC, exc
        c['o8'] = 'grow raised ' + exc
        return
    c['exp'] = ser(sp, [t]) + [[s.rest()]]
    c['nontrivial'] = t.type == 'FUNCTION'
    o = check_wf(t, sp)
    if not o and levels(t) > c['max']:
        o = 'freshly grown tree has %d levels, max_depth = %d' % (levels(t), c['max'])
    c['o8'] = o


def run_mutate(c):
    sp = live_space(c)
    t = build(c['shape'], sp)
    fixture_ok = check_wf(t, sp) is None
    before = snap(t)
    lt0 = ltree(t)
    gp = GP()
    s = Script(c['ds'])
    grown = spy_grow(sp)
    with s:
        m, exc = guarded(lambda: gp._mutate(sp, t, c['maxn']))
    if exc:
        c['exp'], c['exc'] = EXC, exc
        c['o8'] = c['o9'] = '_mutate raised ' + exc
        return
    if not isinstance(m, Node):
        c['exp'] = [[889]]
        c['o8'] = c['o9'] = '_mutate did not return a Node'
        return
    c['exp'] = ser(sp, [t, m]) + [[s.rest()]]
    c['o8'] = check_population(sp, [('parent', t), ('mutated', m)], inputs=('parent',)) if fixture_ok else None
    c['o9'] = oracle_mutate(c, t, before, lt0, m, grown)


def spy_grow(sp):
    """Records what the outermost calls of sp.grow return (behaviour unchanged)."""
    real = sp.grow
    rec = {'depth': 0, 'out': []}

    def grow(*a, **kw):
        rec['depth'] += 1
        try:
            r = real(*a, **kw)
        finally:
            rec['depth'] -= 1
        if rec['depth'] == 0:
            rec['out'].append(r)
        return r
    sp.grow = grow
    return rec['out']


def oracle_mutate(c, t, before, lt0, m, grown):
    if snap(t) != before:
        return 'the parent was modified'
    if node_ids(m) & node_ids(t):
        return 'the result shares nodes with the parent'
    p = pt(2, c['maxn'], tuple(c['ds'][0]))
    slot = ref_slot(lt0, p)
    c['nontrivial'] = slot not in (None, 'error')
    if slot == 'error':
        return None
    if len(grown) != 1 or not isinstance(grown[0], Node):
        return 'mutation grew %d trees instead of one' % len(grown)
    if slot is None:
        if m is not grown[0]:
            return 'mutation point %d selects no slot but the result is not the freshly grown tree' % p
        return None
    want = lt_put(lt0, slot, ltree(grown[0]))
    if ltree(m) != want:
        return 'mutation point %d (slot %s): result %r, expected %r' % (p, '/'.join(slot), ltree(m), want)
    at = m
    for step in slot:
        at = at.left if step == 'L' else at.right
    if at is not grown[0]:
        return 'the subtree in the selected slot is not the freshly grown one'
    return None


def run_cross(c):
    sp = make_space(1, c['nt'], [0], 1, 1)
    f = build(c['f'], sp)
    m = f if c.get('same') else build(c['m'], sp)
    fixture_ok = check_wf(f, sp) is None and check_wf(m, sp) is None
    bf, bm = snap(f), snap(m)
    lf, lm = ltree(f), ltree(m)
    gp = GP()
    s = Script(c['ds'])
    with s:
        r, exc = guarded(lambda: gp._cross(f, m, c['maxf'], c['maxm']))
    if exc:
        c['exp'], c['exc'] = EXC, exc
        c['o8'] = c['o9'] = '_cross raised ' + exc
        return
    if not (isinstance(r, tuple) and len(r) == 2 and isinstance(r[0], Node) and isinstance(r[1], Node)):
        c['exp'] = [[889]]
        c['o8'] = c['o9'] = '_cross did not return two Nodes'
        return
    fo, mo = r
    c['exp'] = ser(sp, ([f, fo, mo] if c.get('same') else [f, m, fo, mo])) + [[s.rest()]]
    o = None
    c['o8'] = check_population(sp, ([('father', f)] if c.get('same') else [('father', f), ('mother', m)])
                               + [('father_offspring', fo), ('mother_offspring', mo)], inputs=('father', 'mother'))
    if not fixture_ok:
        c['o8'] = None
    if snap(f) != bf or snap(m) != bm:
        o = 'a parent was modified'
    if not o and (node_ids(fo) | node_ids(mo)) & (node_ids(f) | node_ids(m)):
        o = 'an offspring shares nodes with a parent'
    if not o:
        pf, pm = pt(2, c['maxf'], tuple(c['ds'][0])), pt(2, c['maxm'], tuple(c['ds'][1]))
        sf, sm = ref_slot(lf, pf), ref_slot(lm, pm)
        c['nontrivial'] = sf not in (None, 'error') and sm not in (None, 'error')
        if sf != 'error' and sm != 'error':
            if sf is None or sm is None:
                wf_, wm_ = lf, lm
            else:
                wf_, wm_ = lt_put(lf, sf, lt_get(lm, sm)), lt_put(lm, sm, lt_get(lf, sf))
            if ltree(fo) != wf_ or ltree(mo) != wm_:
                o = 'points (%d,%d) slots (%s,%s): offspring %r / %r, expected %r / %r' % (
                    pf, pm, sf, sm, ltree(fo), ltree(mo), wf_, wm_)
            elif sorted(lt_labels(ltree(fo)) + lt_labels(ltree(mo))) != sorted(lt_labels(lf) + lt_labels(lm)):
                o = 'the multiset of nodes is not conserved'
            if not o and not c.get('same') and sf is not None and sm is not None and fixture_ok:
                # the same crossover on parents whose equally NAMED terminals hold different VALUES (the terminals of a space are
                # re-sampled by every grow(), so two trees of one population do): the exchanged branches carry their values along
                f2, m2 = build(c['f'], sp), build(c['m'], sp)
                for n_ in pre(m2):
                    if n_.type == 'TERMINAL':
                        n_.value = np.asarray(n_.value, dtype=float) + 100.0
                vf, vm = vtree(f2), vtree(m2)
                with Script(c['ds']):
                    r2, exc2 = guarded(lambda: gp._cross(f2, m2, c['maxf'], c['maxm']))
                if exc2 or not (isinstance(r2, tuple) and len(r2) == 2):
                    o = '_cross on parents with differently valued terminals raised %s' % exc2
                elif vtree(r2[0]) != lt_put(vf, sf, lt_get(vm, sm)) or vtree(r2[1]) != lt_put(vm, sm, lt_get(vf, sf)):
                    o = ('points (%d,%d) slots (%s,%s): with terminal values attached (mother\'s terminals hold other values than the '
                         'father\'s equally named ones) the offspring are not the parents with the two branches exchanged' % (pf, pm, sf, sm))
    c['o9'] = o


def case_codes(c):
    """float fitness -> the integer the model sees: the value itself for integer scripts, its rank code otherwise"""
    if 'ffits' in c:
        return fit_codes(c['ffits'])
    d = {float(f): int(f) for f in c['fits']}
    d[0.0] = 0
    return d


def fit_codes(floats):
    """Order- and equality-preserving integer codes of float fitnesses, with +-0.0 -> 0 (what `==`, `<`, min,
    argmax and the literal 0 of `fitness[worst] = 0` can observe)."""
    vals = sorted(set([0.0] + [float(f) + 0.0 for f in floats]))
    z = vals.index(0.0)
    return {v: i - z for i, v in enumerate(vals)}


def set_population(sp, shapes, fits):
    sp.trees = [build(s, sp) for s in shapes]
    for i, (a, f) in enumerate(zip(sp.agents, fits)):
        a.fit = float(f)
        a.position = np.full((sp.n_variables, sp.n_dimensions), float(i))


def ref_tournament(fits, n, picks, tsize):
    picks = list(picks)
    sel = []
    for _ in range(n):
        step = [fits[picks.pop(0)] for _ in range(tsize)]
        sel.append(fits.index(min(step)))
    return sel


def run_repro(c):
    n = len(c['fits'])
    sp = make_space(n, c['nt'], [0], 1, 1)
    real = c.get('ffits', c['fits'])
    code = case_codes(c)
    set_population(sp, c['shapes'], real)
    gp = GP(hyperparams={'p_reproduction': c['p']})
    old_t, old_a = list(sp.trees), list(sp.agents)
    fixture_ok = all(check_wf(t, sp) is None for t in old_t)
    before = [snap(t) for t in old_t]
    s = Script((), c['picks'])
    with s:
        _, exc = guarded(lambda: gp._reproduction(sp))
    if exc:
        c['exp'], c['exc'] = EXC, exc
        c['o8'] = c['o9'] = '_reproduction raised ' + exc
        return
    new_t, new_a = list(sp.trees), list(sp.agents)
    AG = {}
    for a in old_a + new_a:
        AG.setdefault(id(a), len(AG))
    ags = []
    for a in new_a:
        ags += [AG[id(a)] + 2, code.get(float(a.fit) + 0.0, 99999) + 1000, int(a.position.flat[0])]
    if any(not isinstance(t, Node) for t in new_t):
        c['exp'] = [[889]]
    else:
        c['exp'] = ser(sp, old_t + new_t) + [ags, [len(s.picks) - s.np_]]
    if len(new_t) != n or any(not isinstance(t, Node) for t in new_t):
        c['o8'] = 'space.trees is no longer a list of %d Nodes' % n
    else:
        c['o8'] = check_population(sp, [('tree %d' % i, t) for i, t in enumerate(new_t)]) if fixture_ok else None
    c['o9'], c['o9_kind'] = oracle_repro(c, sp, old_t, old_a, before, new_t, new_a)
    c['nontrivial'] = any(a is not b for a, b in zip(old_t, new_t))


def oracle_repro(c, sp, old_t, old_a, before, new_t, new_a):
    n = len(old_t)
    fits = [float(f) for f in c.get('ffits', c['fits'])]
    if len(new_t) != n or len(new_a) != n or any(not isinstance(t, Node) for t in new_t):
        return 'population size changed', 'other'
    if len(set(id(a) for a in new_a)) != n:
        return 'an agent object occurs twice', 'other'
    k = int(n * c['p'])
    winners = ref_tournament(fits, k, c['picks'], oc.TOURNAMENT_SIZE)
    old_ids = [node_ids(t) for t in old_t]
    all_old = set().union(*old_ids)
    W = []
    for i in range(n):
        if new_t[i] is old_t[i]:
            if snap(new_t[i]) != before[i]:
                return 'tree %d was edited in place' % i, 'other'
            if new_a[i] is not old_a[i]:
                return 'agent %d replaced but tree %d kept: pair broken' % (i, i), 'other'
            continue
        W.append(i)
        if node_ids(new_t[i]) & all_old:
            return 'new tree %d shares nodes with the old population (not a deep copy)' % i, 'other'
        if any(new_a[i] is a for a in old_a):
            return 'agent %d is an alias of an old agent (not a deep copy) or was not replaced with its tree' % i, 'other'
        src = int(new_a[i].position.flat[0])
        if not (0 <= src < n) or new_a[i].fit != fits[src] or not np.all(new_a[i].position == float(src)):
            return 'agent %d is not a copy of an agent' % i, 'other'
        if ltree(new_t[i]) != lt_of_shape(c['shapes'][src]):
            return 'tree %d and agent %d are copies of different individuals: pair broken' % (i, i), 'other'
        if src not in winners:
            return 'slot %d holds a copy of %d, which won no tournament (winners %r)' % (i, src, winners), 'other'
    for i in range(n):
        if new_t[i] is old_t[i] and int(new_a[i].position.flat[0]) != i:
            return 'agent %d was edited' % i, 'other'
    for w in W:
        for j in range(n):
            if j not in W and fits[j] > fits[w]:
                return 'slot %d (fitness %r) overwritten while worse-ranked %d (fitness %r) survives' % (
                    w, fits[w], j, fits[j]), 'other'
    if len(W) != min(k, n):
        kind = 'slot-reuse' if min(fits) <= 0 else 'other'
        return ('%d tournament winners but only slots %r overwritten (fitness %r): the same slot is overwritten '
                'again instead of the next-worst' % (k, W, fits)), kind
    return None, None


def run_gp(c):
    """A whole scripted GP.run: snapshots at every hook and at return."""
    s = Script(c['ds'], c['picks'])
    fits = list(c.get('ffits', c['fits']))
    code = case_codes(c)
    used = [0]

    def objective(x):
        if used[0] >= len(fits):
            raise ScriptExhausted('fits')
        used[0] += 1
        return float(fits[used[0] - 1])
    snaps = []
    oracle = [None]

    def take(sp, where):
        if any(not isinstance(t, Node) for t in [sp.best_tree] + list(sp.trees)):
            snaps.append([[889]])
        else:
            snaps.append(ser(sp, [sp.best_tree] + list(sp.trees)) + [[code.get(float(a.fit) + 0.0, 99999) + 1000 if a.fit < 1e300 else 1000 for a in sp.agents]])
        if oracle[0] is None:
            o = None
            if len(sp.trees) != c['n_trees'] or len(sp.agents) != c['n_trees']:
                o = 'population size is %d trees / %d agents' % (len(sp.trees), len(sp.agents))
            if not o:
                o = check_population(sp, [('best_tree', sp.best_tree)] + [('tree %d' % i, t) for i, t in enumerate(sp.trees)])
            if o:
                oracle[0] = '%s: %s' % (where, o)

    def hook(opt, sp, fn):
        take(sp, 'hook call %d' % len(snaps))
    with s:
        def go():
            sp = live_space(c, c['n_trees'], c['iters'], script=s)
            o = check_population(sp, [('best_tree', sp.best_tree)] + [('tree %d' % i, t) for i, t in enumerate(sp.trees)])
            if not o:
                for i, t in enumerate(sp.trees):
                    if levels(t) > c['max']:
                        o = 'initial tree %d has %d levels, max_depth = %d' % (i, levels(t), c['max'])
            if o:
                oracle[0] = 'after TreeSpace(): ' + o
            gp = GP(hyperparams={'p_reproduction': c['p_rep'], 'p_mutation': c['p_mut'], 'p_crossover': c['p_cross'],
                                 'prunning_ratio': c['ratio'][0] / c['ratio'][1]})
            hist = gp.run(sp, Function(pointer=objective), pre_evaluation_hook=hook)
            take(sp, 'at return')
            # saving the returned history is a read: the live trees (the last recorded best tree IS the space's best tree) must be as well
            # formed afterwards as before
            if oracle[0] is None:
                try:
                    import tempfile
                    with tempfile.TemporaryDirectory() as td:
                        hist.save(os.path.join(td, 'h.pkl'))
                    o2 = check_population(sp, [('best_tree', sp.best_tree)] + [('tree %d' % i, t) for i, t in enumerate(sp.trees)])
                    if o2:
                        oracle[0] = 'after history.save(): ' + o2
                except Exception:  # noqa: BLE001   (a save that raises is C19's subject)
                    pass
            return sp
        sp, exc = guarded(go)
    if exc:
        c['exp'], c['exc'] = EXC, exc
        if exc.startswith('ScriptExhausted'):
            c['skip'] = True
        c['o8'] = oracle[0] or (None if c.get('skip') else 'GP run raised ' + exc)
        return
    flat = []
    for sn in snaps:
        flat += sn
    c['exp'] = flat + [[len(s.picks) - s.np_, s.rest(), len(fits) - used[0]]]
    c['nontrivial'] = True
    c['o8'] = oracle[0]


def run_tourn(c):
    """general.tournament_selection called directly: every selected index must be a round winner."""
    import opytimizer.math.general as g
    real = [float(f) for f in c.get('ffits', c['fits'])]
    s = Script((), c['picks'])
    with s:
        sel, exc = guarded(lambda: g.tournament_selection(list(real), c['k']))
    if exc:
        c['exp'], c['exc'] = EXC, exc
        c['o9'] = 'tournament_selection raised ' + exc
        return
    sel = [int(x) for x in sel]
    c['exp'] = [sel, [len(s.picks) - s.np_]]
    c['nontrivial'] = len(set(real)) > 1
    want = ref_tournament(real, c['k'], c['picks'], oc.TOURNAMENT_SIZE)
    c['o9'] = None if sel == want else 'fitness %r, picks %r: selected %r but the round winners are %r' % (
        real, c['picks'], sel, want)


RUNNERS = {'tourn': run_tourn, 'find': run_find, 'deepcopy': run_deepcopy, 'grow': run_grow, 'mutate': run_mutate, 'cross': run_cross,
           'repro': run_repro, 'gp': run_gp}


# ---------------------------------------------------------------------------- case generation

def all_grow_scripts(d, nf, nt, arities):
    """Every script of draws (as exact fractions) that drives GROW with budget d, depth-first."""
    if d == 0:
        return [[(k, nt)] for k in range(nt)]
    out = [[(nf + k, nf + nt)] for k in range(nt)]
    sub = all_grow_scripts(d - 1, nf, nt, arities)
    for i, ar in enumerate(arities):
        for combo in itertools.product(sub, repeat=ar):
            out.append([(i, nf + nt)] + [x for part in combo for x in part])
    return out


def gen_cases(quick):
    r = hlib.rng('c0809')
    cases = []
    nt = 3
    sk2 = skeletons(2)
    sh2 = [label_shape(s, nt) for s in sk2]
    sk3 = skeletons(3)
    # find_node on every position (including the out-of-contract 0 and 1)
    for s in sh2:
        for p in range(0, shape_size(s) + 2):
            cases.append({'fam': 'find', 'nt': nt, 'shape': s, 'p': p})
    # deepcopy
    for s in sh2:
        cases.append({'fam': 'deepcopy', 'nt': nt, 'shape': s})
    for sk in r.sample(sk3, 30 if quick else 183):
        cases.append({'fam': 'deepcopy', 'nt': nt, 'shape': label_shape(sk, nt)})
    # grow: exhaustive over all outcomes for a unary+binary function set, depth budget 0..2
    funs = [1, 5]
    ar = [oc.N_ARGS_FUNCTION[OPS[i]] for i in funs]
    for (mn, mx) in ((1, 1), (2, 2), (1, 2), (2, 3), (1, 3)):
        for ds in all_grow_scripts(mx - mn, len(funs), 2, ar):
            cases.append({'fam': 'grow', 'nt': 2, 'funs': funs, 'min': mn, 'max': mx, 'ds': ds})
            if (mn, mx) in ((1, 2), (2, 3)):
                # the same call on a space whose own max_depth is two levels deeper than the call's argument
                cases.append({'fam': 'grow', 'nt': 2, 'funs': funs, 'min': mn, 'max': mx, 'ds': ds, 'deeper_space': 2})
    for _ in range(40 if quick else 1500):
        nfun = r.randint(0, 4)
        fs = [r.randrange(10) for _ in range(nfun)]
        ntt = r.randint(1, 4)
        mn = r.randint(1, 3)
        mx = mn + r.randint(0, 3 if quick else 4)
        ds = [(r.randrange(64), 64) for _ in range(2 ** (mx - mn + 1))]
        cases.append({'fam': 'grow', 'nt': ntt, 'funs': fs, 'min': mn, 'max': mx, 'ds': ds})
    # mutate: every parent of depth <= 2, every point in [2, size+1], three grow outcomes
    mfuns = [2, 7]
    branch_scripts = [[(2, 4)], [(1, 4), (3, 4)], [(0, 4), (2, 4), (3, 4)]]
    for s in sh2:
        n = shape_size(s)
        for p in range(2, n + 2):
            for bs in branch_scripts:
                cases.append({'fam': 'mutate', 'nt': 2 if False else nt, 'funs': mfuns, 'min': 1, 'max': 2, 'shape': s,
                              'maxn': n + 2, 'ds': [(p - 2, n)] + [(a, b) for a, b in bs]})
    for _ in range(30 if quick else 2000):
        sk = r.choice(sk3)
        s = label_shape(sk, nt)
        n = shape_size(s)
        mn = r.randint(1, 2)
        mx = mn + r.randint(0, 2)
        maxn = max(2, r.choice([n, n, n // 2, n + 2]))
        cases.append({'fam': 'mutate', 'nt': nt, 'funs': [0, 4, 9], 'min': mn, 'max': mx, 'shape': s, 'maxn': maxn,
                      'ds': [(r.randrange(64), 64) for _ in range(1 + 2 ** (mx - mn + 1))]})
    # cross: every pair of parents of depth <= 2 x every pair of points in [2, size] (size = first out-of-range)
    for f in sh2:
        for m in sh2:
            nf_, nm_ = shape_size(f), shape_size(m)
            for pf in range(2, max(nf_, 2) + 1):
                for pm in range(2, max(nm_, 2) + 1):
                    cases.append({'fam': 'cross', 'nt': nt, 'f': f, 'm': relabel(m), 'maxf': max(nf_, 2) + 1,
                                  'maxm': max(nm_, 2) + 1,
                                  'ds': [(pf - 2, max(nf_, 2) - 1), (pm - 2, max(nm_, 2) - 1)]})
    for s in sh2:
        n = shape_size(s)
        for pf in range(2, n + 1):
            cases.append({'fam': 'cross', 'nt': nt, 'f': s, 'm': s, 'same': True, 'maxf': n + 1, 'maxm': n + 1,
                          'ds': [(pf - 2, max(n - 1, 1)), ((pf * 3) % max(n - 1, 1), max(n - 1, 1))]})
    for _ in range(0 if quick else 4000):
        f, m = label_shape(r.choice(sk3), nt), relabel(label_shape(r.choice(sk3), nt))
        cases.append({'fam': 'cross', 'nt': nt, 'f': f, 'm': m, 'maxf': max(2, shape_size(f)), 'maxm': max(2, shape_size(m)),
                      'ds': [(r.randrange(64), 64), (r.randrange(64), 64)]})
    # reproduction: fitness vectors over {-2,0,1,3}, every n, tournament scripts
    pool = [('T', 0), ('U', 4, ('T', 1)), ('B', 0, ('T', 0), ('T', 2)), ('U', 5, ('U', 6, ('T', 1)))]
    vals = [-2, 0, 1, 3]
    for n in (2, 3, 4):
        vecs = list(itertools.product(vals, repeat=n))
        if n == 4:
            vecs = r.sample(vecs, 40 if quick else 256)
        for fits in vecs:
            for k in range(1, n + 1):
                scripts = [[0] * (2 * k), list(range(n)) * k]
                for _ in range(2 if quick else 6):
                    scripts.append([r.randrange(n) for _ in range(2 * k)])
                for pk in scripts:
                    cases.append({'fam': 'repro', 'nt': nt, 'shapes': pool[:n], 'fits': list(fits), 'p': k / n if n != 3 else [0.34, 0.67, 1.0][k - 1],
                                  'k': k, 'picks': pk[:2 * k]})
    # near ties: two DISTINCT fitnesses that a tolerant comparison would confuse, the better one at the higher index
    ties = [[1.0 + 1e-9, 1.0], [2e-9, 1e-9], [1e5 + 1e-3, 1e5], [1e-310, 5e-324], [-1e-9, -2e-9], [0.0, -0.0],
            [-0.0, 0.0], [3.0, 1.0 + 1e-9, 1.0], [1e-9, 5.0, 5e-10], [7.0, 7.0 - 1e-12, 7.0 - 2e-12],
            [2.0, 2.0 * (1 + 2e-6), 2.0 * (1 - 2e-6)], [1e-9, 0.0, -1e-9], [4.0, 1e5 + 1e-3, 1e5, 1e5 - 1e-3]]
    for real in ties:
        n = len(real)
        code = fit_codes(real)
        zf = [code[float(f) + 0.0] for f in real]
        best = real.index(min(real))
        for k in range(1, n + 1):
            scripts = [[best] * (2 * k), [n - 1, best] * k, list(range(n)) * k, [r.randrange(n) for _ in range(2 * k)]]
            for pk in scripts:
                pk = pk[:2 * k]
                cases.append({'fam': 'repro', 'nt': nt, 'shapes': pool[:n], 'fits': zf, 'ffits': real, 'k': k, 'picks': pk,
                              'p': k / n if n != 3 else [0.34, 0.67, 1.0][k - 1]})
                cases.append({'fam': 'tourn', 'fits': zf, 'ffits': real, 'k': k, 'picks': pk})
    for fits in ([1, 2, 3, 4], [3, 1, 1, 0], [-2, 0, 1, 3], [5], [2, 2]):
        for _ in range(3):
            k = r.randint(0, 4)
            cases.append({'fam': 'tourn', 'fits': fits, 'k': k, 'picks': [r.randrange(len(fits)) for _ in range(2 * k)]})
    # SCALE (own random stream, so that the cases above and below keep theirs): tournaments over populations of hundreds of individuals,
    # deep copies of chains deeper than 32 levels with right children, deep copies of trees whose terminals are float32
    r2 = hlib.rng('c0809scale')
    for L in ((160, 300) if quick else (160, 300, 1000)):
        fits = [r2.randint(-40, 40) for _ in range(L)]
        for k in (3, 6):
            cases.append({'fam': 'tourn', 'fits': fits, 'k': k, 'picks': [r2.randrange(L) for _ in range(2 * k)]})
    for d in ((40, 70) if quick else (40, 70, 150)):
        chain = ['T', 0]
        for k in range(d):
            chain = ['B', 0, ['T', k % nt], chain] if k % 3 else ['B', 0, chain, ['T', (k + 1) % nt]]
        cases.append({'fam': 'deepcopy', 'nt': nt, 'shape': chain})
    # histories: the function set of a LIVE space is re-assigned / rewritten in place, then trees are grown
    hist = [([1, 5], [5, 1]), ([1, 5], [4, 0]), ([1], [5, 2, 7]), ([1, 5, 2], [6]), ([], [0, 4]), ([0, 1, 2], [7, 8, 9]),
            ([4, 5], [1, 4, 0, 9]), ([3, 6], [])]
    for hi, (f0, f1) in enumerate(hist):
        ar1 = [oc.N_ARGS_FUNCTION[OPS[i]] for i in f1]
        for (mn, mx) in ((1, 2), (2, 4)) if hi < 3 else ((1, 2),):
            for ds in all_grow_scripts(mx - mn, len(f1), 2, ar1):
                cases.append({'fam': 'grow', 'nt': 2, 'funs0': f0, 'funs': f1, 'inplace': bool(hi % 2), 'min': mn, 'max': mx, 'ds': ds})
        for s in sh2[1:6]:
            n = shape_size(s)
            for bs in all_grow_scripts(1, len(f1), nt, ar1)[:12]:
                cases.append({'fam': 'mutate', 'nt': nt, 'funs0': f0, 'funs': f1, 'inplace': bool(hi % 2), 'min': 1, 'max': 2,
                              'shape': s, 'maxn': n + 2, 'ds': [(0, n)] + [(a, b) for a, b in bs]})
    # whole GP runs
    for i in range(10 if quick else 300):
        n_trees = r.randint(3, 6)
        iters = r.randint(2, 4) if quick else r.randint(6, 20)
        fs = r.sample(range(10), r.randint(1, 4))
        mn = r.randint(1, 2)
        mx = mn + r.randint(1, 2)
        gc = {'fam': 'gp', 'n_trees': n_trees, 'nt': r.randint(1, 3), 'funs': fs, 'min': mn, 'max': mx, 'iters': iters,
              'p_rep': r.choice([0.25, 0.5, 0.75]), 'p_mut': r.choice([0.25, 0.5, 1.0]), 'p_cross': r.choice([0.25, 0.5, 1.0]),
              'ratio': r.choice([(0, 1), (1, 4), (1, 2)]),
              'ds': [(r.randrange(64), 64) for _ in range(400 + 200 * iters)],
              'picks': [r.randrange(n_trees) for _ in range(40 * (iters + 1))],
              'fits': [r.choice([-3, -1, 0, 1, 2, 5, 8]) for _ in range(n_trees * (iters + 2))]}
        if i % 2:
            # converged-population fitnesses: distinct values a tolerant comparison would identify
            fpool = [1.0, 1.0 + 1e-9, 1.0 - 1e-9, 1e-9, 2e-9, 5e-10, -1e-9, 0.0, 5.0, 1e5, 1e5 + 1e-3]
            real = [r.choice(fpool) for _ in gc['fits']]
            code = fit_codes(real)
            gc['ffits'], gc['fits'] = real, [code[float(f) + 0.0] for f in real]
        if i % 3 == 0:
            # history: the space is built with another function set, `functions` is re-assigned before the run
            gc['funs0'] = r.sample(range(10), r.randint(1, 4))
            gc['inplace'] = bool(i % 2)
        cases.append(gc)
    return cases


def relabel(s):
    """the mother's labels are disjoint from the father's where the operator table allows it"""
    if s[0] == 'T':
        return ('T', (s[1] + 1) % 3)
    if s[0] == 'U':
        return ('U', 4 + (s[1] - 4 + 3) % 6, relabel(s[2]))
    return ('B', (s[1] + 2) % 4, relabel(s[2]), relabel(s[3]))


def main():
    pl = hlib.payload() or {'mode': 'cases'}
    if pl.get('mode') == 'replay':
        c = pl['case']
        RUNNERS[c['fam']](c)
        hlib.emit({'case': c, 'o8': c.get('o8'), 'o9': c.get('o9'), 'o9_kind': c.get('o9_kind')})
        return
    cases = gen_cases(hlib.QUICK)
    for c in cases:
        RUNNERS[c['fam']](c)
    hlib.emit({'cases': cases, 'n_args': dict(oc.N_ARGS_FUNCTION), 'tournament_size': oc.TOURNAMENT_SIZE})


if __name__ == '__main__':
    main()
