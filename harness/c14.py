"""C14 validation harness: every regenerated guard x boundary values, on the REAL classes.

Input (stdin JSON): the `info` structure of translate/t1_guards.py (classes, guards with the documented
domains parsed from the messages, builds) and optionally {'only': case} for a replay.
For every case it records (a) what the real setter did (outcome, identity of the stored object, which
instance attributes changed), (b) the abstraction of state and value for the Coq model, and (c) the verdict
of the PROPERTY ORACLE, computed from the documented domain alone:
    accepted  <=>  value in the documented domain;  accepted => stored `is` the value, nothing else changed;
    rejected  =>  one of the library's typed errors and the instance __dict__ is identical to before."""
import copy
import importlib
import math
from fractions import Fraction
from inspect import signature

import numpy as np

from harness import hlib
from harness.hlib import nextafter

import opytimizer.utils.exception as e
from opytimizer.core.agent import Agent
from opytimizer.core.function import Function
from opytimizer.core.node import Node
from opytimizer.core.optimizer import Optimizer
from opytimizer.core.space import Space

INF = float('inf')
PYTYPES = {'TInt': int, 'TFloat': float, 'TBool': bool, 'TStr': str, 'TList': list, 'TTuple': tuple, 'TDict': dict,
           'TNdarray': np.ndarray, 'TNode': Node, 'TAgent': Agent, 'TFunction': Function, 'TSpace': Space,
           'TOptimizer': Optimizer}
KIND_CODE = {'TypeError': 1, 'ValueError': 2, 'SizeError': 3, 'ArgumentError': 4, 'BuildError': 5}
MISSING = object()


# ------------------------------------------------------------------ values from specs

def f0():
    return 0


def f1(x):
    return 0


def f2(x, y):
    return 0


_OBJ_CACHE = {}


def _try(f, klass):
    """helper objects must exist even when a (mutated) constructor rejects its own defaults"""
    try:
        return f()
    except Exception:  # noqa: BLE001
        return klass.__new__(klass)


def make_obj(cls, built):
    from opytimizer.spaces.search import SearchSpace
    from opytimizer.optimizers.pso import PSO
    if cls == 'Node':
        return _try(lambda: Node('n', 'TERMINAL', value=np.array([1.0])), Node)
    if cls == 'Agent':
        return _try(Agent, Agent)
    if cls == 'Function':
        o = _try(lambda: Function(pointer=f1), Function)
    elif cls == 'Space':
        o = _try(SearchSpace, SearchSpace) if built else _try(Space, Space)
    elif cls == 'Optimizer':
        o = _try(PSO, PSO) if built else _try(Optimizer, Optimizer)
    else:
        return object()
    if built is not None and o.__dict__.get('_built', None) is not built:
        o.__dict__['_built'] = built
    return o


def make(spec):
    k = spec['k']
    if k == 'none':
        return None
    if k == 'bool':
        return bool(spec['v'])
    if k == 'int':
        return int(spec['v'])
    if k == 'float':
        return float.fromhex(spec['v']) if spec['v'] not in ('inf', '-inf', 'nan') else float(spec['v'])
    if k == 'npfloat':
        return np.float64(float.fromhex(spec['v']))
    if k == 'npint':
        return np.int64(int(spec['v']))
    if k == 'str':
        return spec['v']
    if k == 'list':
        return [1.0] * spec['n']
    if k == 'tuple':
        return tuple([1.0] * spec['n'])
    if k == 'dict':
        return {'k%d' % i: i for i in range(spec['n'])}
    if k == 'arr':
        return np.full(tuple(spec['shape']), float(spec.get('fill', 1.0)))
    if k == 'callable':
        if spec.get('style') == 'lambda':
            return [lambda: 0, lambda x: 0, lambda x, y: 0][spec['n']]
        return [f0, f1, f2][spec['n']]
    if k == 'obj':
        key = (spec['cls'], spec.get('built'))
        if key not in _OBJ_CACHE:
            _OBJ_CACHE[key] = make_obj(spec['cls'], spec.get('built'))
        return _OBJ_CACHE[key]
    raise ValueError(spec)


def fl(x):
    return {'k': 'float', 'v': ('inf' if x == INF else '-inf' if x == -INF else float(x).hex())}


BASE = [
    {'k': 'none'}, {'k': 'bool', 'v': False}, {'k': 'bool', 'v': True},
    {'k': 'int', 'v': '-1'}, {'k': 'int', 'v': '0'}, {'k': 'int', 'v': '1'}, {'k': 'int', 'v': '2'},
    {'k': 'int', 'v': '3'}, {'k': 'int', 'v': str(10 ** 20)},
    fl(-INF), fl(INF), fl(-1.0), fl(-5e-324), fl(-0.0), fl(0.0), fl(5e-324), fl(0.5), fl(nextafter(1.0, 0.0)), fl(1.0),
    fl(nextafter(1.0, 2.0)), fl(2.0), fl(1e308),
    {'k': 'npfloat', 'v': (1.0).hex()}, {'k': 'npfloat', 'v': (-1.0).hex()}, {'k': 'npfloat', 'v': (0.0).hex()},
    {'k': 'npint', 'v': '0'}, {'k': 'npint', 'v': '1'}, {'k': 'npint', 'v': '-1'},
    {'k': 'str', 'v': ''}, {'k': 'str', 'v': '1'}, {'k': 'str', 'v': 'TERMINAL'}, {'k': 'str', 'v': 'FUNCTION'},
    {'k': 'str', 'v': 'terminal'},
    {'k': 'list', 'n': 0}, {'k': 'list', 'n': 2}, {'k': 'tuple', 'n': 0}, {'k': 'tuple', 'n': 1},
    {'k': 'dict', 'n': 0}, {'k': 'dict', 'n': 1},
    {'k': 'arr', 'shape': []}, {'k': 'arr', 'shape': [0]}, {'k': 'arr', 'shape': [1]},
    {'k': 'arr', 'shape': [1], 'fill': 0.0}, {'k': 'arr', 'shape': [2]}, {'k': 'arr', 'shape': [3]},
    {'k': 'arr', 'shape': [4]}, {'k': 'arr', 'shape': [3, 2]}, {'k': 'arr', 'shape': [1, 1]},
    {'k': 'callable', 'n': 0}, {'k': 'callable', 'n': 1}, {'k': 'callable', 'n': 2},
    {'k': 'callable', 'n': 0, 'style': 'lambda'}, {'k': 'callable', 'n': 1, 'style': 'lambda'},
    {'k': 'callable', 'n': 2, 'style': 'lambda'},
    {'k': 'obj', 'cls': 'Node'}, {'k': 'obj', 'cls': 'Agent'},
    {'k': 'obj', 'cls': 'Function', 'built': True}, {'k': 'obj', 'cls': 'Function', 'built': False},
    {'k': 'obj', 'cls': 'Space', 'built': True}, {'k': 'obj', 'cls': 'Space', 'built': False},
    {'k': 'obj', 'cls': 'Optimizer', 'built': True}, {'k': 'obj', 'cls': 'Optimizer', 'built': False},
    {'k': 'obj', 'cls': 'object'},
]
SMALL = [BASE[i] for i in (0, 1, 2, 4, 5, 9, 10, 18, 22, 26, 29, 33, 39, 43, 49, 54, 56, 58, 60)]


def around(c):
    """boundary set of a numeric bound c (int or float)"""
    c = float(c)
    out = [fl(c - 1.0), fl(nextafter(c, -INF)), fl(c), fl(nextafter(c, INF)), fl(c + 1.0),
           {'k': 'npfloat', 'v': c.hex()}]
    if c == int(c):
        i = int(c)
        out += [{'k': 'int', 'v': str(i - 1)}, {'k': 'int', 'v': str(i)}, {'k': 'int', 'v': str(i + 1)},
                {'k': 'npint', 'v': str(i)}]
        if i in (0, 1):
            out.append({'k': 'bool', 'v': bool(i)})
    return out


# ------------------------------------------------------------------ abstraction for the Coq model

_IDS = {}


def obj_id(v):
    if id(v) not in _IDS:
        _IDS[id(v)] = (len(_IDS) + 1, v)      # keep v alive so ids stay unique
    return _IDS[id(v)][0]


def absval(v):
    """Python object -> JSON form of Model/Guards.v `pyval` (None if outside the universe, e.g. NaN)"""
    if v is None:
        return ['none']
    if isinstance(v, bool):
        return ['bool', v]
    if isinstance(v, int):
        return ['int', str(v)]
    if isinstance(v, float):          # includes np.float64
        x = float(v)
        if x != x:
            return None
        if x in (INF, -INF):
            return ['float', 'pinf' if x > 0 else 'ninf']
        f = Fraction(x)
        return ['float', str(f.numerator), str(f.denominator)]
    if isinstance(v, np.integer):
        return ['npint', str(int(v))]
    if isinstance(v, str):
        return ['str', v]
    if isinstance(v, list):
        return ['list', len(v)]
    if isinstance(v, tuple):
        return ['tuple', len(v)]
    if isinstance(v, dict):
        return ['dict', len(v)]
    if isinstance(v, np.ndarray):
        if v.dtype.kind not in 'fiub':
            return None
        first = bool(v.reshape(-1)[0] != 0) if v.size else False
        return ['arr', list(v.shape), first]
    for name, c in (('ONode', Node), ('OAgent', Agent), ('OFunction', Function), ('OSpace', Space),
                    ('OOptimizer', Optimizer)):
        if isinstance(v, c):
            b = getattr(v, 'built', None) if name in ('OFunction', 'OSpace', 'OOptimizer') else None
            return ['obj', name, (None if b is None else bool(b)), obj_id(v)]
    if callable(v):
        try:
            return ['callable', len(signature(v).parameters)]
        except (ValueError, TypeError):
            return None
    b = getattr(v, 'built', None)
    return ['obj', 'OOther', (None if b is None else bool(b)), obj_id(v)]


# ------------------------------------------------------------------ the documented domain on real values

def is_number(v):
    return isinstance(v, (int, float, np.integer, np.floating)) and not (isinstance(v, (float, np.floating)) and v != v)


def cmp_py(op, a, b):
    return {'Lt': a < b, 'Le': a <= b, 'Gt': a > b, 'Ge': a >= b, 'Eq': a == b, 'Ne': a != b}[op]


def q(nd):
    return Fraction(nd[0], nd[1])


def as_exact(v):
    if isinstance(v, (float, np.floating)) and float(v) in (INF, -INF):
        return float(v)
    if isinstance(v, (bool, np.bool_)):
        return Fraction(int(v))
    return Fraction(float(v)) if isinstance(v, (float, np.floating)) else Fraction(int(v))


def in_dom(d, obj, v):
    k = d[0]
    if k == 'type':
        return isinstance(v, tuple(PYTYPES[t] for t in d[1]))
    if k == 'callable':
        return callable(v)
    if k == 'cmp':
        return is_number(v) and cmp_py(d[1], as_exact(v), q(d[2]))
    if k == 'between':
        return is_number(v) and q(d[1]) <= as_exact(v) <= q(d[2])
    if k == 'cmpself':
        w = getattr(obj, d[2])
        return is_number(v) and is_number(w) and cmp_py(d[1], as_exact(v), as_exact(w))
    if k == 'sizeeq':
        w = getattr(obj, d[1])
        try:
            return len(v) == w
        except TypeError:
            return False
    if k == 'arity':
        try:
            return callable(v) and len(signature(v).parameters) == d[1]
        except (ValueError, TypeError):
            return False
    if k == 'oneof':
        return isinstance(v, str) and v in d[1]
    if k == 'built':
        return bool(getattr(v, 'built', False)) is True
    raise ValueError(d)


def in_domain(doms, obj, v):
    return all(in_dom(d, obj, v) for d in doms)


def group(v, bounds, wants_built=False):
    """coarse class of a probe value, used in finding keys"""
    if wants_built and not hasattr(v, 'built'):
        return 'no-built-attr'
    try:
        if is_number(v) and not isinstance(v, (bool, np.bool_)) and any(as_exact(v) == b for b in bounds):
            return 'at-bound'
        if isinstance(v, bool) and any(Fraction(int(v)) == b for b in bounds):
            return 'at-bound'
    except (OverflowError, ValueError):
        pass
    if v is None:
        return 'none'
    if isinstance(v, np.ndarray):
        if v.ndim == 0:
            return 'array-0d'
        if v.size == 0:
            return 'array-empty'
        if v.size == 1:
            return 'array-one' if bool(v.reshape(-1)[0]) else 'falsy'
        return 'array-multi'
    try:
        falsy = not bool(v)
    except Exception:  # noqa: BLE001
        falsy = False
    if falsy:
        return 'falsy'
    if callable(v) and not isinstance(v, type):
        try:
            return 'callable-%d' % len(signature(v).parameters)
        except (ValueError, TypeError):
            return 'callable'
    if isinstance(v, (Node, Agent, Function, Space, Optimizer)):
        b = getattr(v, 'built', None)
        return type(v).__name__.lower() + ('' if b is None else ('-built' if b else '-unbuilt'))
    return type(v).__name__


# ------------------------------------------------------------------ instances

def import_class(file, name):
    mod = importlib.import_module(file[:-3].replace('/', '.'))
    return getattr(mod, name)


def template(cls, name):
    """a valid default instance of the class (factory table; default constructor otherwise)"""
    if name == 'Node':
        return Node('n', 'TERMINAL', value=np.array([1.0]))
    if name == 'Function':
        return Function(pointer=f1)
    if name == 'WeightedFunction':
        return cls(functions=[f1], weights=[1.0])
    if name == 'TreeSpace':
        return cls(n_trees=1, n_terminals=1, n_variables=1, n_iterations=1, min_depth=1, max_depth=2,
                   functions=['SUM'], lower_bound=[0], upper_bound=[1])
    if name == 'Opytimizer':
        from opytimizer.spaces.search import SearchSpace
        from opytimizer.optimizers.pso import PSO
        return cls(space=make_obj('Space', True), optimizer=make_obj('Optimizer', True), function=make_obj('Function', True))
    return cls()


def ctor_kwargs(name):
    """keyword arguments with which `template` builds the class (the ones that have no default)"""
    if name == 'Node':
        return {'name': 'n', 'type': 'TERMINAL', 'value': np.array([1.0])}
    if name == 'Function':
        return {'pointer': f1}
    if name == 'WeightedFunction':
        return {'functions': [f1], 'weights': [1.0]}
    if name == 'TreeSpace':
        return dict(n_trees=1, n_terminals=1, n_variables=1, n_iterations=1, min_depth=1, max_depth=2, functions=['SUM'],
                    lower_bound=[0], upper_bound=[1])
    if name == 'Opytimizer':
        return {'space': make_obj('Space', True), 'optimizer': make_obj('Optimizer', True), 'function': make_obj('Function', True)}
    return {}


CTOR_PROBES = [('none', lambda: None), ('str', lambda: 'x'), ('float', lambda: 3.5), ('tuple', lambda: (f1, f1)), ('emptylist', lambda: []),
               ('zero', lambda: 0), ('neg', lambda: -1), ('true', lambda: True), ('generator', lambda: (f for f in (f1, f1))), ('dict', lambda: {}),
               ('emptytuple', lambda: ())]


def outcome(f):
    try:
        f()
    except Exception as ex:  # noqa: BLE001
        k = hlib.exc_kind(ex)
        return k if k in ('TypeError', 'ValueError', 'SizeError', 'ArgumentError', 'BuildError') else 'Untyped:' + type(ex).__name__
    return 'ok'


def ctor_param_cases(c, cls, gs, only=None):
    """A value that the SETTER of a validated attribute rejects with a typed error must be rejected in the same way when it is handed to
    the constructor parameter of the same name (the constructor routes its arguments through the setters).  Not judged: parameters the
    constructor never reads."""
    out = []
    if not c.get('init_params'):
        return out
    used = set(c.get('init_reads') or [])
    gnames = {g['attr'] for g in gs}
    for pn, _d in c['init_params']:
        if pn not in gnames or (c.get('init_reads') is not None and pn not in used):
            continue
        for tag, mk in CTOR_PROBES:
            if only and (only.get('param') != pn or only.get('probe') != tag):
                continue
            try:
                tpl = template(cls, c['name'])
            except Exception:  # noqa: BLE001
                break
            ks = outcome(lambda: setattr(tpl, pn, mk()))
            if ks == 'ok' or ks.startswith('Untyped'):
                continue
            kc = outcome(lambda: cls(**dict(ctor_kwargs(c['name']), **{pn: mk()})))
            if kc != ks:
                out.append({'cls': c['name'], 'param': pn, 'probe': tag, 'setter': ks, 'ctor': kc})
    return out


def special_probe_cases(only=None):
    """Values of unusual but valid kinds for two guards whose documented domain is about the KIND of object:
    Function.pointer -- any callable of one argument (a functools.partial, a bound method, an instance with __call__, also when the instance is
    unhashable because its class defines __eq__); a callable of two arguments is rejected with the typed ArgumentError, whatever its kind;
    Node.left / right / parent -- any Node, also the root of a chain thousands of levels deep (validating a link must not walk the tree)."""
    import functools
    out = []

    class Eq1:
        def __init__(self, k):
            self.k = k

        def __eq__(self, other):
            return isinstance(other, Eq1) and other.k == self.k

        def __call__(self, x):
            return 0.0

    class Eq2(Eq1):
        def __call__(self, x, y):
            return 0.0

    class M:
        def m1(self, x):
            return 0.0

        def m2(self, x, y):
            return 0.0
    probes = [('unhashable-object-1arg', lambda: Eq1(1), 'ok'), ('unhashable-object-2args', lambda: Eq2(1), 'ArgumentError'),
              ('partial-1arg', lambda: functools.partial(f2, 1.0), 'ok'), ('partial-2args', lambda: functools.partial(f2), 'ArgumentError'),
              ('bound-method-1arg', lambda: M().m1, 'ok'), ('bound-method-2args', lambda: M().m2, 'ArgumentError')]
    for tag, mk, want in probes:
        for via in ('setter', 'constructor'):
            name = 'Function.pointer:%s:%s' % (tag, via)
            if only and only != name:
                continue
            if via == 'setter':
                f = Function(pointer=f1)
                got = outcome(lambda: setattr(f, 'pointer', mk()))
            else:
                got = outcome(lambda: Function(pointer=mk()))
            if got != want:
                out.append({'name': name, 'cls': 'Function', 'attr': 'pointer', 'probe': tag, 'via': via, 'observed': got, 'expected': want})
    for depth in (1500, 4000):
        name = 'Node.links:deep-chain-%d' % depth
        if only and only != name:
            continue

        def build_chain():
            node = Node('x', 'TERMINAL', value=np.array([1.0]))
            for k in range(depth):
                up = Node('ABS', 'FUNCTION')
                up.left = node
                node.parent = up
                node = up
            top = Node('SUM', 'FUNCTION', left=node, right=Node('y', 'TERMINAL', value=np.array([2.0])))
            node.parent = top
            return top
        got = outcome(build_chain)
        if got != 'ok':
            out.append({'name': name, 'cls': 'Node', 'attr': 'left/right/parent', 'probe': 'deep-chain-%d' % depth, 'via': 'setter',
                        'observed': got, 'expected': 'ok'})
    return out


def fresh(tpl):
    o = copy.copy(tpl)                    # new instance, same attribute objects
    o.__dict__ = dict(tpl.__dict__)
    return o


def selfs_of(g):
    out = []

    def walk_t(t):
        if t[0] == 'self' and t[1] not in out:
            out.append(t[1])

    def walk_c(c):
        if c[0] == 'cmp':
            walk_t(c[2])
            walk_t(c[3])
        elif c[0] == 'not':
            walk_c(c[1])
        elif c[0] in ('and', 'or'):
            walk_c(c[1])
            walk_c(c[2])
    for d in g['doms']:
        if d[0] in ('cmpself',) and d[2] not in out:
            out.append(d[2])
        if d[0] == 'sizeeq' and d[1] not in out:
            out.append(d[1])
    for c in (g['clauses'] or []):
        walk_c(c['cond'])
    return out


def consts_of(g):
    out = []
    for d in g['doms']:
        if d[0] == 'cmp':
            out.append(q(d[2]))
        elif d[0] == 'between':
            out += [q(d[1]), q(d[2])]
        elif d[0] == 'arity':
            out.append(Fraction(d[1]))

    def walk_c(c):
        if c[0] == 'cmp':
            for t in (c[2], c[3]):
                if t[0] == 'const':
                    out.append(Fraction(t[1], t[2]))
        elif c[0] == 'not':
            walk_c(c[1])
        elif c[0] in ('and', 'or'):
            walk_c(c[1])
            walk_c(c[2])
    for c in (g['clauses'] or []):
        walk_c(c['cond'])
    res = []
    for x in out:
        if x not in res:
            res.append(x)
    return res


def doc_consts_of(g):
    """bounds named by the MESSAGES only (finding keys must not depend on the constants of the code)"""
    out = []
    for d in g['doms']:
        if d[0] == 'cmp':
            out.append(q(d[2]))
        elif d[0] == 'between':
            out += [q(d[1]), q(d[2])]
        elif d[0] == 'arity':
            out.append(Fraction(d[1]))
    return out


def dedup(specs):
    seen, out = set(), []
    for s in specs:
        k = repr(sorted(s.items()))
        if k not in seen:
            seen.add(k)
            out.append(s)
    return out


# ------------------------------------------------------------------ one case

def run_case(tpl, g, comp, spec, pre_ok=True):
    """comp: {companion attr: spec}.  Returns the record."""
    obj = fresh(tpl)
    attr = g['attr']
    for a, sp in comp.items():
        obj.__dict__['_' + a] = make(sp)
    if g['pre'] is not None:
        obj.__dict__['_' + g['pre'][0]] = g['pre'][1] if pre_ok else 'FUNCTION' if g['pre'][1] != 'FUNCTION' else 'OTHER'
    v = make(spec)
    before = dict(obj.__dict__)
    state_abs = []
    for a in selfs_of(g):
        state_abs.append([a, absval(before.get('_' + a, None))])
    if g['pre'] is not None:
        state_abs.append([g['pre'][0], absval(before.get('_' + g['pre'][0]))])
    try:
        member = in_domain(g['doms'], obj, v)
    except Exception as ex:  # noqa: BLE001
        member = None
    try:
        setattr(obj, attr, v)
        out = 'ok'
        exc = None
    except Exception as ex:  # noqa: BLE001
        out = hlib.exc_kind(ex)
        exc = type(ex).__name__
    after = obj.__dict__
    changed = sorted(k for k in set(before) | set(after) if before.get(k, MISSING) is not after.get(k, MISSING))
    stored = after.get('_' + attr, MISSING)
    stored_is = stored is v
    # ---- property oracle (documented domain only)
    verdict = None
    if not pre_ok:
        pass                                  # outside the guard's precondition: the oracle is silent
    elif out == 'ok':
        if member is False:
            verdict = 'accepted-outside-domain'
        elif not stored_is:
            verdict = 'not-stored-unchanged'
        elif [k for k in changed if k != '_' + attr]:
            verdict = 'other-attribute-changed'
    elif out in KIND_CODE:
        if member is True:
            verdict = 'rejected-inside-domain'
        elif changed:
            verdict = 'state-changed-on-rejection'
    else:
        verdict = 'untyped-error'
        if changed:
            verdict = 'untyped-error+state-changed'
    # ---- code for the model comparison
    if out == 'ok':
        code = 0 if not [k for k in changed if k != '_' + attr] else 9
        stored_abs = absval(stored) if stored is not MISSING else None
    elif out in KIND_CODE:
        code = KIND_CODE[out] if not changed else 9
        stored_abs = ['none']
    else:
        code = 6 if not changed else 9
        stored_abs = ['none']
    bounds = doc_consts_of(g)
    for a in comp:
        w = before.get('_' + a)
        if is_number(w):
            try:
                bounds.append(as_exact(w))
            except (OverflowError, ValueError):
                pass
    grp = group(v, [b for b in bounds if isinstance(b, Fraction)], any(d[0] == 'built' for d in g['doms']))
    return {'attr': attr, 'gcls': g['cls'], 'comp': comp, 'spec': spec, 'pre_ok': pre_ok, 'out': out, 'exc': exc,
            'member': member, 'stored_is': stored_is, 'changed': changed, 'verdict': verdict, 'group': grp,
            'state_abs': state_abs, 'val_abs': absval(v), 'code': code, 'stored_abs': stored_abs,
            'repr': safe_repr(v)}


def safe_repr(v):
    try:
        return repr(v)[:60]
    except Exception:  # noqa: BLE001
        return '<%s>' % type(v).__name__


def random_specs(g, comp, n):
    """thorough tier: seeded random numbers around the documented bounds and companions"""
    r = hlib.rng('c14/%s.%s' % (g['cls'], g['attr']))
    cs = [float(c) for c in consts_of(g)]
    for w in comp.values():
        wv = make(w)
        if is_number(wv):
            cs.append(float(wv))
    if not cs and not any(d[0] == 'type' and set(d[1]) & {'TInt', 'TFloat'} for d in g['doms']):
        return []
    cs = cs or [0.0]
    out = []
    for _ in range(n):
        c = r.choice(cs)
        k = r.random()
        if k < 0.3:
            out.append({'k': 'int', 'v': str(int(c) + r.randint(-3, 3))})
        elif k < 0.6:
            out.append(fl(c + r.uniform(-1.5, 1.5)))
        elif k < 0.8:
            x = c
            for _ in range(r.randint(1, 4)):
                x = nextafter(x, r.choice([-INF, INF]))
            out.append(fl(x))
        elif k < 0.9:
            out.append(fl(r.uniform(-1, 1) * 10.0 ** r.randint(-300, 300)))
        else:
            out.append({'k': 'npfloat', 'v': float(c + r.uniform(-1, 1)).hex()})
    return out


def companion_states(g):
    sel = selfs_of(g)
    if not sel:
        return [{}]
    sizes = any(d[0] == 'sizeeq' for d in g['doms'])
    if sizes:
        ws = [{'k': 'int', 'v': '1'}, {'k': 'int', 'v': '3'}]
    else:
        ws = [{'k': 'int', 'v': '0'}, {'k': 'int', 'v': '1'}, {'k': 'int', 'v': '3'}, fl(0.5), fl(0.1)]
    out = [{a: w for a in sel} for w in ws]
    if len(sel) > 1:          # companions holding different values: a guard reading the wrong one is told apart
        st = [{'k': 'int', 'v': '0'}, {'k': 'int', 'v': '3'}, {'k': 'int', 'v': '1'}, {'k': 'int', 'v': '2'}]
        out.append({a: st[i % 4] for i, a in enumerate(sel)})
        out.append({a: st[(i + 1) % 4] for i, a in enumerate(sel)})
    return out


def probes_for(g, comp, small):
    specs = list(SMALL if small else BASE)
    for c in consts_of(g):
        specs += around(c)
    for a, w in comp.items():
        wv = make(w)
        if is_number(wv):
            specs += around(wv)
            if float(wv) == int(float(wv)):
                n = int(float(wv))
                specs += [{'k': 'arr', 'shape': [max(n - 1, 0)]}, {'k': 'arr', 'shape': [n]}, {'k': 'arr', 'shape': [n + 1]},
                          {'k': 'arr', 'shape': [n, 2]}, {'k': 'list', 'n': n}]
    return dedup(specs)


# ------------------------------------------------------------------ hyperparameter dictionaries

def run_build_case(cls, b, guards, dspec):
    """dspec: list of (key, spec).  Constructor with hyperparams=dict."""
    d = {}
    vals = {}
    for k, sp in dspec:
        vals[k] = make(sp)
        d[k] = vals[k]
    ref = cls()                                   # default instance: the state before the dictionary is applied
    try:
        obj = cls(hyperparams=d)
        out, exc = 'ok', None
    except Exception as ex:  # noqa: BLE001
        obj = None
        out, exc = hlib.exc_kind(ex), type(ex).__name__
    # oracle, independent of the order in which the code applies the keys: the dictionary describes ONE
    # configuration (defaults overridden by every key of the dictionary); key k is judged by the documented domain
    # of the same-named attribute k against that configuration -- for a pair, X_max against the X_min OF THE DICTIONARY
    shadow = fresh(ref)
    for k in d:
        if k in guards:
            shadow.__dict__['_' + k] = d[k]
    expect = 'ok'
    first_bad = None
    for it in b['items']:
        k = it['read']
        if k in d and k in guards:
            if not in_domain(guards[k]['doms'], shadow, d[k]):
                expect = 'reject'
                first_bad = k
                break
    verdict = None
    if out == 'ok':
        if expect != 'ok':
            verdict = 'accepted-outside-domain'
        else:
            for k in d:
                if k in guards and obj.__dict__.get('_' + k, MISSING) is not d[k]:
                    verdict = 'not-stored-unchanged'
                    first_bad = k
            if obj.__dict__.get('_hyperparams', MISSING) is not d:
                verdict = verdict or 'not-stored-unchanged'
    elif out in KIND_CODE:
        if expect == 'ok':
            verdict = 'rejected-inside-domain'
    else:
        verdict = 'untyped-error'
    sel = []
    for it in b['items']:
        for a in (selfs_of(guards[it['attr']]) if it['attr'] in guards else []):
            if a not in sel:
                sel.append(a)
    state_abs = [[a, absval(ref.__dict__.get('_' + a))] for a in sel]
    code = 0 if out == 'ok' else KIND_CODE.get(out, 6)
    return {'cls': cls.__name__, 'build': b['name'], 'dict': dspec, 'out': out, 'exc': exc, 'expect': expect,
            'first_bad': first_bad, 'verdict': verdict, 'state_abs': state_abs,
            'dict_abs': [[k, absval(vals[k])] for k, _ in dspec], 'code': code}


def build_dicts(b, guards, small, defaults=None):
    out = []
    for it in b['items']:
        key = it['read']
        g = guards.get(key) or guards.get(it['attr'])
        if g is None:
            continue
        specs = list(SMALL)
        for c in consts_of(g):
            specs += around(c)
        for sp in dedup(specs):
            out.append([(key, sp)])
        # companion pairs: the companion key at c, this key at c, c +- step
        for a in selfs_of(g):
            if not any(x['read'] == a for x in b['items']):
                continue
            for c in ([0.5] if small else [0.5, 0.0, 1.0]):
                for sp in around(c):
                    out.append([(a, fl(c)), (key, sp)])
            # both members relative to the DEFAULT of the companion m0: inverted, equal, valid below m0, valid above m0
            m0 = defaults.get(a) if defaults else None
            if not is_number(m0):
                continue
            m0 = float(m0)
            mins = [m0 / 10.0, m0 / 2.0, m0, m0 + 0.25, m0 + 0.5, m0 + 10.0, 0.3, 0.5]
            for mn in mins:
                for mx in (mn - 0.2, nextafter(mn, -INF), mn, nextafter(mn, INF), mn + 0.2, (mn + m0) / 2.0, mn + 5.0):
                    out.append([(a, fl(mn)), (key, fl(mx))])
                    if not small or mn in (0.5, m0 + 10.0):
                        out.append([(key, fl(mx)), (a, fl(mn))])        # other insertion order of the dictionary
    return out


# ------------------------------------------------------------------ main

def main():
    doc = hlib.payload()
    info = doc['info']
    by_name = {c['name']: c for c in info['classes']}
    res = {'cases': [], 'builds': [], 'errors': [], 'nan': [], 'ctor': []}

    def guards_of(cname):
        out, names, seen = [], set(), set()
        c = cname
        while c in by_name and c not in seen:
            seen.add(c)
            for g in by_name[c]['guards']:
                if g['attr'] not in names:
                    names.add(g['attr'])
                    out.append(g)
            c = by_name[c]['bases'][0] if by_name[c]['bases'] else None
        return out

    only = doc.get('only')
    if only is not None:
        c = by_name[only['cls']]
        cls = import_class(c['file'], c['name'])
        if only.get('kind') == 'ctor':
            try:
                template(cls, c['name'])
            except Exception as ex:  # noqa: BLE001
                res['ctor'].append({'cls': c['name'], 'out': hlib.exc_kind(ex), 'msg': repr(ex)[:200]})
            hlib.emit(res)
            return
        if only.get('kind') == 'special':
            res['special'] = special_probe_cases(only.get('name'))
            hlib.emit(res)
            return
        if only.get('kind') == 'ctorparam':
            res['ctorparam'] = ctor_param_cases(c, cls, guards_of(c['name']), only)
            hlib.emit(res)
            return
        if only.get('kind') == 'hyper':
            try:
                cls(hyperparams=make(only['spec']))
                o2 = 'ok'
            except Exception as ex:  # noqa: BLE001
                o2 = hlib.exc_kind(ex)
            res['builds'].append({'cls': c['name'], 'build': only.get('build'), 'dict': None, 'hyper': only['spec'], 'out': o2,
                                  'verdict': None if o2 == 'TypeError' else 'hyperparams-not-validated', 'code': None})
            hlib.emit(res)
            return
        if only.get('kind') == 'build':
            gs = {g['attr']: g for g in guards_of(c['name'])}
            b = [x for x in c['builds'] if x['name'] == only['build']][0]
            res['builds'].append(run_build_case(cls, b, gs, [tuple(x) for x in only['dict']]))
        else:
            g = [x for x in guards_of(c['name']) if x['attr'] == only['attr']][0]
            try:
                tpl = template(cls, c['name'])
            except Exception:  # noqa: BLE001
                tpl = cls.__new__(cls)
            res['cases'].append(dict(run_case(tpl, g, only['comp'], only['spec'], only.get('pre_ok', True)), cls=c['name']))
        hlib.emit(res)
        return

    res['special'] = special_probe_cases()
    for c in info['classes']:
        gs = guards_of(c['name'])
        if not gs:
            continue
        try:
            cls = import_class(c['file'], c['name'])
        except Exception as ex:  # noqa: BLE001
            res['errors'].append({'cls': c['name'], 'msg': 'cannot import the class: %r' % ex})
            continue
        res.setdefault('ctorparam', [])
        res['ctorparam'] += ctor_param_cases(c, cls, gs)
        try:
            tpl = template(cls, c['name'])
        except Exception as ex:  # noqa: BLE001
            # a constructor called with its own documented defaults raises: a concrete failing input by itself
            res['ctor'].append({'cls': c['name'], 'out': hlib.exc_kind(ex), 'msg': repr(ex)[:200]})
            tpl = cls.__new__(cls)            # bare instance: setters are still exercised one by one
        for g in gs:
            inherited = g['cls'] != c['name']
            small = inherited and hlib.QUICK
            for comp in companion_states(g):
                if small and comp and list(comp.values())[0] != {'k': 'int', 'v': '1'}:
                    continue
                specs = probes_for(g, comp, small)
                if not hlib.QUICK:
                    specs = dedup(specs + random_specs(g, comp, 150))
                for spec in specs:
                    try:
                        r = run_case(tpl, g, comp, spec)
                    except Exception as ex:  # noqa: BLE001
                        res['errors'].append({'cls': c['name'], 'attr': g['attr'], 'msg': 'harness failure: %r' % ex})
                        continue
                    r['cls'] = c['name']
                    res['cases'].append(r)
                if g['pre'] is not None:
                    for spec in SMALL:
                        try:
                            r = run_case(tpl, g, comp, spec, pre_ok=False)
                        except Exception as ex:  # noqa: BLE001
                            res['errors'].append({'cls': c['name'], 'attr': g['attr'], 'msg': 'harness failure: %r' % ex})
                            continue
                        r['cls'] = c['name']
                        res['cases'].append(r)
            # NaN is outside the value universe of the model: probed for the record only
            if any(d[0] in ('cmp', 'between', 'cmpself') for d in g['doms']) and not inherited:
                o = fresh(tpl)
                try:
                    setattr(o, g['attr'], float('nan'))
                    res['nan'].append([g['cls'] + '.' + g['attr'], 'accepted'])
                except Exception as ex:  # noqa: BLE001
                    res['nan'].append([g['cls'] + '.' + g['attr'], hlib.exc_kind(ex)])
        gmap = {g['attr']: g for g in gs}
        for b in c['builds']:
            if b['dict'] is None or not b['items']:
                continue
            berr = 0
            try:
                dflt = {k[1:]: v for k, v in cls().__dict__.items() if k.startswith('_')}
            except Exception:  # noqa: BLE001
                dflt = {}
            # a dictionary holding only a key the class does not know must simply be accepted (no KeyError)
            for dspec in build_dicts(b, gmap, hlib.QUICK, dflt) + [[('zz_not_a_hyperparameter', {'k': 'int', 'v': '1'})]]:
                try:
                    res['builds'].append(run_build_case(cls, b, gmap, dspec))
                except Exception as ex:  # noqa: BLE001
                    berr += 1
                    if berr == 1 and not any(x['cls'] == c['name'] for x in res['ctor']):
                        res['errors'].append({'cls': c['name'], 'msg': 'build harness failure: %r' % ex})
            # the dictionary itself goes through the `hyperparams` guard
            for sp in ({'k': 'int', 'v': '5'}, {'k': 'none'}, {'k': 'list', 'n': 0}, {'k': 'str', 'v': 'w'}):
                try:
                    cls(hyperparams=make(sp))
                    o2 = 'ok'
                except Exception as ex:  # noqa: BLE001
                    o2 = hlib.exc_kind(ex)
                res['builds'].append({'cls': c['name'], 'build': b['name'], 'dict': None, 'hyper': sp, 'out': o2,
                                      'verdict': None if o2 == 'TypeError' else 'hyperparams-not-validated',
                                      'code': None})
    hlib.emit(res)


if __name__ == '__main__':
    main()
