"""S-run: run monitor and searcher for the run-level properties C01 C02 C03 C04 C05 C07 C12 C15 C20.

stdin: JSON payload {"focus": optimizer | "file.py:line" | property id | null, "n": #configurations (optional),
"procs": 12, "timeout": seconds per task, "configs": [explicit configurations] (optional), "witnesses": [configurations of
known findings, always re-run], "known": [[property, key], ...] (not shrunk again), "shrink": true}.
stdout: last line `@@JSON {...}` with
  records      one per distinct (property, key): smallest failing configuration found (shrunk), fully explicit
  coverage     measured counts (configurations, objective calls, hooks, records, draws, per-optimizer budgets ...)
  distribution counts per factor value
Every random choice comes from hlib.rng(tag) (VERIF_SEED): same seed => same matrix, same records.
"""
import multiprocessing as mp
import os
import sys
import time

sys.path.insert(0, os.path.dirname(os.path.dirname(os.path.abspath(__file__))))
from harness import hlib  # noqa: E402
from harness import srun_matrix as M  # noqa: E402


def _preload():
    """Import, in the parent, everything a task needs: the forked children inherit the loaded modules, so no import runs under a
    task's wall-clock limit (on a loaded machine the import of numpy.random alone has exceeded a 3 s limit)."""
    from harness import srun_core  # noqa: F401
    import numpy.random  # noqa: F401
    import importlib
    for m in ('opytimizer', 'opytimizer.core.function', 'opytimizer.spaces.search', 'opytimizer.spaces.hyper', 'opytimizer.spaces.tree',
              'opytimizer.utils.history', 'opytimizer.core.agent', 'opytimizer.math.hypercomplex'):
        try:
            importlib.import_module(m)
        except Exception:  # noqa: BLE001   (a broken module is the task's finding, not the pool's)
            pass


def _child(cfg, conn):
    try:
        from harness import srun_core
        try:
            res = srun_core.run_task(cfg)
        except srun_core.SoftTimeout:
            # the limit fired outside the observed task (start-up or reporting on a loaded machine): not a verdict on the library;
            # handled like any timeout -- re-run alone with a longer limit, dropped as load-induced if it does not repeat
            res = {'violations': [], 'stats': {'status': 'timeout', 'outcome': {'status': 'timeout', 'sites': []}}}
    except BaseException as ex:  # noqa: BLE001
        import traceback
        res = {'violations': [], 'stats': {'status': 'harness-error', 'error': '%s: %s' % (type(ex).__name__, ex), 'tb': traceback.format_exc()[-1500:]}}
    try:
        conn.send(res)
    finally:
        conn.close()


def run_pool(cfgs, procs=12, hard_extra=6.0):
    """One forked process per configuration (so a hang or a crash of the interpreter cannot take others down)."""
    ctx = mp.get_context('fork')
    _preload()
    results = [None] * len(cfgs)
    running = {}
    nxt = 0
    while nxt < len(cfgs) or running:
        while nxt < len(cfgs) and len(running) < procs:
            a, b = ctx.Pipe(duplex=False)
            p = ctx.Process(target=_child, args=(cfgs[nxt], b), daemon=True)
            p.start()
            b.close()
            mult = 6.0 if cfgs[nxt].get('repro') else 1.0
            running[nxt] = (p, a, time.time() + float(cfgs[nxt].get('timeout', 5)) * mult + hard_extra)
            nxt += 1
        done = []
        for i, (p, a, deadline) in running.items():
            if a.poll(0):
                try:
                    results[i] = a.recv()
                except EOFError:
                    results[i] = {'violations': [], 'stats': {'status': 'harness-error', 'error': 'worker died without a result (exit %s)' % p.exitcode}}
                p.join(1)
                done.append(i)
            elif not p.is_alive():
                if a.poll(0.2):
                    try:
                        results[i] = a.recv()
                    except EOFError:
                        results[i] = None
                if results[i] is None:
                    results[i] = {'violations': [], 'stats': {'status': 'harness-error', 'error': 'worker exited with code %s' % p.exitcode}}
                done.append(i)
            elif time.time() > deadline:
                p.kill()
                p.join(1)
                results[i] = {'violations': [{'property': 'C03', 'key': 'hard-timeout', 'what': 'task had to be killed (no response to the soft timeout)',
                                              'observed': 'killed', 'expected': 'returns normally'}],
                              'stats': {'status': 'killed'}}
                done.append(i)
        for i in done:
            a = running.pop(i)[1]
            a.close()
        if not done:
            time.sleep(0.005)
    return results


def fails_with(res, prop, key):
    return any(v['property'] == prop and v['key'] == key for v in res['violations'])


def shrink(cfg, prop, key, procs, budget=3):
    """Greedy reduction: try all smaller neighbours in parallel, move to the smallest that still fails the same way."""
    cur = cfg
    tried = 0
    for _ in range(budget):
        cands = M.shrink_candidates(cur)
        if not cands:
            break
        res = run_pool(cands, procs)
        tried += len(cands)
        good = [c for c, r in zip(cands, res) if fails_with(r, prop, key)]
        if not good:
            break
        cur = sorted(good, key=M.size)[0]
    return cur, tried


def main():
    t0 = time.time()
    payload = hlib.payload() or {}
    quick = hlib.QUICK
    procs = int(payload.get('procs', 12))
    timeout = float(payload.get('timeout', 5.0 if quick else 10.0))
    focus = payload.get('focus')
    if payload.get('configs'):
        cfgs = payload['configs']
    else:
        n = int(payload.get('n', 408 if quick else 4000))
        cfgs = M.matrix(n, focus, timeout)
        cfgs += M.hunts(quick, focus, timeout)
    for k, w in enumerate(payload.get('witnesses') or []):      # recorded witnesses of known findings: re-run every time
        cfgs.append(dict(w, id='witness-%d' % k, timeout=float(w.get('timeout', timeout))))
    results = run_pool(cfgs, procs)
    # soft timeouts may be caused by machine load: confirm each once, alone, with a longer limit
    retry_all = [i for i, r in enumerate(results) if r['stats'].get('status') in ('timeout', 'killed')]
    flaky = 0
    if retry_all:
        # per hang key: confirm the three smallest configurations; if none confirms, every timeout of that key is dropped as load-induced
        groups = {}
        for i in retry_all:
            k = tuple(sorted((v['property'], v['key']) for v in results[i]['violations'] if 'nonterminating' in v['key'] or v['key'] == 'hard-timeout'))
            groups.setdefault(k, []).append(i)
        retry = []
        for k, idx in sorted(groups.items()):
            retry += sorted(idx, key=lambda i: M.size(cfgs[i]))[:3]
        again = run_pool([dict(cfgs[i], timeout=2 * float(cfgs[i].get('timeout', timeout))) for i in retry], max(1, procs // 2))
        confirmed = set()
        for i, r in zip(retry, again):
            if r['stats'].get('status') in ('timeout', 'killed'):
                confirmed.add(next(k for k, idx in groups.items() if i in idx))
            else:
                flaky += 1
                results[i] = r
        for k, idx in groups.items():
            if k not in confirmed:
                for i in idx:
                    if results[i]['stats'].get('status') in ('timeout', 'killed'):
                        flaky += 1
                        results[i] = {'violations': [], 'stats': {'status': 'flaky-timeout'}}
    # aggregate
    by = {}
    cov = {'configurations': len(cfgs), 'objective_calls': 0, 'hook_calls': 0, 'records': 0, 'uniform_calls': 0, 'normal_calls': 0, 'choice_calls': 0,
           'agent_check_limits': 0, 'space_check_limits': 0, 'status': {}, 'skipped': {}, 'nontrivial': 0, 'flaky_timeouts': flaky,
           'budget_observed': {}, 'harness_errors': [], 'per_property_configs': {}}
    dist = {}
    for cfg, r in zip(cfgs, results):
        s = r['stats']
        st = s.get('status', '?')
        cov['status'][st] = cov['status'].get(st, 0) + 1
        if st == 'harness-error':
            cov['harness_errors'].append({'id': cfg['id'], 'error': s.get('error'), 'tb': s.get('tb')})
            continue
        cov['objective_calls'] += s.get('n_evals') or 0
        cov['hook_calls'] += s.get('n_hooks') or 0
        cov['records'] += s.get('n_dumps') or 0
        if st == 'ok':                       # a hung task draws until it is stopped: wall-clock dependent, not counted
            cov['uniform_calls'] += s.get('n_uniform') or 0
            cov['normal_calls'] += s.get('n_normal') or 0
            cov['choice_calls'] += s.get('n_choice') or 0
        cov['agent_check_limits'] += s.get('clip_agent') or 0
        cov['space_check_limits'] += s.get('clip_space') or 0
        cov['nontrivial'] += 1 if s.get('nontrivial') else 0
        for k, v in (s.get('skipped') or {}).items():
            cov['skipped'][k] = cov['skipped'].get(k, 0) + v
        if s.get('max_iter_calls') is not None:
            o = cfg['optimizer']
            per_n = s['max_iter_calls'] / float(cfg['n_agents'])
            b = cov['budget_observed'].setdefault(o, {'max_calls_per_iteration_over_n': 0.0, 'budget': M.WR[o]['budget']})
            b['max_calls_per_iteration_over_n'] = max(b['max_calls_per_iteration_over_n'], round(per_n, 3))
        for k in ('optimizer', 'space', 'objective', 'ret', 'box', 'n_agents', 'n_variables', 'n_dimensions', 'n_iterations', 'draws', 'hp_mode',
                  'store_best_only', 'hook'):
            key = '%s=%s' % (k, cfg.get(k))
            dist[key] = dist.get(key, 0) + 1
        # which properties this configuration counts for
        props = ['C03', 'C04', 'C15']
        if cfg.get('hook') != 'move':
            props += ['C01', 'C02', 'C07', 'C20']
        if cfg['space'] == 'tree':
            props.append('C12')
        if cfg.get('repro') and cfg.get('draws') == 'seeded':
            props.append('C05')
        for p in props:
            cov['per_property_configs'][p] = cov['per_property_configs'].get(p, 0) + 1
        for v in r['violations']:
            k = (v['property'], v['key'])
            by.setdefault(k, []).append((cfg, v))
    records = []
    n_shrink = 0
    known = [list(x) for x in (payload.get('known') or [])]     # already recorded findings: reported as found, not shrunk again
    for (prop, key) in sorted(by):
        lst = sorted(by[(prop, key)], key=lambda cv: M.size(cv[0]))
        cfg, v = lst[0]
        if payload.get('shrink', True) and key != 'hard-timeout' and [prop, key] not in known:
            small, tried = shrink(cfg, prop, key, procs)
            n_shrink += tried
            if small is not cfg:
                rr = run_pool([small], 1)[0]
                vv = [x for x in rr['violations'] if x['property'] == prop and x['key'] == key]
                if vv:
                    cfg, v = small, vv[0]
        rec = {'property': prop, 'key': key, 'what': '%s %s/%s: %s' % (cfg['optimizer'], cfg['space'], cfg['objective'], v['what']),
               'optimizer': cfg['optimizer'], 'config': cfg, 'observed': v.get('observed'), 'expected': v.get('expected'),
               'n_configs_failing': len(lst), 'other_optimizers': sorted({c['optimizer'] for c, _ in lst}),
               'draw_scripts': sorted({c['draws'] for c, _ in lst}), 'objectives': sorted({c['objective'] for c, _ in lst}),
               'boxes': sorted({str(c.get('box')) for c, _ in lst}),
               'from_witnesses': sorted({tuple(c['witness_of']) for c, _ in lst if c.get('witness_of')})}
        records.append(rec)
    cov['shrink_runs'] = n_shrink
    cov['wall_s'] = round(time.time() - t0, 1)
    hlib.emit({'records': records, 'coverage': cov, 'distribution': dist, 'focus': focus, 'tier': hlib.TIER, 'seed': hlib.SEED})


if __name__ == '__main__':
    main()
