"""Observable-effect traces of real runs, for the validation of translator T2 (Analysis/Accept.v).

For every optimizer a few small tasks are run with wrappers installed from outside; the sequence of
H (hook), E (objective call), C (Agent.check_limits), A (Space.check_limits), D (history.dump inside run),
R (top-level call into r.generate_* / d.generate_* / g.tournament_selection) is emitted."""
import os
import sys

sys.path.insert(0, os.path.dirname(os.path.dirname(os.path.abspath(__file__))))
from harness import hlib  # noqa: E402
import numpy as np  # noqa: E402

import opytimizer  # noqa: E402
from opytimizer import Opytimizer  # noqa: E402
from opytimizer.core.function import Function  # noqa: E402
from opytimizer.core.agent import Agent  # noqa: E402
from opytimizer.spaces.search import SearchSpace  # noqa: E402
from opytimizer.spaces.hyper import HyperSpace  # noqa: E402
from opytimizer.spaces.tree import TreeSpace  # noqa: E402
from opytimizer.utils.history import History  # noqa: E402
import opytimizer.math.random as r  # noqa: E402
import opytimizer.math.distribution as d  # noqa: E402
import opytimizer.math.general as g  # noqa: E402
import importlib  # noqa: E402

OPTS = [('ABC', 'abc'), ('AIWPSO', 'aiwpso'), ('BA', 'ba'), ('BHA', 'bha'), ('CS', 'cs'), ('FA', 'fa'), ('FPA', 'fpa'), ('GP', 'gp'),
        ('GSA', 'gsa'), ('HC', 'hc'), ('HS', 'hs'), ('IHS', 'ihs'), ('PSO', 'pso'), ('RPSO', 'rpso'), ('SA', 'sa'), ('SCA', 'sca'),
        ('WCA', 'wca')]

EV = []
DEPTH = [0]


def wrap_draw(mod, name):
    orig = getattr(mod, name)

    def w(*a, **k):
        if DEPTH[0] == 0:
            EV.append('R')
        DEPTH[0] += 1
        try:
            return orig(*a, **k)
        finally:
            DEPTH[0] -= 1
    setattr(mod, name, w)
    return orig


def install():
    saved = []
    for mod, names in ((r, ('generate_uniform_random_number', 'generate_gaussian_random_number')),
                       (d, ('generate_levy_distribution', 'generate_bernoulli_distribution')),
                       (g, ('tournament_selection',))):
        for n in names:
            saved.append((mod, n, wrap_draw(mod, n)))
    oa = Agent.check_limits

    def ca(self):
        EV.append('C')
        return oa(self)
    Agent.check_limits = ca
    saved.append((Agent, 'check_limits', oa))
    for cls in (SearchSpace, HyperSpace, TreeSpace):
        if 'check_limits' in cls.__dict__:
            o = cls.__dict__['check_limits']

            def cs(self, _o=o):
                EV.append('A')
                return _o(self)
            cls.check_limits = cs
            saved.append((cls, 'check_limits', o))
    od = History.dump

    def dump(self, **kw):
        if 'time' not in kw:
            EV.append('D')
        return od(self, **kw)
    History.dump = dump
    saved.append((History, 'dump', od))
    return saved


def uninstall(saved):
    for obj, n, o in reversed(saved):
        setattr(obj, n, o)


def objective(x):
    EV.append('E')
    return float(np.sum(x ** 2))


def hook(opt, space, function):
    EV.append('H')


def build(cls, modname, n_agents, n_vars, n_iter, kind):
    mod = importlib.import_module('opytimizer.optimizers.' + modname)
    opt = getattr(mod, cls)()
    if cls == 'GP':
        space = TreeSpace(n_trees=n_agents, n_terminals=2, n_variables=n_vars, n_iterations=n_iter, min_depth=1, max_depth=3,
                          functions=['SUM', 'SUB', 'MUL', 'DIV'], lower_bound=[-5.0] * n_vars, upper_bound=[5.0] * n_vars)
    elif kind == 'hyper':
        space = HyperSpace(n_agents=n_agents, n_variables=n_vars, n_dimensions=2, n_iterations=n_iter,
                           lower_bound=[-5.0] * n_vars, upper_bound=[5.0] * n_vars)
    else:
        space = SearchSpace(n_agents=n_agents, n_variables=n_vars, n_iterations=n_iter, lower_bound=[-5.0] * n_vars, upper_bound=[5.0] * n_vars)
    return opt, space


def main():
    rng = hlib.rng('t2trace')
    cases = []
    configs = [(3, 2, 2, 'search'), (4, 1, 1, 'search'), (5, 2, 3, 'hyper')] if hlib.QUICK else \
        [(3, 2, 2, 'search'), (4, 1, 1, 'search'), (5, 2, 3, 'hyper'), (2, 3, 4, 'search'), (7, 2, 2, 'search'), (6, 1, 5, 'hyper')]
    for cls, modname in OPTS:
        for (na, nv, ni, kind) in configs:
            if cls == 'WCA':
                na = max(na, 12)        # WCA needs n_agents > nsr (default 10)
            seed = rng.randrange(1 << 30)
            np.random.seed(seed)
            try:
                opt, space = build(cls, modname, na, nv, ni, kind)
            except Exception as ex:  # noqa: BLE001
                cases.append({'optimizer': cls, 'error': 'build: %r' % ex})
                continue
            saved = install()
            del EV[:]
            DEPTH[0] = 0
            err = None
            try:
                Opytimizer(space=space, optimizer=opt, function=Function(pointer=objective)).start(pre_evaluation_hook=hook)
            except Exception as ex:  # noqa: BLE001
                err = repr(ex)
            finally:
                uninstall(saved)
            cases.append({'optimizer': cls, 'n_agents': na, 'n_variables': nv, 'n_iterations': ni, 'space': 'tree' if cls == 'GP' else kind,
                          'seed': seed, 'trace': ''.join(EV), 'error': err})
    hlib.emit({'cases': cases})


if __name__ == '__main__':
    main()
