"""Differential state replay, recording side (validation of translator T2 and of Model/IRSem.v at the level of STATE).

For every optimizer the recording PLAN emitted by T2 (translate/t2_ir.py: meta[cls]['plan']) says which Python AST nodes
correspond to the oracle-consuming atoms of the generated IR program (Havoc, Opaque, ChooseIdx, RepeatAny, Onlooker, GP tree
steps).  The source of the modules in the class hierarchy of the optimizer is rewritten accordingly (ast.NodeTransformer),
compiled and installed IN PLACE OF the real modules; small real tasks are then run and, per task, we emit
  x0        the IR state at the entry of run(): positions / fitnesses of all agents and of the best agent (float keys)
  oracle    the answers the IR semantics consumes, in consumption order
  ftable    the objective as a finite table  argument contents -> value key
  expected  argument and value of every objective call in order, population + best agent at every history.dump and at return
props/_ir.py: state_replay evaluates `run ... prog_X oracle x0` inside Coq and compares.

Run under /venv/bin/python with PYTHONPATH=<repo>:/verif.  Everything random derives from VERIF_SEED.
"""
import ast
import copy
import importlib
import os
import signal
import sys
import types

sys.path.insert(0, os.path.dirname(os.path.dirname(os.path.abspath(__file__))))
from harness import hlib  # noqa: E402
import numpy as np  # noqa: E402
from translate import t2_ir  # noqa: E402

REPO = os.environ.get('VERIF_REPO') or next((p for p in os.environ.get('PYTHONPATH', '').split(':') if p), '/repo')
MAX_ANSWERS = 4000
KMAX = hlib.key(sys.float_info.max)


class Abort(BaseException):
    """Raised by the recorder to stop a run that leaves the scope of the replay (too long, timeout)."""


def keys_of_pos(a):
    a = np.asarray(a, dtype=float)
    if a.ndim == 1:
        a = a.reshape(-1, 1)
    if a.ndim != 2:
        raise ValueError('position of dimension %d' % a.ndim)
    return [[hlib.key(v) for v in row] for row in a]


def has_nan(c):
    return any(k is None for row in c for k in row)


# ------------------------------------------------------------------ recorder

class Recorder:
    def __init__(self):
        self.active = False
        self.reset(1, None)

    def reset(self, n, space):
        self.o = []          # answers: ['C', contents] | ['B', bool] | ['N', nat] | ['T', [contents]]
        self.src = []        # per answer: id of the plan entry that produced it
        self.stack = []
        self.n = n
        self.space = space
        self.nan = False
        self.bad = None

    def _push(self, a, eid):
        if len(self.o) >= MAX_ANSWERS:
            raise Abort('more than %d oracle answers' % MAX_ANSWERS)
        self.o.append(a)
        self.src.append(eid)

    def havoc(self, eid, pos):
        if self.active:
            c = keys_of_pos(pos)
            self.nan = self.nan or has_nan(c)
            self._push(['C', c], eid)

    def opaque(self, eid, v):
        if self.active:
            self._push(['B', bool(v)], eid)
        return v

    def idx(self, eid, v):
        if self.active:
            i = int(v)
            if i < 0:
                i += self.n
            if not 0 <= i < self.n and self.bad is None:
                self.bad = 'index register set to %d outside the population (size %d)' % (int(v), self.n)
            self._push(['N', max(i, 0)], eid)

    def idx_dead(self, eid):
        if self.active:
            self._push(['N', 0], eid)

    def loop_begin(self, eid):
        if self.active:
            self.stack.append([eid, len(self.o), 0])
            self._push(['N', None], eid)

    def loop_iter(self, eid):
        if self.active:
            if not self.stack or self.stack[-1][0] != eid:
                self.bad = self.bad or 'loop bookkeeping out of step'
                return
            self.stack[-1][2] += 1

    def loop_end(self, eid):
        if self.active:
            if not self.stack or self.stack[-1][0] != eid:
                self.bad = self.bad or 'loop bookkeeping out of step'
                return
            _, at, n = self.stack.pop()
            self.o[at] = ['N', n]

    def trees(self, eid):
        if self.active:
            t = [keys_of_pos(tr.position) for tr in self.space.trees]
            self.nan = self.nan or any(has_nan(c) for c in t)
            self._push(['T', t], eid)


REC = Recorder()


# ------------------------------------------------------------------ instrumentation

def _call(name, eid, *args):
    return ast.Call(func=ast.Attribute(value=ast.Name(id='_t2rec', ctx=ast.Load()), attr=name, ctx=ast.Load()),
                    args=[ast.Constant(value=eid)] + list(args), keywords=[])


def _expr(text):
    return ast.parse(text, mode='eval').body


def _pos(node):
    return (node.lineno, node.col_offset, getattr(node, 'end_lineno', None), getattr(node, 'end_col_offset', None))


class Instr(ast.NodeTransformer):
    """Rewrites one module according to the plan entries (with their ids) that live in it."""

    def __init__(self, entries):
        self.stmts = {}
        self.leaves = {}
        for eid, e in entries:
            if e['kind'] == 'opaque':
                self.leaves[tuple(e['leaf'])] = eid
            else:
                self.stmts.setdefault(tuple(e['pos']), []).append((eid, e))
        self.used = set()

    def visit(self, node):
        if isinstance(node, ast.expr):
            k = _pos(node)
            if k in self.leaves and self.leaves[k] not in self.used:
                eid = self.leaves[k]
                self.used.add(eid)
                inner = self.generic_visit(node)
                return ast.copy_location(_call('opaque', eid, inner), node)
            return self.generic_visit(node)
        if isinstance(node, ast.stmt):
            ents = self.stmts.get(_pos(node))
            if ents and any(eid in self.used for eid, _ in ents):
                ents = None          # (an Expr statement and a nested statement never share a position; defensive)
            node = self.generic_visit(node)
            if not ents:
                return node
            pre, post, inner_pre, loop_post = [], [], [], []
            for eid, e in ents:
                self.used.add(eid)
                k = e['kind']
                if k == 'chooseidx':
                    for text, comp in e['exprs']:
                        pre.append(ast.Expr(_call('idx_dead', eid) if comp else _call('idx', eid, _expr(text))))
                elif k == 'havoc':
                    post.append(ast.Expr(_call('havoc', eid, _expr(e['target']))))
                elif k == 'tree':
                    post.append(ast.Expr(_call('trees', eid)))
                elif k in ('repeatany', 'onlooker'):
                    if not isinstance(node, (ast.For, ast.While)):
                        raise ValueError('plan: %s at a %s' % (k, type(node).__name__))
                    inner_pre.append(ast.Expr(_call('loop_iter', eid)))
                    if e.get('idxvar'):
                        inner_pre.append(ast.Expr(_call('idx', eid, ast.Name(id=e['idxvar'], ctx=ast.Load()))))
                    pre_loop = ast.Expr(_call('loop_begin', eid))
                    loop_post.append(ast.Expr(_call('loop_end', eid)))
                    pre.append(('LOOP', pre_loop))
            # ChooseIdx answers precede the loop count (T2: pre + [At RepeatAny])
            pre = [p for p in pre if not isinstance(p, tuple)] + [p[1] for p in pre if isinstance(p, tuple)]
            if inner_pre:
                node.body = inner_pre + node.body
            out = pre + [node] + post + loop_post
            for n in out:
                if n is not node:
                    ast.copy_location(n, node)
                    ast.fix_missing_locations(n)
            return out
        return self.generic_visit(node)


def instrument(repo, rel, entries):
    """-> (code object, list of plan-entry ids that were not found in the source)."""
    path = os.path.join(repo, rel)
    src = open(path).read()
    tree = ast.parse(src, filename=rel)
    try:
        from translate.common import normalise
        normalise(tree)          # the same behaviour-preserving normalisation T2 applies before it writes the plan
    except ImportError:
        pass
    ins = Instr(entries)
    tree = ins.visit(tree)
    ast.fix_missing_locations(tree)
    missing = [eid for eid, _ in entries if eid not in ins.used]
    return compile(tree, path, 'exec'), missing


class Installed:
    """The modules of one optimizer's class hierarchy, re-created from instrumented source and installed in sys.modules."""

    def __init__(self, repo, cls, plan):
        self.cls = cls
        self.saved = []
        self.problems = list(plan['conflicts'])
        self.entries = plan['entries']
        by_file = {}
        for eid, e in enumerate(self.entries):
            if e['kind'] == 'chooseidx' and e.get('exprs') is None:
                self.problems.append('%s:%d: index expressions not tracked' % (e['file'], e['line']))
            by_file.setdefault(e['file'], []).append((eid, e))
        for f in by_file:
            if f not in plan['files']:
                self.problems.append('plan entry in %s, outside the class hierarchy' % f)
        self.codes = []
        if self.problems:
            return
        for rel in reversed(plan['files']):          # base classes first
            try:
                code, missing = instrument(repo, rel, by_file.get(rel, []))
            except Exception as ex:  # noqa: BLE001
                self.problems.append('%s: instrumentation failed: %r' % (rel, ex))
                return
            for eid in missing:
                self.problems.append('%s:%d: plan entry (%s) not found in the source' % (rel, self.entries[eid]['line'], self.entries[eid]['kind']))
            self.codes.append((rel[:-3].replace('/', '.'), code, os.path.join(repo, rel)))

    def __enter__(self):
        try:
            for name, code, path in self.codes:
                importlib.import_module(name)                 # make sure the package and the original exist
                self.saved.append((name, sys.modules[name]))
                mod = types.ModuleType(name)
                mod.__file__ = path
                mod.__package__ = name.rpartition('.')[0]
                mod.__dict__['_t2rec'] = REC
                sys.modules[name] = mod
                exec(code, mod.__dict__)
                setattr(sys.modules[mod.__package__], name.rpartition('.')[2], mod)
        except BaseException:
            self.__exit__()
            raise
        return self

    def __exit__(self, *a):
        for name, mod in reversed(self.saved):
            sys.modules[name] = mod
            setattr(sys.modules[name.rpartition('.')[0]], name.rpartition('.')[2], mod)
        self.saved = []

    def optimizer(self, hyperparams=None):
        name = self.codes[-1][0]
        return getattr(sys.modules[name], self.cls)(hyperparams=dict(hyperparams or {}))


def dead_regs_ok(ir, plan):
    """A ChooseIdx whose index expression is local to a comprehension cannot be observed from a statement; the recorder answers 0.
    That is exact only if no Slot reference of the program reads that register."""
    used = set()

    def walk(s):
        if isinstance(s, (tuple, list)):
            if len(s) == 2 and s[0] == 'Slot':
                used.add(s[1])
            for x in s:
                walk(x)
    walk(ir)
    bad = []
    for e in plan['entries']:
        if e['kind'] == 'chooseidx' and e.get('exprs'):
            for reg, (text, comp) in zip(e['regs'], e['exprs']):
                if comp and reg in used:
                    bad.append('%s:%d: comprehension-local index `%s` feeds register %d that the program reads' % (e['file'], e['line'], text, reg))
    return bad


# ------------------------------------------------------------------ one task

OBJECTIVES = {
    'sphere': lambda lb, ub: (lambda y: np.sum(y ** 2)),
    'negative': lambda lb, ub: (lambda y: -1.0 - np.sum(y ** 2)),
    'shifted': lambda lb, ub: (lambda y, s=(2.0 * ub - lb + 1.0): np.sum((y - s[:y.shape[0]]) ** 2)),
}
BOXES = [(-5.0, 5.0), (-1.0, 3.0), (2.0, 10.0), (-10.0, -0.5)]


def snapshot(agents, best, local=None, space=None):
    d = {'pop': [[keys_of_pos(a.position), hlib.key(a.fit)] for a in agents],
         'best': [keys_of_pos(best.position), hlib.key(best.fit)], 'loc': None, 'trees': None, 'btree': None}
    if local is not None:
        d['loc'] = [keys_of_pos(x) for x in local]
    if space is not None and hasattr(space, 'trees'):          # GP: the value of every tree and of the best tree
        d['trees'] = [keys_of_pos(t.position) for t in space.trees]
        d['btree'] = keys_of_pos(space.best_tree.position)
    return d


def snap_nan(d):
    return (any(has_nan(c) or k is None for c, k in d['pop']) or has_nan(d['best'][0]) or d['best'][1] is None
            or (d['loc'] is not None and any(has_nan(c) for c in d['loc']))
            or (d['trees'] is not None and (any(has_nan(c) for c in d['trees']) or has_nan(d['btree']))))


def on_alarm(signum, frame):
    raise Abort('timeout')


def other_optimizer(name):
    """An optimizer of another class for an earlier task (whatever module is installed under that name: the recorder is inactive)."""
    mod = importlib.import_module('opytimizer.optimizers.' + name.lower())
    return getattr(mod, name)()


def run_case(inst, cfg):
    """-> (case dict, None) or (None, reason it was skipped)."""
    from opytimizer import Opytimizer
    from opytimizer.core.function import Function
    from opytimizer.spaces.search import SearchSpace
    from opytimizer.spaces.hyper import HyperSpace
    from opytimizer.utils.history import History
    nv, na, T = cfg['n_variables'], cfg['n_agents'], cfg['n_iterations']
    lo, hi = cfg['box']
    np.random.seed(cfg['seed'])
    # per-variable bounds differ: the second variable lives in the middle half of the first one's interval
    lb = [lo + 0.25 * (hi - lo) * (j % 2) for j in range(nv)]
    ub = [hi - 0.25 * (hi - lo) * (j % 2) for j in range(nv)]
    if cfg['space'] == 'tree':
        from opytimizer.spaces.tree import TreeSpace
        space = TreeSpace(n_trees=na, n_terminals=2, n_variables=nv, n_iterations=T, min_depth=1, max_depth=3,
                          functions=['SUM', 'SUB', 'MUL', 'DIV'], lower_bound=lb, upper_bound=ub)
    elif cfg['space'] == 'hyper':
        space = HyperSpace(n_agents=na, n_variables=nv, n_dimensions=2, n_iterations=T, lower_bound=lb, upper_bound=ub)
    else:
        space = SearchSpace(n_agents=na, n_variables=nv, n_iterations=T, lower_bound=lb, upper_bound=ub)
    opt = inst.optimizer(cfg.get('hyperparams'))
    raw = OBJECTIVES[cfg['objective']](np.asarray(lb).reshape(-1, 1), np.asarray(ub).reshape(-1, 1))
    calls, dumps, st = [], [], {}

    def objective(x):
        v = raw(x)
        calls.append((keys_of_pos(x), hlib.key(v)))
        return v

    def observer(o, s, f):
        st['hooks'] = st.get('hooks', 0) + 1

    # a history of tasks: earlier tasks on the same space (same objective, not recorded: the recorder is inactive); the observed task
    # then starts from the state they leave -- positions AND fitnesses of the agents, the best agent, the trees
    signal.signal(signal.SIGALRM, on_alarm)
    for pre in cfg.get('prelude') or []:
        signal.alarm(20)
        try:
            popt = opt if pre == 'self' else (inst.optimizer(cfg.get('hyperparams')) if pre == 'same-class' else other_optimizer(pre))
            with np.errstate(all='ignore'):
                Opytimizer(space=space, optimizer=popt, function=Function(pointer=lambda y: raw(y))).start()
        except Abort as ex:
            return None, 'prelude aborted: %s' % ex
        except Exception as ex:  # noqa: BLE001
            return None, 'prelude exception: %s' % type(ex).__name__
        finally:
            signal.alarm(0)

    orig_run, orig_dump = opt.run, History.dump

    def run(sp, function, store_best_only=False, pre_evaluation_hook=None):
        # the box of the SPECIFICATION: the declared bounds (search space), the unit box (hypercomplex space) -- not read from the agents
        st['lbs'] = [hlib.key(0.0 if cfg['space'] == 'hyper' else v) for v in lb]
        st['ubs'] = [hlib.key(1.0 if cfg['space'] == 'hyper' else v) for v in ub]
        st['x0'] = snapshot(sp.agents, sp.best_agent, None, sp)
        # state the model does not carry: every agent is assumed to clip to the box of the specification.  An agent that enters the
        # task with other bounds (left by an earlier task) is a gap of the history model `run p o (with_loc x lc)`: reported as a
        # disagreement even if this run happens not to clip.
        want_lb = [0.0] * nv if cfg['space'] == 'hyper' else lb
        want_ub = [1.0] * nv if cfg['space'] == 'hyper' else ub
        st['gaps'] = ['agent %d enters the task with bounds %s..%s, the space declares %s..%s' % (
            i, np.asarray(a.lb).tolist(), np.asarray(a.ub).tolist(), want_lb, want_ub) for i, a in enumerate(sp.agents)
            if not (np.array_equal(np.asarray(a.lb, dtype=float), want_lb) and np.array_equal(np.asarray(a.ub, dtype=float), want_ub))][:3]
        st['shape'] = list(np.asarray(sp.agents[0].position).shape)
        REC.reset(len(sp.agents), sp)
        REC.active = True
        try:
            return orig_run(sp, function, store_best_only, pre_evaluation_hook)
        finally:
            REC.active = False

    def dump(self, **kw):
        if 'time' not in kw and REC.active:
            dumps.append(snapshot(kw['agents'], kw['best_agent'], kw.get('local'), REC.space))
        return orig_dump(self, **kw)

    opt.run = run
    History.dump = dump
    signal.signal(signal.SIGALRM, on_alarm)
    signal.alarm(20)
    try:
        with np.errstate(all='ignore'):
            Opytimizer(space=space, optimizer=opt, function=Function(pointer=objective)).start(pre_evaluation_hook=observer)
    except Abort as ex:
        return None, 'aborted: %s' % ex
    except Exception as ex:  # noqa: BLE001
        return None, 'exception: %s' % type(ex).__name__
    finally:
        signal.alarm(0)
        History.dump = orig_dump
        REC.active = False
    final = snapshot(space.agents, space.best_agent, None, space)
    if REC.bad:
        return None, REC.bad
    if REC.stack:
        return None, 'loop bookkeeping out of step'
    if REC.nan or any(has_nan(c) or v is None for c, v in calls) or any(snap_nan(d) for d in dumps + [final, st['x0']]):
        return None, 'nan'
    ftab = {}
    for c, v in calls:
        k = repr(c)
        if k in ftab and ftab[k][1] != v:
            return None, 'objective not deterministic'
        ftab[k] = (c, v)
    case = {'prelude': list(cfg.get('prelude') or []), 'gaps': st.get('gaps') or [], 'optimizer': inst.cls, 'N': na, 'T': T, 'space': cfg['space'], 'hyperparams': cfg.get('hyperparams') or {}, 'objective': cfg['objective'], 'seed': cfg['seed'], 'box': [lb, ub],
            'n_variables': nv, 'shape': st['shape'], 'lbs': st['lbs'], 'ubs': st['ubs'], 'x0': st['x0'], 'oracle': REC.o, 'osrc': REC.src,
            'ftable': [list(x) for x in ftab.values()],
            'expected': {'args': [c for c, _ in calls], 'vals': [v for _, v in calls], 'dumps': dumps, 'final': final},
            'hooks': st.get('hooks', 0)}
    return case, None


# ------------------------------------------------------------------ the matrix

QUICK_CONFIGS = [  # (n_agents, n_variables, n_iterations, space, objective)
    (1, 1, 1, 'search', 'sphere'), (2, 1, 2, 'search', 'negative'), (3, 2, 2, 'search', 'sphere'), (4, 2, 3, 'search', 'shifted'),
    (2, 2, 1, 'hyper', 'sphere'), (3, 1, 3, 'hyper', 'negative'), (4, 1, 2, 'hyper', 'shifted'), (3, 2, 3, 'search', 'negative')]


HIST_PATTERNS = [['self'], ['PSO'], ['WCA'], ['HS'], ['ABC'], ['same-class'], ['PSO', 'self'], ['self', 'self'], ['HS', 'WCA'], ['GSA'],
                 ['WCA', 'self'], ['BHA', 'same-class']]
HIST_TREE = [['self'], ['same-class'], ['self', 'self'], ['same-class', 'self']]
MIN_AGENTS = {'WCA': 2, 'GSA': 2}
VARIANTS = {'ABC': {'n_trials': 1}}      # the scout phase needs more than n_trials (default 10) failed trials of one source


def configs(cls, rng, min_agents):
    out = []
    if hlib.QUICK:
        base = QUICK_CONFIGS
    else:
        base = list(QUICK_CONFIGS)
        while len(base) < 60:
            base.append((rng.randint(1, 4), rng.randint(1, 2), rng.randint(1, 3), rng.choice(['search', 'search', 'hyper']),
                         rng.choice(['sphere', 'negative', 'shifted'])))
    for k, (na, nv, T, space, obj) in enumerate(base):
        if cls == 'GP':      # tree space; with the default probabilities the three genetic steps select something only from 8-10 trees on
            na, space = (1, 4, 8, 10, 12, 10, 12, 16)[k % 8], 'tree'
        out.append({'n_agents': max(na, min_agents), 'n_variables': nv, 'n_iterations': T, 'space': space, 'objective': obj,
                    'box': list(BOXES[k % len(BOXES)] if k >= 3 else BOXES[0]),
                    # default hyperparameters, except where a branch of the program is unreachable with them in <= 3 iterations
                    'hyperparams': VARIANTS.get(cls, {}) if k % 4 == 3 else {}})
    # histories: the observed task is the second or third task on its space.  'self' = the same optimizer OBJECT ran the earlier task
    # (its adaptive hyperparameters have moved), 'same-class' = another object of the class, otherwise an optimizer of another class
    pats = HIST_TREE if cls == 'GP' else HIST_PATTERNS
    for k in range(2 if hlib.QUICK else 12):
        off = [c for c, _ in t2_ir.OPTIMIZERS].index(cls)      # the second pattern rotates with the optimizer, the first is always 'self'
        if k < 2:
            na, nv, T, space, obj = QUICK_CONFIGS[2 if k == 0 else (5, 3)[off % 2]]
        else:
            na, nv, T, space, obj = (rng.randint(2, 4), rng.randint(1, 2), rng.randint(1, 3), rng.choice(['search', 'search', 'hyper']),
                                     rng.choice(['sphere', 'negative', 'shifted']))
        if cls == 'GP':
            na, space = (10, 12, 4, 8, 16, 10)[k % 6], 'tree'
        pre = list(pats[0] if k == 0 else pats[1 + (k - 1 + off) % (len(pats) - 1)])
        need = max([min_agents, na] + [MIN_AGENTS.get(p, 1) for p in pre])
        out.append({'n_agents': need, 'n_variables': nv, 'n_iterations': T, 'space': space, 'objective': obj, 'box': list(BOXES[(k + 1) % len(BOXES)]),
                    'hyperparams': {}, 'prelude': pre})
    return out


def main():
    import json
    wr = json.load(open(os.path.join(os.path.dirname(os.path.dirname(os.path.abspath(__file__))), 'working_ranges.json')))['optimizers']
    only = [a for a in sys.argv[1:] if not a.startswith('-')]
    text, meta, errors = t2_ir.translate_all(REPO)
    rng = hlib.rng('t2state')
    cases, skipped, not_replayed = [], {}, {}
    for cls, _ in t2_ir.OPTIMIZERS:
        if only and cls not in only:
            continue
        if cls not in meta:
            not_replayed[cls] = ['not translated by T2']
            continue
        plan = meta[cls]['plan']
        inst = Installed(REPO, cls, plan)
        problems = inst.problems + dead_regs_ok(meta[cls]['ir'], plan)
        if problems:
            not_replayed[cls] = problems
            continue
        seeds = [rng.randrange(1 << 30) for _ in range(400)]
        try:
            inst.__enter__()
        except Exception as ex:  # noqa: BLE001
            not_replayed[cls] = ['the instrumented modules do not load: %r' % ex]
            continue
        try:
            k = 0
            for cfg in configs(cls, rng, wr.get(cls, {}).get('min_agents', 1)):
                for attempt in range(3):           # a skipped run (NaN, exception) is retried with another seed
                    cfg['seed'] = seeds[k % len(seeds)]
                    k += 1
                    try:
                        case, why = run_case(inst, dict(cfg))
                    except Abort as ex:
                        case, why = None, 'aborted: %s' % ex
                    except Exception as ex:  # noqa: BLE001  (building the space / the optimizer failed)
                        case, why = None, 'exception while building the task: %s' % type(ex).__name__
                    if case is not None:
                        case['plan'] = ['%s:%d:%s' % (os.path.basename(e['file']), e['line'], e['kind']) for e in plan['entries']]
                        cases.append(case)
                        break
                    skipped.setdefault(cls, {})
                    skipped[cls][why] = skipped[cls].get(why, 0) + 1
        finally:
            inst.__exit__()
    hlib.emit({'cases': cases, 'skipped': skipped, 'not_replayed': not_replayed, 'errors': errors, 'repo': REPO})


if __name__ == '__main__':
    main()
