"""Re-run one recorded C06 case against the current /repo and re-evaluate the property oracle."""
from harness import hlib, c06
from harness.hlib import unkey

doc = hlib.payload()
case = doc['replay'].get('case')
kind = doc['replay'].get('kind', '')
res = {'fails': False}
if case is None:
    res['note'] = 'no concrete input recorded (broken obligation): ' + str(doc['replay'])[:500]
elif kind.startswith('clip'):
    lbs = [unkey(k) for k in case['lbs']]
    ubs = [unkey(k) for k in case['ubs']]
    pos = [[unkey(k) for k in r] for r in case['pos']]
    if case['target'] == 'agent':
        out = c06.run_agent(lbs, ubs, pos)
    elif case['target'] == 'search':
        out = c06.run_space(c06.SearchSpace, lbs, ubs, [pos])[0]
    else:
        out = c06.run_space(c06.HyperSpace, lbs, ubs, [pos])[0]
        lbs, ubs = [0.0] * len(lbs), [1.0] * len(ubs)
    msg = c06.clip_oracle(lbs, ubs, pos, out, out)
    res.update({'observed': out, 'recorded': case['out'], 'oracle': msg, 'fails': bool(msg) or out != case['out']})
else:
    na, nv, nd, ni = [eval(x) for x in case['raw'][:4]]
    lb = [unkey(k) for k in case['lb']]
    ub = [unkey(k) for k in case['ub']]
    try:
        if case['kind'] == 'search':
            c06.SearchSpace(n_agents=na, n_variables=nv, n_iterations=ni, lower_bound=lb, upper_bound=ub)
        elif case['kind'] == 'hyper':
            c06.HyperSpace(n_agents=na, n_variables=nv, n_dimensions=nd, n_iterations=ni, lower_bound=lb, upper_bound=ub)
        else:
            c06.TreeSpace(n_trees=na, n_terminals=2, n_variables=nv, n_iterations=ni, min_depth=1, max_depth=2,
                          functions=['SUM'], lower_bound=lb, upper_bound=ub)
        obs = 'accepted'
    except Exception as ex:  # noqa: BLE001
        obs = hlib.exc_kind(ex)
    res.update({'observed': obs, 'recorded': case['res'].get('err', 'accepted'), 'oracle': case.get('oracle')})
    res['fails'] = bool(case.get('oracle')) and obs == case['res'].get('err', 'accepted')
hlib.emit(res)
