"""Re-run one recorded C06 case against the current /repo and re-evaluate the property oracle."""
from harness import hlib, c06
from harness.hlib import unkey

doc = hlib.payload()
case = doc['replay'].get('case')
kind = doc['replay'].get('kind', '')
res = {'fails': False}
if case is None:
    res['note'] = 'no concrete input recorded (broken obligation): ' + str(doc['replay'])[:500]
elif kind.startswith('clip'):
    lbs = [unkey(k) for k in case['lbs']]
    ubs = [unkey(k) for k in case['ubs']]
    pos = [[unkey(k) for k in r] for r in case['pos']]
    if case['target'] == 'agent':
        out = c06.run_agent(lbs, ubs, pos)
    elif case['target'] == 'search':
        out = c06.run_space(c06.SearchSpace, lbs, ubs, [pos])[0]
    else:
        out = c06.run_space(c06.HyperSpace, lbs, ubs, [pos])[0]
        lbs, ubs = [0.0] * len(lbs), [1.0] * len(ubs)
    msg = c06.clip_oracle(lbs, ubs, pos, out, out)
    res.update({'observed': out, 'recorded': case['out'], 'oracle': msg, 'fails': bool(msg) or out != case['out']})
else:
    na, nv, nd, ni = [eval(x) for x in case['raw'][:4]]
    if len(case['raw']) >= 10:          # the bound lists with their original Python types
        lb, ub = eval(case['raw'][8]), eval(case['raw'][9])
    else:
        lb = [unkey(k) for k in case['lb']]
        ub = [unkey(k) for k in case['ub']]
    import numpy as np
    np.random.seed(0)
    lb_arg, ub_arg = lb, ub
    if len(case['raw']) >= 11 and case['raw'][10] == 'tuple':          # the container the bounds were given in
        lb_arg, ub_arg = tuple(lb), tuple(ub)
    elif len(case['raw']) >= 11 and case['raw'][10] == 'array':
        lb_arg, ub_arg = np.array(lb, dtype=float), np.array(ub, dtype=float)
    r2 = c06.ctor_build(case['kind'], na, nv, nd, ni, lb_arg, ub_arg)
    msg = c06.ctor_oracle(case['kind'], na, nv, nd, ni, lb, ub, r2)
    res.update({'observed': r2.get('err', 'accepted'), 'recorded': case['res'].get('err', 'accepted'), 'oracle': msg, 'recorded_oracle': case.get('oracle')})
    res['fails'] = bool(msg)
hlib.emit(res)
