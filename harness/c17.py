"""C17 harness: runs the real opytimizer.math.benchmark functions at sampled points of their documented boxes.

stdin: {"trees": {f: {"code": tree, "doc": tree, "box": [lo, hi], "n_min": k, ...}}, "replay": optional case}
stdout (@@JSON): {"cases": [...], "enc": [indices of cases chosen for the Coq enclosure validation], "active": [...]}

Per case: the implementation's float value, an independently hand-written scalar reference of the docstring formula
(REF below; guarded: raises Undefined where the real-number expression has no value), and the float evaluation of the
two regenerated trees (code_f: validates the translator's reading of the body; doc_f: the searcher's reference when a
formula theorem breaks).  The property oracle is evaluated here, on the implementation:
  formula : impl == reference (rel. 1e-9) wherever the reference is defined; a NaN/inf where the documented expression
            has no value is reported with its input class (csendes: zero coordinate, deb2: negative coordinate);
  minimum : for the coherent documented minima, impl >= min - tol on the box and |impl - min| <= tol at the minimisers.
"""
import math
import sys

from harness import hlib
from harness.hlib import np

import opytimizer.math.benchmark as B  # noqa: E402


class Undefined(Exception):
    pass


# ------------------------------------------------------------------ guarded float primitives

def fdiv(a, b):
    if b == 0:
        raise Undefined('division by zero')
    return a / b


def fsqrt(a):
    if a < 0:
        raise Undefined('sqrt of a negative number')
    return math.sqrt(a)


def fpow(a, b):
    """float ** float as NumPy computes it, undefined where NumPy gives NaN/inf."""
    if a > 0:
        return math.pow(a, b)
    if a == 0:
        if b > 0:
            return 0.0
        if b == 0:
            return 1.0
        raise Undefined('0 ** negative')
    if float(b).is_integer():
        return math.pow(a, b)
    raise Undefined('negative ** non-integer')


# ------------------------------------------------------------------ hand-written references (docstring formulas)

def r_ackley1(x):
    n = len(x)
    s = 0.0
    c = 0.0
    for t in x:
        s += t * t
        c += math.cos(2.0 * math.pi * t)
    return 20.0 - 20.0 * math.exp(-0.2 * fsqrt(fdiv(1.0, n) * s)) + math.e - math.exp(fdiv(1.0, n) * c)


def r_alpine1(x):
    return math.fsum(abs(t * math.sin(t) + 0.1 * t) for t in x)


def r_alpine2(x):
    p = 1.0
    for t in x:
        p *= fsqrt(t) * math.sin(t)
    return -p


def r_brown(x):
    s = 0.0
    for i in range(len(x) - 1):
        a, b = x[i] * x[i], x[i + 1] * x[i + 1]
        s += fpow(a, b + 1.0) + fpow(b, a + 1.0)
    return s


def r_chung_reynolds(x):
    s = math.fsum(t * t for t in x)
    return s * s


def r_cosine_mixture(x):
    return 0.1 * math.fsum(math.cos(5.0 * math.pi * t) for t in x) - math.fsum(t * t for t in x)


def r_csendes(x):
    return math.fsum(t ** 6 * (2.0 + math.sin(fdiv(1.0, t))) for t in x)


def r_deb1(x):
    return fdiv(-1.0, len(x)) * math.fsum(math.sin(5.0 * math.pi * t) ** 6 for t in x)


def r_deb2(x):
    return fdiv(-1.0, len(x)) * math.fsum(math.sin(5.0 * math.pi * (fpow(t, 0.75) - 0.05)) ** 6 for t in x)


def r_exponential(x):
    return -math.exp(-0.5 * math.fsum(t * t for t in x))


def r_quintic(x):
    return math.fsum(abs(t ** 5 - 3.0 * t ** 4 + 4.0 * t ** 3 + 2.0 * t ** 2 - 10.0 * t - 4.0) for t in x)


def r_rastringin(x):
    return 10.0 * len(x) + math.fsum(t * t - 10.0 * math.cos(2.0 * math.pi * t) for t in x)


def r_salomon(x):
    r = fsqrt(math.fsum(t * t for t in x))
    return 1.0 - math.cos(2.0 * math.pi * r) + 0.1 * r


def r_schumer_steiglitz(x):
    return math.fsum(t ** 4 for t in x)


def r_schwefel(x):
    return 418.9829 * len(x) - math.fsum(t * math.sin(fsqrt(abs(t))) for t in x)


def r_sphere(x):
    return math.fsum(t * t for t in x)


def r_styblinski_tang(x):
    return 0.5 * math.fsum(t ** 4 - 16.0 * t * t + 5.0 * t for t in x)


REF = {k[2:]: v for k, v in list(globals().items()) if k.startswith('r_')}

# coherent documented minima: value, coordinate values of known minimisers, tolerance of attainment (absolute, per n)
DEB2_ARGMIN = 0.15 ** (4.0 / 3.0)
MINIMA = {
    'sphere': (0.0, [0.0], 1e-9), 'chung_reynolds': (0.0, [0.0], 1e-9), 'schumer_steiglitz': (0.0, [0.0], 1e-9),
    'alpine1': (0.0, [0.0], 1e-9), 'quintic': (0.0, [-1.0, 2.0], 1e-9), 'rastringin': (0.0, [0.0], 1e-9),
    'salomon': (0.0, [0.0], 1e-9), 'ackley1': (0.0, [0.0], 1e-9), 'brown': (0.0, [0.0], 1e-9),
    'exponential': (-1.0, [0.0], 1e-9), 'deb1': (-1.0, [0.1, -0.1, 0.3, 0.5, -0.9], 1e-9),
    'deb2': (-1.0, [DEB2_ARGMIN], 1e-9),
    'csendes': (0.0, [0.0], 1e-9),
    # 418.9829 is a 4-decimal rounding: the value at the known minimiser is 1.27e-5 per coordinate (theorem
    # C17_schwefel_near_min: <= 1.3e-5 n), so attainment is demanded to 1e-4 per coordinate
    'schwefel': (0.0, [420.9687], 1e-4),
}
# incoherent documented minima (alpine2, styblinski_tang, cosine_mixture): formula only; a few interesting points anyway
EXTRA_POINTS = {'alpine2': [7.917], 'styblinski_tang': [-2.903534], 'cosine_mixture': [0.0]}


# ------------------------------------------------------------------ float evaluation of the regenerated trees

def ev(t, xs, xi=None, xn=None):
    h = t[0]
    if h == 'Z':
        return float(t[1])
    if h == 'Q':
        return t[1] / t[2]
    if h == 'pi':
        return math.pi
    if h == 'e':
        return math.e
    if h == 'n':
        return float(len(xs))
    if h == 'x':
        return xi
    if h == 'xn':
        return xn
    if h == 'neg':
        return -ev(t[1], xs, xi, xn)
    if h in ('add', 'sub', 'mul', 'div'):
        a, b = ev(t[1], xs, xi, xn), ev(t[2], xs, xi, xn)
        return a + b if h == 'add' else a - b if h == 'sub' else a * b if h == 'mul' else fdiv(a, b)
    if h == 'pown':
        return ev(t[1], xs, xi, xn) ** t[2]
    if h == 'powr':
        return fpow(ev(t[1], xs, xi, xn), ev(t[2], xs, xi, xn))
    if h == 'sqrt':
        return fsqrt(ev(t[1], xs, xi, xn))
    if h == 'exp':
        return math.exp(ev(t[1], xs, xi, xn))
    if h == 'sin':
        return math.sin(ev(t[1], xs, xi, xn))
    if h == 'cos':
        return math.cos(ev(t[1], xs, xi, xn))
    if h == 'abs':
        return abs(ev(t[1], xs, xi, xn))
    if h == 'sum':
        return math.fsum(ev(t[1], xs, v, xn) for v in xs)
    if h == 'prod':
        p = 1.0
        for v in xs:
            p *= ev(t[1], xs, v, xn)
        return p
    if h == 'sumpairs':
        return math.fsum(ev(t[1], xs, xs[i], xs[i + 1]) for i in range(len(xs) - 1))
    raise ValueError('unknown tree node %r' % (h,))


def guarded(f, *a):
    try:
        v = f(*a)
    except Undefined as ex:
        return None, 'undefined: %s' % ex
    except (OverflowError, ValueError, ZeroDivisionError) as ex:
        return None, 'undefined: %s' % ex
    if not math.isfinite(v):
        return None, 'non-finite'
    return v, ''


def run_impl(name, x, column=False):
    fn = getattr(B, name, None)
    if fn is None:
        return None, 'missing'
    try:
        if column == 'strided':
            big = np.zeros(2 * len(x) + 1, dtype=float) + 123.456       # the coordinates as every second cell of a larger buffer
            big[::2][:len(x)] = x
            arg = big[::2][:len(x)]
        else:
            arg = np.array(x, dtype=float).reshape(-1, 1) if column else np.array(x, dtype=float)
        v = fn(arg)
    except Exception as ex:        # noqa: BLE001
        return None, 'exception %s: %s' % (type(ex).__name__, ex)
    try:
        v = float(v)
    except Exception as ex:        # noqa: BLE001
        return None, 'non-scalar result %r' % (v,)
    if not math.isfinite(v):
        return None, repr(v)
    return v, ''


def close(a, b, rel=1e-9):
    return abs(a - b) <= rel * max(1.0, abs(a), abs(b))


# ------------------------------------------------------------------ one case

def evaluate(name, info, x, cls):
    n = len(x)
    impl, impl_note = run_impl(name, x)
    ref, ref_note = guarded(REF[name], x) if name in REF else (None, 'no-reference')
    have_trees = 'code' in info
    docv, doc_note = guarded(ev, info['doc'], x) if have_trees else (None, 'not translated')
    codev, code_note = guarded(ev, info['code'], x) if have_trees else (None, 'not translated')
    c = {'f': name, 'n': n, 'cls': cls, 'x': x, 'impl': impl, 'impl_note': impl_note, 'ref': ref, 'ref_note': ref_note,
         'doc': docv, 'doc_note': doc_note, 'code': codev, 'code_note': code_note, 'oracle': [], 'tie': []}
    # -- formula oracle (implementation against the independent reference and against the documented formula)
    if name not in REF:
        c['oracle'].append({'key': 'formula:%s' % name, 'what': 'active benchmark function %s has no reference' % name})
    else:
        for label, val, note in (('hand-written reference of the docstring formula', ref, ref_note),
                                 ('docstring formula (regenerated doc_%s)' % name, docv, doc_note)):
            if not have_trees and not label.startswith('hand'):
                continue
            if val is None and impl is None:
                if label.startswith('hand'):
                    if name == 'csendes' and any(t == 0 for t in x):
                        key = 'csendes:zero-coordinate'
                    elif name == 'deb2' and any(t < 0 for t in x):
                        key = 'deb2:negative-coordinate'
                    else:
                        key = 'undefined:%s' % name
                    c['oracle'].append({'key': key, 'what': '%s returns %s at a point of its documented box where the '
                                        'documented expression has no value (%s)' % (name, impl_note, note)})
            elif val is None:
                c['oracle'].append({'key': 'formula:%s' % name, 'what': '%s returns %r where the %s has no value (%s)'
                                    % (name, impl, label, note)})
            elif impl is None:
                c['oracle'].append({'key': 'formula:%s' % name, 'what': '%s returns %s where the %s is %r'
                                    % (name, impl_note, label, val)})
            elif not close(impl, val):
                c['oracle'].append({'key': 'formula:%s' % name, 'what': '%s returns %r but the %s gives %r'
                                    % (name, impl, label, val)})
    # -- layout: an agent's position is an (n, 1) column; the documented formula does not depend on the layout of the n coordinates
    colv, col_note = run_impl(name, x, column=True)
    if (colv is None) != (impl is None) or (colv is not None and not close(colv, impl)):
        c['oracle'].append({'key': 'layout:%s' % name, 'what': '%s returns %r (%s) for the coordinates as an (n, 1) column -- the layout of Agent.position -- '
                            'and %r (%s) for the same coordinates as a flat vector' % (name, colv, col_note, impl, impl_note)})
    strv, str_note = run_impl(name, x, column='strided')
    if (strv is None) != (impl is None) or (strv is not None and not close(strv, impl)):
        c['oracle'].append({'key': 'layout:%s' % name, 'what': '%s returns %r (%s) for the coordinates as a strided view (every second cell of a larger '
                            'buffer, e.g. a column of a population matrix) and %r (%s) for the same coordinates as a contiguous vector'
                            % (name, strv, str_note, impl, impl_note)})
    # -- minimum oracle
    if name in MINIMA and impl is not None:
        m, _, atol = MINIMA[name]
        if impl < m - 1e-9 * max(1.0, abs(m)):
            c['oracle'].append({'key': 'minimum:%s' % name, 'what': '%s goes below its documented minimum %r: %r' % (name, m, impl)})
        if cls == 'minimiser' and abs(impl - m) > atol * n:
            c['oracle'].append({'key': 'attain:%s' % name, 'what': '%s does not attain its documented minimum %r at the known '
                                'minimiser: %r' % (name, m, impl)})
    # -- translator validation: the model of the body evaluates like the body
    if not have_trees:
        pass
    elif (codev is None) != (impl is None) or (codev is not None and not close(impl, codev)):
        c['tie'].append('code_%s evaluates to %r (%s), the implementation to %r (%s)' % (name, codev, code_note, impl, impl_note))
    return c


# ------------------------------------------------------------------ sampling

def points(name, info, quick):
    lo, hi = float(info['box'][0]), float(info['box'][1])
    rnd = hlib.rng('c17/' + name)
    out = []
    n_rand = 6 if quick else 60
    for n in (1, 2, 3, 7):
        if n < info['n_min']:
            continue
        mins = MINIMA.get(name, (None, [], 0))[1]
        for cval in mins:
            out.append(('minimiser', [cval] * n))
        if len(mins) > 1 and n > 1:
            out.append(('minimiser', [mins[i % 2] for i in range(n)]))
        for cval in EXTRA_POINTS.get(name, []):
            out.append(('special', [cval] * n))
        out.append(('corner', [lo] * n))
        out.append(('corner', [hi] * n))
        if n > 1:
            out.append(('corner', [lo if i % 2 else hi for i in range(n)]))
        base = 0.0 if lo <= 0.0 <= hi else lo
        if lo <= 0.0 <= hi:
            out.append(('origin', [0.0] * n))
        for k in sorted({0, n - 1}):
            for v in (lo, hi):
                p = [base] * n
                p[k] = v
                out.append(('axis', p))
            if lo < 0 < hi:       # axis point off the origin with the other coordinates at a generic value
                p = [round(0.37 * hi, 3)] * n
                p[k] = round(-0.61 * hi, 3) if lo < 0 else round(0.61 * hi, 3)
                out.append(('axis', p))
        for j in range(n_rand):
            p = [rnd.uniform(lo, hi) for _ in range(n)]
            if j % 3 == 0:
                p = [round(v, 2) for v in p]
            if j % 5 == 4:                       # one negative / one zero coordinate where the box allows it
                p[rnd.randrange(n)] = 0.0 if lo <= 0.0 <= hi else lo
            out.append(('random', p))
        for cval in mins[:2]:
            for j in range(2 if quick else 10):
                w = (hi - lo) * 10.0 ** (-rnd.randint(1, 6))
                p = [min(hi, max(lo, cval + rnd.uniform(-w, w))) for _ in range(n)]
                out.append(('near-minimiser', p))
        if lo < 0:               # the non-negative half (deb2 is only defined there)
            for j in range(2 if quick else 20):
                out.append(('random-nonnegative', [rnd.uniform(1e-3, hi) for _ in range(n)]))
    # tiny coordinates: intermediates (x^2, x^4, x^6, products) underflow to subnormals or to zero -- the value is still the formula's
    for n in (2, 5):
        for tiny in (1e-80, 1e-160):
            if lo <= tiny <= hi:
                out.append(('underflow', [tiny] * n))
                out.append(('underflow', [tiny if i % 2 == 0 else round(0.5 * hi, 3) for i in range(n)]))
    # SCALE: many coordinates (a dimension-dependent shortcut, an accumulator type, a hard-coded length only show there)
    for n in ((64, 1000) if quick else (64, 257, 1000, 5000)):
        mins = MINIMA.get(name, (None, [], 0))[1]
        for cval in mins[:1]:
            out.append(('minimiser', [cval] * n))
        lo2 = 1e-3 if name == 'deb2' else lo
        out.append(('random', [round(rnd.uniform(lo2, hi), 3) for _ in range(n)]))
    return out


def coq_admissible(name, info, c):
    """Points the enclosure run can handle: finite value; real powers only on positive bases."""
    if c['impl'] is None or c['code'] is None or 'code' not in info:
        return False

    def has(t, tag):
        return isinstance(t, list) and (t[0] == tag or any(has(u, tag) for u in t[1:]))
    if has(info['code'], 'powr'):
        if name == 'brown':
            return all(t != 0 for t in c['x'])
        return all(t > 0 for t in c['x'])
    return True


def main():
    hlib.prior_tasks()      # the formulas are observed in a process in which optimisation tasks have already run
    pl = hlib.payload() or {}
    trees = dict(pl.get('trees', {}))
    for name, info in pl.get('fallback', {}).items():      # functions T3 could not translate: oracle only
        trees.setdefault(name, info)
    active = sorted(k for k, v in vars(B).items() if callable(v) and getattr(v, '__module__', None) == B.__name__
                    and not k.startswith('_'))
    if pl.get('replay') is not None:
        rp = pl['replay']
        name = rp['f']
        if name not in trees:
            hlib.emit({'fails': True, 'why': 'function %s is not translated any more' % name})
            return
        c = evaluate(name, trees[name], [float(v) for v in rp['x']], rp.get('cls', 'replay'))
        keys = [o['key'] for o in c['oracle']]
        want = rp.get('key')
        hlib.emit({'fails': bool(c['oracle']) if want is None else (want in keys), 'case': c})
        return
    cases, enc = [], []
    for name in sorted(trees):
        info = trees[name]
        per = []
        for cls, p in points(name, info, hlib.QUICK):
            c = evaluate(name, info, [float(v) for v in p], cls)
            per.append(len(cases))
            cases.append(c)
        # enclosure sample: spread over classes and dimensions
        # (interval arithmetic over hundreds of variables does not finish: the many-variable points are judged by the float oracle and
        #  the T3 float evaluation only)
        adm = [i for i in per if coq_admissible(name, info, cases[i]) and cases[i]['n'] <= 12]
        want = 5 if hlib.QUICK else 120
        rnd = hlib.rng('c17/enc/' + name)
        chosen = []
        by = {}
        for i in adm:
            by.setdefault(cases[i]['cls'], {}).setdefault(cases[i]['n'], []).append(i)
        classes = sorted(by, key=lambda k: ({'minimiser': 0, 'random': 1, 'corner': 2, 'axis': 3}.get(k, 4), k))
        turn = 0
        while len(chosen) < want and by:
            for k in list(classes):
                if k not in by:
                    continue
                ns = sorted(by[k])
                nn = ns[(turn + len(chosen)) % len(ns)]          # rotate over the dimensions
                lst = by[k][nn]
                chosen.append(lst.pop(rnd.randrange(len(lst))))
                if not lst:
                    del by[k][nn]
                if not by[k]:
                    del by[k]
                if len(chosen) >= want:
                    break
            turn += 1
        enc += sorted(chosen)
    hlib.emit({'cases': cases, 'enc': enc, 'active': active})


if __name__ == '__main__':
    main()
