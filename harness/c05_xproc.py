"""C05 across interpreters: the same seeded task must give bit-identical histories and final populations in fresh
processes that differ in the string-hash salt (PYTHONHASHSEED) and in the workload run BEFORE seeding (other optimizers with
other hyperparameters, a one-tree GP task, nothing) -- "whatever ran earlier in the process"."""
import json
import os
import subprocess
import sys
from concurrent.futures import ThreadPoolExecutor

sys.path.insert(0, os.path.dirname(os.path.dirname(os.path.abspath(__file__))))
from harness import hlib  # noqa: E402

OPTS = [('ABC', 'abc'), ('AIWPSO', 'aiwpso'), ('BA', 'ba'), ('BHA', 'bha'), ('CS', 'cs'), ('FA', 'fa'), ('FPA', 'fpa'), ('GP', 'gp'),
        ('GSA', 'gsa'), ('HC', 'hc'), ('HS', 'hs'), ('IHS', 'ihs'), ('PSO', 'pso'), ('RPSO', 'rpso'), ('SA', 'sa'), ('SCA', 'sca'), ('WCA', 'wca')]
PRIORS = [
    ('none', '0', []),
    ('levy-users-other-beta', '11', [{'cls': 'FPA', 'mod': 'fpa', 'hp': {'beta': 0.9}}, {'cls': 'CS', 'mod': 'cs', 'hp': {'beta': 1.9}},
                                     {'cls': 'SA', 'mod': 'sa', 'n_iter': 30}]),
    ('one-tree-gp-and-others', '424242', [{'cls': 'GP', 'mod': 'gp', 'n_agents': 1, 'n_iter': 3}, {'cls': 'HC', 'mod': 'hc'},
                                          {'cls': 'PSO', 'mod': 'pso', 'seed': 5}, {'cls': 'IHS', 'mod': 'ihs', 'n_iter': 4}]),
]
# a battery of unrelated tasks: a SearchSpace of the SAME number of variables with another box, swarm tasks (they record `local`),
# a GSA task on a constant objective (equal fitnesses: 0/0 in the mass), a harmony search in a hypercomplex space
PRIORS.append(('battery-other-box-swarm-gsa-const', '7', [
    {'cls': 'PSO', 'mod': 'pso', 'box': [2.0, 9.0], 'n_agents': 4, 'n_iter': 3}, {'cls': 'AIWPSO', 'mod': 'aiwpso', 'n_agents': 3, 'n_iter': 2},
    {'cls': 'GSA', 'mod': 'gsa', 'objective': 'const', 'n_agents': 3, 'n_iter': 2}, {'cls': 'HS', 'mod': 'hs', 'kind': 'hyper', 'box': [-10.0, 10.0], 'n_iter': 3},
    {'cls': 'PSO', 'mod': 'pso', 'n_vars': 3, 'box': [0.5, 0.75]}, {'cls': 'PSO', 'mod': 'pso', 'n_vars': 1, 'box': [100.0, 101.0]}]))
# direct use of the library's random / distribution / selection primitives before the task (scalar requests, odd counts)
PRIORS.append(('primitive-calls', '5', [{'cls': '__primitives__'}]))
# the process-wide logging configuration changed before the task (logging.disable): a message that is only built when it is enabled
PRIORS.append(('logging-disabled', '13', [{'cls': '__logging_off__'}]))
CHILD = os.path.join(os.path.dirname(os.path.abspath(__file__)), 'c05_child.py')


def child(payload, hashseed):
    env = dict(os.environ, PYTHONHASHSEED=hashseed)
    try:
        p = subprocess.run([sys.executable, CHILD, json.dumps(payload)], env=env, stdout=subprocess.PIPE, stderr=subprocess.DEVNULL,
                           text=True, timeout=120)
    except subprocess.TimeoutExpired:
        return 'TIMEOUT'
    for l in reversed(p.stdout.split('\n')):
        if l.startswith('@@JSON '):
            return json.loads(l[7:])['digest']
    return 'NO-OUTPUT'


def own_class_prior(cls, mod, shape=None):
    """Earlier tasks of the SAME optimizer class, built with other hyperparameters (both ends of the working range), on other sizes
    (an odd number of agents x iterations x one variable: odd counts of scalar draws).  State shared between instances of one class
    (a defaults table updated in place, a spare deviate kept by a helper) shows up only after such a workload."""
    from harness import srun_matrix as M
    r = hlib.rng('c05own' + cls)
    na = 13 if cls == 'WCA' else 5
    out = []
    for mode, nv, ni in (('hi', 1, 3), ('lo', 2, 1)):
        hp = M.hyperparams(cls, mode, r, na)
        out.append({'cls': cls, 'mod': mod, 'hp': hp or None, 'n_agents': na, 'n_vars': nv, 'n_iter': ni, 'seed': 1234})
    if shape is not None and cls != 'GP':
        # ... and a task of the SAME class and the SAME shape (agents x variables) in ANOTHER box, followed by one of another shape: a
        # buffer or scratch population kept per shape would carry the first task's bounds into the observed one
        out.append({'cls': cls, 'mod': mod, 'n_agents': shape[0], 'n_vars': shape[1], 'n_iter': 2, 'seed': 4321, 'box': [0.0, 1.0]})
    return ('same-class-other-hyperparams', '3', out)


def main():
    doc = hlib.payload() or {}
    rng = hlib.rng('c05x')
    sizes = [(4, 2, 4)] if hlib.QUICK else [(4, 2, 4), (7, 3, 8), (2, 1, 2)]
    focus = doc.get('focus')
    jobs = []
    for cls, mod in OPTS:
        if focus and focus != cls and not str(focus).startswith(cls + ':'):
            continue
        for (na, nv, ni) in sizes:
            if cls == 'WCA':
                na = max(na, 12)
            seed = rng.randrange(1 << 30)
            # the very same task (same seed, same sizes: bit-identical positions) run before with ANOTHER objective
            twin = ('same-task-other-objective', '9', [{'cls': cls, 'mod': mod, 'n_agents': na, 'n_vars': nv, 'n_iter': ni, 'seed': seed, 'objective': 'const'}])
            for name, hs, prior in PRIORS + [own_class_prior(cls, mod, (na, nv)), twin]:
                jobs.append((cls, (na, nv, ni), seed, name, hs, {'cls': cls, 'mod': mod, 'n_agents': na, 'n_vars': nv, 'n_iter': ni, 'seed': seed, 'prior': prior}))
            jobs.append((cls, (na, nv, ni), seed, 'other-seed', '0', {'cls': cls, 'mod': mod, 'n_agents': na, 'n_vars': nv, 'n_iter': ni, 'seed': seed + 1, 'prior': []}))
        # the same task in a hypercomplex space (agents rely on the untouched default unit bounds), and -- for two optimizers -- on an
        # objective that silently produces NaN at a coordinate clipped to 0 (a leaked NumPy error mode would turn that into an exception)
        variants = [] if cls == 'GP' else [('hyper', {'kind': 'hyper', 'box': [-10.0, 10.0], 'objective': 'hyper'})]
        if cls in ('PSO', 'HC'):
            variants.append(('singular', {'box': [0.0, 1.0], 'objective': 'singular', 'n_iter': 6}))
        for vname, extra in variants:
            na, nv, ni = sizes[0]
            if cls == 'WCA':
                na = max(na, 12)
            seed = rng.randrange(1 << 30)
            for name, hs, prior in PRIORS:
                pl = dict({'cls': cls, 'mod': mod, 'n_agents': na, 'n_vars': nv, 'n_iter': ni, 'seed': seed, 'prior': prior}, **extra)
                jobs.append((cls + ':' + vname, (na, nv, ni), seed, name, hs, pl))
        # the generator re-seeded between assembling the task (space built, Opytimizer constructed) and start(): the late seed decides the run
        na, nv, ni = sizes[0]
        if cls == 'WCA':
            na = max(na, 12)
        seed = rng.randrange(1 << 30)
        late = rng.randrange(1 << 30)
        for name, hs, prior in PRIORS[:2]:
            jobs.append((cls + ':late-seed', (na, nv, ni), seed, name, hs,
                         {'cls': cls, 'mod': mod, 'n_agents': na, 'n_vars': nv, 'n_iter': ni, 'seed': seed, 'late_seed': late, 'prior': prior}))
        jobs.append((cls + ':late-seed', (na, nv, ni), seed, 'other-seed', '0',
                     {'cls': cls, 'mod': mod, 'n_agents': na, 'n_vars': nv, 'n_iter': ni, 'seed': seed, 'late_seed': late + 1, 'prior': []}))
    with ThreadPoolExecutor(max_workers=12) as ex:
        digs = list(ex.map(lambda j: child(j[5], j[4]), jobs))
    groups = {}
    for j, d in zip(jobs, digs):
        groups.setdefault((j[0], j[1], j[2]), {})[j[3]] = d
    records = []
    for (cls, size, seed), g in sorted(groups.items()):
        same = {k: v for k, v in g.items() if k != 'other-seed'}
        if len(set(same.values())) > 1 or any(v in ('TIMEOUT', 'NO-OUTPUT') or v.startswith('EXC:') for v in same.values()):
            records.append({'key': 'xproc:same-seed-runs-differ:%s' % cls, 'optimizer': cls,
                            'what': 'the same seeded %s task gives different histories / final populations in fresh interpreters that differ in PYTHONHASHSEED '
                                    'and in the workload run before seeding: %s' % (cls, same),
                            'config': {'cls': cls, 'size': size, 'seed': seed, 'digests': g}})
        elif g.get('other-seed') == g.get('none'):
            records.append({'key': 'xproc:different-seeds-same-run:%s' % cls, 'optimizer': cls,
                            'what': 'two different seeds give the same run (the stream is not consumed)', 'config': {'cls': cls, 'size': size, 'seed': seed, 'digests': g}})
    hlib.emit({'records': records, 'tasks': len(jobs), 'groups': len(groups), 'variants': [p[0] for p in PRIORS] + ['same-class-other-hyperparams', 'same-task-other-objective']})


if __name__ == '__main__':
    main()
