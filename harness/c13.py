"""C13 harness: the property oracle on the real hypercomplex.span / HyperSpace, and samples for Coq.

Oracle on span(array, lb, ub) for arrays in [0,1]^(n x d) and lb <= ub (what the property text demands,
checked with float comparisons -- no tolerance):
  R  every entry inside [lb_j, ub_j] (NaN is outside), result shape (n,);
  Z  an all-zeros row goes to lb_j exactly;      O  an all-ones row goes to ub_j exactly;
  N  depends only on the variable's norm: permuting a row whose squares and partial sums are exact in
     binary64, and replacing all *other* rows, leaves entry j bit-identical;
  M  non-decreasing in the norm: shrinking a row (sum of squares smaller by a clear margin) never increases entry j.
A failing case is classified by an input class (`key`): failures that IEEE rounding explains on the
unchanged code are recorded known findings keyed by that class (see known_findings.d/C13.json); any other
key is a new violation.
HyperSpace: after construction and after check_limits from arbitrary positions every coordinate is in
[0,1] whatever the declared bounds; short PSO/SCA runs feed only unit-box positions to the objective.
"""
import math
import itertools
import numpy as np
from harness import hlib
from harness.hlib import key, unkey, nextafter

import opytimizer.math.hypercomplex as h
from opytimizer.spaces.hyper import HyperSpace

INF = float('inf')
ONES_MARGIN = 2.0 ** -50


def ulp(x):
    x = abs(float(x))
    if not math.isfinite(x):
        return INF
    return float(np.nextafter(x, INF)) - x


def true_ratio(row):
    """||row|| / sqrt(d) computed independently (exact sum of exact squares)."""
    from fractions import Fraction
    s = sum(Fraction(float(v)) ** 2 for v in row)
    return math.sqrt(float(s) / len(row)) if len(row) else 0.0


def sumsq_exact(row):
    from fractions import Fraction
    return sum(Fraction(float(v)) ** 2 for v in row)


def call_span(a, lb, ub):
    arr = np.array(a, dtype=float)
    out = np.asarray(h.span(arr, lb, ub))
    if arr.size and bool(np.all((arr == 0.0) | (arr == 1.0))):
        # a corner of the unit box written with integers or booleans (np.ones(shape, dtype=int)) is the same position: when its image
        # differs from the float one, the oracle judges the integer one
        for dt in (int, bool):
            try:
                alt = np.asarray(h.span(arr.astype(dt), lb, ub))
            except Exception:  # noqa: BLE001
                continue
            if alt.shape != out.shape or not np.array_equal(np.asarray(alt, dtype=float), np.asarray(out, dtype=float), equal_nan=True):
                return alt
    return out


def classify(kind, j, a, lb, ub, got):
    """-> finding key for a failing requirement `kind` at variable j."""
    lo, hi = float(lb[j]), float(ub[j])
    rng = hi - lo
    if not math.isfinite(rng):
        return 'span:range-overflow'            # ub - lb is not representable: inf * t
    scale = max(abs(lo), abs(hi))
    if kind in ('R', 'O') and true_ratio(a[j]) >= 1.0 - ONES_MARGIN and got == got and abs(got - hi) <= 2 * ulp(scale):
        return 'span:ones-row:excess<=2ulp'
    return {'R': 'span:range', 'Z': 'span:zero-row', 'O': 'span:ones-row', 'N': 'span:norm-only', 'M': 'span:mono',
            'S': 'span:shape'}[kind]


def oracle(a, lb, ub, r=None):
    """All requirements on one input; -> list of (key, message, j)."""
    a = [[float(v) for v in row] for row in a]
    n, d = len(a), len(a[0])
    fails = []
    try:
        out = call_span(a, lb, ub)
    except Exception as ex:  # noqa: BLE001
        return [('span:raises', 'span raised %s: %s' % (type(ex).__name__, ex), 0)], None
    if out.shape != (n,):
        return [('span:shape', 'result shape %s, expected (%d,)' % (out.shape, n), 0)], None
    outl = [float(v) for v in out]
    for j in range(n):
        lo, hi, v = float(lb[j]), float(ub[j]), outl[j]
        if not (lo <= v <= hi):
            fails.append((classify('R', j, a, lb, ub, v), 'entry %d = %r outside [%r, %r]' % (j, v, lo, hi), j))
        if all(x == 0.0 for x in a[j]) and not v == lo:
            fails.append((classify('Z', j, a, lb, ub, v), 'zero row %d maps to %r, lower bound is %r' % (j, v, lo), j))
        if all(x == 1.0 for x in a[j]) and not v == hi:
            fails.append((classify('O', j, a, lb, ub, v), 'all-ones row %d maps to %r, upper bound is %r' % (j, v, hi), j))
    # N: other rows replaced; row j permuted when its arithmetic is exact
    if r is not None:
        j = r.randrange(n)
        b = [[r.random() for _ in range(d)] for _ in range(n)]
        b[j] = list(a[j])
        exact = all(v * 16 == int(v * 16) for v in a[j]) and d <= 64
        if exact:
            r.shuffle(b[j])
        try:
            o2 = [float(v) for v in call_span(b, lb, ub)]
            if key(o2[j]) != key(outl[j]):
                fails.append((classify('N', j, a, lb, ub, outl[j]),
                              'entry %d changes from %r to %r when only the other rows change%s'
                              % (j, outl[j], o2[j], ' and row %d is permuted' % j if exact else ''), j))
        except Exception as ex:  # noqa: BLE001
            fails.append(('span:raises', 'span raised %s' % type(ex).__name__, j))
        # M: shrink row j
        c = [list(row) for row in a]
        c[j] = [v * 0.5 for v in c[j]] if r.random() < 0.5 else [0.0 if i == 0 else v for i, v in enumerate(c[j])]
        if sumsq_exact(c[j]) * (1 + 2.0 ** -30) < sumsq_exact(a[j]):
            try:
                o3 = [float(v) for v in call_span(c, lb, ub)]
                if not (o3[j] <= outl[j]):
                    fails.append((classify('M', j, a, lb, ub, outl[j]),
                                  'entry %d increases from %r to %r when the norm of row %d decreases' % (j, outl[j], o3[j], j), j))
            except Exception as ex:  # noqa: BLE001
                fails.append(('span:raises', 'span raised %s' % type(ex).__name__, j))
    return fails, outl


# ------------------------------------------------------------------ inputs

def bounds(r, n, cls):
    lb, ub = [], []
    for _ in range(n):
        if cls == 'generic':
            a, b = sorted([r.uniform(-100, 100), r.uniform(-100, 100)])
        elif cls == 'negative':
            a, b = sorted([-r.uniform(1e-3, 1e6), -r.uniform(1e-3, 1e6)])
        elif cls == 'huge':
            a, b = sorted([r.uniform(-1, 1) * 8e307, r.uniform(-1, 1) * 8e307])
        elif cls == 'overflow':
            a, b = -r.uniform(1.0, 1.7) * 1e308, r.uniform(1.0, 1.7) * 1e308
        elif cls == 'degenerate':
            a = b = r.choice([0.0, -3.5, 1e300, -1e-300, 7.0])
        elif cls == 'tiny':
            a = r.uniform(-1, 1) * 10.0 ** r.randint(-300, -280)
            b = a + abs(a) * r.uniform(0, 4)
        elif cls == 'offset':
            a = r.choice([-1, 1]) * 10.0 ** r.randint(3, 12)
            b = a + r.uniform(0, 1e-3)
        elif cls == 'int':
            a = r.randint(-10, 5)
            b = a + r.randint(0, 20)
        else:
            a, b = sorted([r.uniform(-1, 1) * 10.0 ** r.randint(-20, 20), r.uniform(-1, 1) * 10.0 ** r.randint(-20, 20)])
        lb.append(a)
        ub.append(b)
    return lb, ub


BOUND_CLASSES = ['generic', 'negative', 'huge', 'overflow', 'degenerate', 'tiny', 'offset', 'int', 'wide']


def arrays(r, n, d, cls):
    if cls == 'zeros':
        return [[0.0] * d for _ in range(n)]
    if cls == 'ones':
        return [[1.0] * d for _ in range(n)]
    if cls == 'corner':
        return [[float(r.randint(0, 1)) for _ in range(d)] for _ in range(n)]
    if cls == 'denormal':
        return [[r.choice([5e-324, 1e-310, 0.0, 2.2250738585072014e-308, 1e-160]) for _ in range(d)] for _ in range(n)]
    if cls == 'near-ones':
        return [[r.choice([1.0, nextafter(1.0, 0.0), 1.0 - 2.0 ** -52]) for _ in range(d)] for _ in range(n)]
    if cls == 'dyadic':
        return [[r.randint(0, 16) / 16.0 for _ in range(d)] for _ in range(n)]
    if cls == 'mixed':
        rows = []
        for _ in range(n):
            c0 = r.random()
            rows.append([0.0] * d if c0 < 0.25 else [1.0] * d if c0 < 0.5 else [r.random() for _ in range(d)])
        return rows
    return [[r.random() for _ in range(d)] for _ in range(n)]


ARRAY_CLASSES = ['zeros', 'ones', 'corner', 'denormal', 'near-ones', 'dyadic', 'mixed', 'uniform']


def span_cases():
    r = hlib.rng('c13span')
    out = []
    # the 2 x 3 array of the design note, every corner of {0,1}^(2x3) with generic bounds
    for bits in itertools.product([0.0, 1.0], repeat=6):
        a = [list(bits[:3]), list(bits[3:])]
        out.append(('corner23', 'generic', a, [-3.0, 2.0], [5.0, 2.5]))
    reps = 3 if hlib.QUICK else 60
    for n, d in [(1, 1), (2, 3), (3, 2), (1, 4), (5, 8), (2, 1), (4, 4)]:
        for bc in BOUND_CLASSES:
            for ac in ARRAY_CLASSES:
                for _ in range(reps):
                    lb, ub = bounds(r, n, bc)
                    out.append((ac, bc, arrays(r, n, d, ac), lb, ub))
    return out, r


# ------------------------------------------------------------------ HyperSpace

def in_unit(pos):
    p = np.asarray(pos, dtype=float)
    return bool(np.all((p >= 0.0) & (p <= 1.0)))


DRAWS = {'low': lambda r: (lambda lo, hi, k: [lo] * k), 'high': lambda r: (lambda lo, hi, k: [hi] * k),
         'rand': lambda r: (lambda lo, hi, k: [r.uniform(lo, hi) for _ in range(k)])}


def space_check(n, d, lb, ub, na, mode, raw, r, int_pos=False):
    """Construct a HyperSpace (scripted uniform draws), overwrite the positions with `raw`, enforce the limits."""
    msg = None
    try:
        with hlib.ScriptedUniform(DRAWS[mode](r)):
            s = HyperSpace(n_agents=na, n_variables=n, n_dimensions=d, n_iterations=1, lower_bound=lb, upper_bound=ub)
    except Exception as ex:  # noqa: BLE001
        # lb <= ub, finite, n_variables entries each: a configuration inside the property's quantifier (degenerate ranges included)
        return 'HyperSpace(lower_bound=%r, upper_bound=%r) raised %s: %s' % (list(lb), list(ub), type(ex).__name__, str(ex)[:120])
    for ag in s.agents:
        if ag.position.shape != (n, d) or not in_unit(ag.position):
            msg = 'a freshly initialised agent is outside the unit box: %r' % ag.position.tolist()
    for k_, (ag, p) in enumerate(zip(s.agents, raw)):
        arr = np.array(p, dtype=int if int_pos else float)              # int: a user seeding agents at integer corners
        if k_ % 2 == 1 and arr.ndim == 2:
            big = np.zeros((2 * arr.shape[0], 2 * arr.shape[1]), dtype=arr.dtype)      # a strided view of a larger design matrix
            big[::2, ::2] = arr
            arr = big[::2, ::2]
        ag.position = arr
    try:
        s.check_limits()
    except Exception as ex:  # noqa: BLE001
        msg = msg or 'check_limits raised %s on %s positions: %s' % (type(ex).__name__, 'integer-dtype' if int_pos else 'float', str(ex)[:120])
    for ag, p in zip(s.agents, raw):
        if not in_unit(ag.position):
            msg = msg or 'after check_limits an agent is outside the unit box: %r' % ag.position.tolist()
        pin = np.array(p, dtype=float)
        keep = (pin >= 0.0) & (pin <= 1.0)
        if ag.position.shape != pin.shape or not np.array_equal(ag.position[keep], pin[keep]):
            msg = msg or 'check_limits changed a coordinate that was already inside [0, 1]'
    return msg


def space_cases():
    r = hlib.rng('c13space')
    res = []
    n_cases = 25 if hlib.QUICK else 400
    for i in range(n_cases):
        n = r.randint(1, 4)
        d = r.randint(1, 5)
        bc = r.choice(['generic', 'negative', 'huge', 'degenerate', 'wide', 'int'])
        lb, ub = bounds(r, n, bc)
        na = r.randint(1, 4)
        mode = r.choice(['low', 'high', 'rand'])
        raw = [[[r.choice([-INF, INF, -1e308, 1e308, -5e-324, -0.0, 0.0, 1.0, nextafter(1.0, 2.0), r.uniform(-3, 4),
                           r.uniform(0, 1), float(lb[j]), float(ub[j])]) for _ in range(d)] for j in range(n)] for _ in range(na)]
        int_pos = i % 5 == 4
        if int_pos:
            raw = [[[float(r.choice([-3, -1, 0, 0, 1, 1, 2, 5])) for _ in range(d)] for j in range(n)] for _ in range(na)]
        msg = space_check(n, d, lb, ub, na, mode, raw, r, int_pos)
        res.append({'int': int_pos, 'n': n, 'd': d, 'na': na, 'bounds': bc, 'lb': [key(v) for v in lb], 'ub': [key(v) for v in ub], 'draw': mode,
                    'raw': [[[key(v) for v in row] for row in p] for p in raw], 'oracle': msg})
    return res


def make_objective(lb, ub, seen):
    def f(x):
        seen['n'] += 1
        if not in_unit(x) and seen['bad'] is None:
            seen['bad'] = 'objective received a position outside the unit box: %r' % np.asarray(x).tolist()
        v = h.span(x, lb, ub)
        return float(np.sum(np.asarray(v, dtype=float) ** 2))
    return f


def run_check(optimizer, n, d, lb, ub, np_seed):
    """A short optimisation task on a HyperSpace: every position handed to the objective is in the unit box."""
    from opytimizer import Opytimizer
    from opytimizer.core.function import Function
    from opytimizer.optimizers.pso import PSO
    from opytimizer.optimizers.sca import SCA
    seen = {'n': 0, 'bad': None}
    f = make_objective(lb, ub, seen)
    np.random.seed(np_seed)
    opt = {'PSO': PSO, 'SCA': SCA}[optimizer]()
    try:
        s = HyperSpace(n_agents=4, n_variables=n, n_dimensions=d, n_iterations=6, lower_bound=lb, upper_bound=ub)
    except Exception as ex:  # noqa: BLE001
        return 'HyperSpace(lower_bound=%r, upper_bound=%r) raised %s: %s' % (list(lb), list(ub), type(ex).__name__, str(ex)[:120]), 0
    try:
        Opytimizer(space=s, optimizer=opt, function=Function(pointer=f)).start()
    except Exception as ex:  # noqa: BLE001
        seen['bad'] = seen['bad'] or 'task raised %s: %s' % (type(ex).__name__, ex)
    for ag in s.agents:
        if not in_unit(ag.position):
            seen['bad'] = seen['bad'] or 'an agent ends the task outside the unit box: %r' % ag.position.tolist()
    return seen['bad'], seen['n']


def run_cases():
    r = hlib.rng('c13run')
    res = []
    n_runs = 4 if hlib.QUICK else 40
    for i in range(n_runs):
        n = r.randint(1, 3)
        d = r.randint(1, 4)
        lb, ub = bounds(r, n, r.choice(['generic', 'negative', 'wide', 'int']))
        name = 'PSO' if i % 2 == 0 else 'SCA'
        seed = (hlib.SEED * 1000 + i) % (2 ** 32)
        bad, ne = run_check(name, n, d, lb, ub, seed)
        res.append({'optimizer': name, 'n': n, 'd': d, 'lb': [key(v) for v in lb], 'ub': [key(v) for v in ub],
                    'np_seed': seed, 'evaluations': ne, 'oracle': bad})
    return res


# ------------------------------------------------------------------ repeated calls with the caller's own bound arrays

def args_check(a, lb, ub, dtype):
    """span(array, lb, ub) called twice with the SAME ndarray objects (as with space.lb / space.ub):
    the arguments must come back bit-identical and the second result must equal the first and obey the oracle.
    -> (key, message) or None"""
    arr = np.array(a, dtype=float)
    lbn = np.array(lb, dtype=dtype)
    ubn = np.array(ub, dtype=dtype)
    snap = [x.tobytes() for x in (arr, lbn, ubn)]
    lb0, ub0 = [float(v) for v in lbn], [float(v) for v in ubn]
    outs = []
    for call in (1, 2):
        try:
            out = np.array(h.span(arr, lbn, ubn), dtype=float, copy=True)
        except Exception as ex:  # noqa: BLE001
            return ('span:second-call' if call == 2 else 'span:raises', 'call %d raised %s: %s' % (call, type(ex).__name__, ex))
        for nm, x, b in zip(('array', 'lb', 'ub'), (arr, lbn, ubn), snap):
            if x.tobytes() != b:
                return ('span:mutates-arguments', 'span overwrote its argument `%s` (call %d): now %r' % (nm, call, x.tolist()))
        outs.append(out)
    if outs[0].tobytes() != outs[1].tobytes():
        return ('span:second-call', 'second call with the same arguments returns %r, the first returned %r' % (outs[1].tolist(), outs[0].tolist()))
    for j, v in enumerate(float(x) for x in outs[1]):
        row = [float(x) for x in a[j]]
        bad = None
        if not (lb0[j] <= v <= ub0[j]):
            bad = ('R', 'second call: entry %d = %r outside [%r, %r]' % (j, v, lb0[j], ub0[j]))
        elif all(x == 0.0 for x in row) and v != lb0[j]:
            bad = ('Z', 'second call: zero row %d maps to %r, lower bound is %r' % (j, v, lb0[j]))
        elif all(x == 1.0 for x in row) and v != ub0[j]:
            bad = ('O', 'second call: all-ones row %d maps to %r, upper bound is %r' % (j, v, ub0[j]))
        if bad and classify(bad[0], j, [[float(x) for x in rw] for rw in a], lb0, ub0, v) not in ('span:ones-row:excess<=2ulp', 'span:range-overflow'):
            return ('span:second-call', bad[1])
    return None


def args_cases():
    r = hlib.rng('c13args')
    res = []
    reps = 4 if hlib.QUICK else 80
    for n, d in [(1, 1), (2, 3), (3, 2), (4, 4)]:
        for bc, dtype in [('generic', 'float64'), ('negative', 'float64'), ('wide', 'float64'), ('int', 'int64'), ('int', 'float64')]:
            for ac in ('zeros', 'ones', 'mixed', 'uniform'):
                for _ in range(reps):
                    lb, ub = bounds(r, n, bc)
                    if all(float(v) == 0.0 for v in lb):
                        lb = [v - 1 for v in lb]
                    a = arrays(r, n, d, ac)
                    bad = args_check(a, lb, ub, dtype)
                    res.append({'array_class': ac, 'bounds_class': bc, 'dtype': dtype, 'a': [[key(v) for v in row] for row in a],
                                'lb': [key(v) for v in lb], 'ub': [key(v) for v in ub],
                                'key': bad[0] if bad else None, 'oracle': bad[1] if bad else None})
    return res


# ------------------------------------------------------------------ histories: other spaces in the same process

HIST_OPTS = [('hs', 'HS'), ('sa', 'SA'), ('bha', 'BHA'), ('abc', 'ABC'), ('cs', 'CS'), ('fpa', 'FPA'), ('ba', 'BA'), ('ihs', 'IHS')]
HIST_BOXES = [(-10.0, 10.0), (50.0, 60.0), (-1e6, -5e5), (0.25, 0.75), (-3.0, 0.5)]


def history_check(case):
    """A HyperSpace must keep its agents in the unit box whatever else was built or run in the process.
    order 'search-first' / 'tree-first': a SearchSpace / TreeSpace with the same n_variables and a non-unit box is built
    (and a SearchSpace optionally optimised) before the HyperSpace; 'hyper-first': the HyperSpace is built, then a
    SearchSpace, then the HyperSpace is used.  -> (key, message) or None"""
    import importlib
    from opytimizer import Opytimizer
    from opytimizer.core.function import Function
    from opytimizer.spaces.search import SearchSpace
    from opytimizer.spaces.tree import TreeSpace
    n, d = case['n'], case['d']
    lb, ub = [float(v) for v in case['lb']], [float(v) for v in case['ub']]
    np.random.seed(case['np_seed'])
    rr = hlib.rng('hist%d' % case['np_seed'])

    def other():
        if case['order'] == 'tree-first':
            return TreeSpace(n_trees=2, n_terminals=2, n_variables=n, n_iterations=1, min_depth=1, max_depth=2,
                             functions=['SUM', 'SUB'], lower_bound=lb, upper_bound=ub)
        o = SearchSpace(n_agents=3, n_variables=n, n_iterations=2, lower_bound=lb, upper_bound=ub)
        if case['run_other']:
            from opytimizer.optimizers.pso import PSO
            Opytimizer(space=o, optimizer=PSO(), function=Function(pointer=lambda x: float(np.sum(np.asarray(x) ** 2)))).start()
        return o

    def hyper():
        if case['order'] == 'rebound':
            # the declared bounds are re-assigned on the live space (another box for the next task): the agents keep their unit bounds
            h_ = HyperSpace(n_agents=4, n_variables=n, n_dimensions=d, n_iterations=5, lower_bound=[v - 1.0 for v in lb], upper_bound=[v + 1.0 for v in ub])
            h_.lb = np.array(lb)
            h_.ub = np.array(ub)
            return h_
        return HyperSpace(n_agents=4, n_variables=n, n_dimensions=d, n_iterations=5, lower_bound=lb, upper_bound=ub)

    if case['order'] == 'hyper-first':
        s = hyper()
        o = other()
    else:
        o = other()
        s = hyper()
    mine = list(s.agents) + [s.best_agent]
    theirs = list(o.agents) + [o.best_agent] + list(getattr(o, 'terminals', []))
    for i, ag in enumerate(mine):
        if not (np.array_equal(np.asarray(ag.lb, dtype=float), np.zeros(n)) and np.array_equal(np.asarray(ag.ub, dtype=float), np.ones(n))):
            return ('hyper:history:agent-bounds', 'agent %d of the HyperSpace has bounds lb=%r ub=%r instead of zeros/ones (%s, other box [%r, %r])'
                    % (i, np.asarray(ag.lb).tolist(), np.asarray(ag.ub).tolist(), case['order'], lb[0], ub[0]))
    arrs = [(('hyper agent %d' % i), a) for i, ag in enumerate(mine) for a in (ag.lb, ag.ub)]
    oarrs = [(('other-space agent %d' % i), a) for i, ag in enumerate(theirs) for a in (ag.lb, ag.ub)]
    for i, (na, a) in enumerate(arrs):
        for (nb, b) in arrs[i + 1:] + oarrs:
            if np.shares_memory(a, b):
                return ('hyper:history:shared-bounds', 'bound arrays of %s and %s share memory (%s)' % (na, nb, case['order']))
    for i, ag in enumerate(s.agents):
        keep = ag.position.copy()
        ag.position = np.array([[rr.choice([-2.0, -0.5, 1.5, 3.0, 7.0, 0.25, 1.0, 0.0, lb[j], ub[j]]) for _ in range(d)] for j in range(n)])
        probe = ag.position.copy()
        ag.check_limits()
        if not in_unit(ag.position):
            return ('hyper:history:agent-check-limits', 'agent.check_limits() of a HyperSpace agent maps %r to %r, outside the unit box (%s)'
                    % (probe.tolist(), ag.position.tolist(), case['order']))
        ag.position = keep
    mod, cls = [m for m in HIST_OPTS if m[1] == case['optimizer']][0]
    opt = getattr(importlib.import_module('opytimizer.optimizers.' + mod), cls)()
    seen = {'n': 0, 'bad': None}
    try:
        Opytimizer(space=s, optimizer=opt, function=Function(pointer=make_objective(lb, ub, seen))).start()
    except Exception as ex:  # noqa: BLE001
        seen['bad'] = seen['bad'] or 'task raised %s: %s' % (type(ex).__name__, str(ex)[:120])
    for ag in s.agents:
        if not in_unit(ag.position):
            seen['bad'] = seen['bad'] or 'an agent ends the task outside the unit box: %r' % ag.position.tolist()
    case['evaluations'] = seen['n']
    if seen['bad']:
        return ('hyper:history:run:%s' % cls, '%s on a HyperSpace (%s): %s' % (cls, case['order'], seen['bad']))
    return None


def history_cases():
    r = hlib.rng('c13hist')
    res = []
    reps = 1 if hlib.QUICK else 10
    i = 0
    for _ in range(reps):
        for order in ('search-first', 'tree-first', 'hyper-first', 'rebound'):
            for (mod, cls) in HIST_OPTS:
                n = 1 + i % 4
                lo, hi = HIST_BOXES[i % len(HIST_BOXES)]
                case = {'order': order, 'optimizer': cls, 'n': n, 'd': 1 + (i * 7) % 4, 'lb': [lo] * n, 'ub': [hi] * n,
                        'run_other': i % 2 == 0, 'np_seed': (hlib.SEED * 100003 + 7919 * i) % (2 ** 32)}
                i += 1
                bad = history_check(case)
                case.update({'key': bad[0] if bad else None, 'oracle': bad[1] if bad else None})
                res.append(case)
    return res


def float_ratio(v):
    nn, dd = float(v).as_integer_ratio()
    return [str(nn), str(dd)]


def main():
    history = history_cases()       # first: everything below then also runs after other spaces were built
    cases, r = span_cases()
    res = {'span_cases': 0, 'nontrivial': 0, 'fails': [], 'dist': {}, 'coq': [], 'known_hits': {}}
    pool = []
    keys_seen = {}
    for (ac, bc, a, lb, ub) in cases:
        fails, outl = oracle(a, lb, ub, r)
        res['span_cases'] += 1
        k = 'span/%s/%s' % (ac, bc)
        res['dist'][k] = res['dist'].get(k, 0) + 1
        if ac not in ('uniform',) or bc != 'generic':
            res['nontrivial'] += 1
        for (fk, msg, j) in fails:
            keys_seen[fk] = keys_seen.get(fk, 0) + 1
            if keys_seen[fk] <= 2:
                res['fails'].append({'key': fk, 'msg': msg, 'j': j, 'array_class': ac, 'bounds_class': bc,
                                     'a': [[key(v) for v in row] for row in a], 'lb': [key(v) for v in lb], 'ub': [key(v) for v in ub],
                                     'lb_is_int': all(isinstance(v, int) for v in lb)})
        if outl is not None and bc in ('generic', 'negative', 'int', 'degenerate') and len(a[0]) <= 4:
            j = r.randrange(len(a))
            vals = list(a[j]) + [float(lb[j]), float(ub[j]), outl[j]]
            if all(math.isfinite(v) and (v == 0.0 or 1e-30 < abs(v) < 1e30) for v in vals):
                pool.append({'j': j, 'n': len(a), 'a': [[float_ratio(v) for v in row] for row in a], 'lb': float_ratio(lb[j]),
                             'ub': float_ratio(ub[j]), 'f': float_ratio(outl[j]), 'ff': outl[j], 'lbf': float(lb[j]), 'ubf': float(ub[j]),
                             'rowf': a[j], 'cls': ac})
    res['fail_counts'] = keys_seen
    want = 50 if hlib.QUICK else 1000
    r.shuffle(pool)
    # keep every array class represented
    pool.sort(key=lambda c: ARRAY_CLASSES.index(c['cls']) if c['cls'] in ARRAY_CLASSES else 99)
    per = max(1, want // len(ARRAY_CLASSES))
    cnt = {}
    for c in pool:
        if cnt.get(c['cls'], 0) < per and len(res['coq']) < want:
            cnt[c['cls']] = cnt.get(c['cls'], 0) + 1
            res['coq'].append(c)
    res['history'] = history
    res['args'] = args_cases()
    res['space'] = space_cases()
    res['runs'] = run_cases()
    hlib.emit(res)


if __name__ == '__main__':
    main()
