"""S-run, part 1: build one task from an explicit configuration, observe it from outside, evaluate the
run-level property oracles (C01 C02 C03 C04 C05 C07 C12 C15 C20) on the real implementation.

Nothing in /repo is edited.  Observation points: the user objective, the pre-evaluation hook,
Agent/Space.check_limits, History.dump, np.random.uniform/normal/choice (all replaced from this process)
and NumPy's floating-point error callback (np.seterrcall; results are unchanged, the callback only remembers
where the first invalid/divide event happened so that a NaN evaluation can be attributed to a call site).

`run_task(cfg)` returns {'violations': [...], 'stats': {...}}; each violation is
{property, key, what, observed, expected}.  Oracles demand what the property text demands, nothing more;
cases outside a property's quantifier are skipped and counted in stats['skipped'].
"""
import copy
import gc
import importlib
import json
import math
import os
import random as pyrandom
import re
import signal
import sys
import time
import traceback

from harness import hlib  # noqa: F401  (silences logging, seterr ignore)
import numpy as np

FLOAT_MAX = sys.float_info.max
WR = json.load(open(os.path.join(os.path.dirname(os.path.dirname(os.path.abspath(__file__))), 'working_ranges.json')))['optimizers']
SWARM = ('PSO', 'AIWPSO', 'RPSO')
GREEDY_AGENT = ('ABC', 'CS', 'FPA', 'PSO', 'AIWPSO', 'RPSO')
GREEDY_RANK = ('HS', 'IHS')
ALL_FUNCS = ['SUM', 'SUB', 'MUL', 'DIV', 'EXP', 'SQRT', 'LOG', 'ABS', 'SIN', 'COS']


class SoftTimeout(BaseException):
    pass


# ------------------------------------------------------------------ objectives

def objective(name, lb, ub):
    """Deterministic, finite on finite input.  `y` is the (n_variables, k) array the user sees."""
    lb = np.asarray(lb, dtype=float).reshape(-1, 1)
    ub = np.asarray(ub, dtype=float).reshape(-1, 1)
    shift = ub + (ub - lb) + 1.0                      # minimiser outside the box
    w = np.arange(1, len(lb) + 1, dtype=float).reshape(-1, 1)
    if name == 'sphere':
        return lambda y: np.sum(y ** 2)
    if name == 'shifted':
        return lambda y: np.sum((y - shift[:y.shape[0]]) ** 2)
    if name == 'linear':
        return lambda y: np.sum(w[:y.shape[0]] * y)
    if name == 'constant':
        return lambda y: 3.5
    if name == 'zero':
        return lambda y: 0.0
    if name == 'negative':
        return lambda y: -1.0 - np.sum(y ** 2)
    if name == 'signchg':
        return lambda y: np.sum(y)
    if name == 'plateau':
        return lambda y: np.floor(2.0 * np.sum(np.abs(y)))
    if name == 'tiny_negative':                        # values in [-0.05, 0)
        return lambda y: -0.05 / (1.0 + min(np.sum(y ** 2), 1e12))
    if name == 'tiny_positive':                        # values in (0, 0.05]
        return lambda y: 0.05 / (1.0 + min(np.sum(y ** 2), 1e12))
    if name == 'eps_steps':                            # values on the grid of multiples of EPSILON = 1e-10 (a tiny box gives 0, 1e-10, 2e-10, ...)
        return lambda y: round(float(np.sum(y ** 2)), 10)
    if name == 'float_max':
        return lambda y: FLOAT_MAX
    if name == 'inf_region':                           # +inf on the upper half of the first variable's range, finite elsewhere
        mid = float((lb[0, 0] + ub[0, 0]) / 2.0)
        return lambda y: float('inf') if float(np.ravel(y)[0]) > mid else np.sum(y ** 2)
    raise KeyError(name)


# ------------------------------------------------------------------ draw scripts

class Draws:
    """Replacement of np.random.uniform / normal / choice (choice is only counted)."""

    def __init__(self, script):
        self.script = script
        self.n_uniform = self.n_normal = self.n_choice = 0
        self.k = 0
        self.kn = 0
        self.orig = (np.random.uniform, np.random.normal, np.random.choice)

    def install(self):
        np.random.uniform, np.random.normal, np.random.choice = self.uniform, self.normal, self.choice

    def remove(self):
        np.random.uniform, np.random.normal, np.random.choice = self.orig

    def uniform(self, low=0.0, high=1.0, size=None):
        self.n_uniform += 1
        out = self.orig[0](low, high, size)
        s = self.script
        if s in ('seeded', 'gauss'):
            return out
        lo = np.broadcast_to(np.asarray(low, dtype=float), np.shape(out)).astype(float)
        hi = np.broadcast_to(np.asarray(high, dtype=float), np.shape(out)).astype(float)
        below = np.where(hi > lo, np.nextafter(hi, lo), lo)
        if s == 'low':
            res = lo.copy()
        elif s == 'high':
            res = below
        else:                                    # 'alt', 'mixed': alternate the two ends element by element
            n = int(np.prod(np.shape(out))) if np.shape(out) else 1
            idx = (np.arange(n) + self.k) % 2
            self.k += n
            res = np.where(idx.reshape(np.shape(out)) == 0, lo, below)
        if size is None and np.shape(res) == ():
            return float(res)
        return np.array(res, dtype=float)

    Z = (38.0, -38.0, 0.0)

    def normal(self, loc=0.0, scale=1.0, size=None):
        self.n_normal += 1
        out = self.orig[1](loc, scale, size)
        if self.script not in ('gauss', 'mixed'):
            return out
        n = int(np.prod(np.shape(out))) if np.shape(out) else 1
        z = np.array([self.Z[(self.kn + i) % 3] for i in range(n)], dtype=float).reshape(np.shape(out))
        self.kn += n
        res = np.asarray(loc, dtype=float) + np.asarray(scale, dtype=float) * z
        if size is None and np.shape(res) == ():
            return float(res)
        return np.array(res, dtype=float)

    def choice(self, *a, **k):
        self.n_choice += 1
        return self.orig[2](*a, **k)


# ------------------------------------------------------------------ build

def bounds(cfg):
    return [float(x) for x in cfg['lb']], [float(x) for x in cfg['ub']]


def feas_box(cfg):
    """The box positions must stay in: declared bounds (search/tree), unit interval (hyper)."""
    nv = cfg['n_variables']
    if cfg['space'] == 'hyper':
        return np.zeros((nv, 1)), np.ones((nv, 1))
    lb, ub = bounds(cfg)
    return np.asarray(lb).reshape(-1, 1), np.asarray(ub).reshape(-1, 1)


def build_optimizer(name, hyperparams, hp_numpy=False):
    mod = importlib.import_module('opytimizer.optimizers.' + name.lower())
    hp = dict(hyperparams or {})
    if hp_numpy:
        # the same values as NumPy scalars (np.linspace / np.arange sweeps are the usual source of hyperparameter values)
        hp = {k: (np.float64(v) if isinstance(v, float) else v) for k, v in hp.items()}
    return getattr(mod, name)(hyperparams=hp)


def run_prelude(cfg, space):
    """Earlier tasks on the same space (a history of tasks): plain, unobserved Opytimizer.start() calls -- with the objective of the
    observed task, or with the task's own objective (`objective`) and iteration count (`n_iterations`, written to the space before the
    task as a user would; the observed task's count is restored afterwards)."""
    from opytimizer import Opytimizer
    from opytimizer.core.function import Function
    for pre in cfg.get('prelude') or []:
        raw = user_objective(dict(cfg, objective=pre['objective']) if pre.get('objective') else cfg)
        if pre.get('n_iterations'):
            space.n_iterations = int(pre['n_iterations'])
        with np.errstate(all='ignore'):
            Opytimizer(space=space, optimizer=build_optimizer(pre['optimizer'], pre.get('hyperparams')), function=Function(pointer=raw)).start()
    if any(pre.get('n_iterations') for pre in cfg.get('prelude') or []):
        space.n_iterations = cfg['n_iterations']


def build(cfg, fwrap, space=None, opt=None):
    """Space, optimizer, function from scratch, the way /repo/examples do."""
    from opytimizer.core.function import Function
    from opytimizer.spaces.search import SearchSpace
    from opytimizer.spaces.hyper import HyperSpace
    from opytimizer.spaces.tree import TreeSpace
    lb, ub = bounds(cfg)
    if cfg.get('int_bounds'):
        lb, ub = [int(x) for x in lb], [int(x) for x in ub]        # bounds given as Python ints (NumPy makes them int64 arrays)
    if cfg.get('int_lb'):
        lb = [int(x) for x in lb]                                  # integer lower bounds, fractional upper bounds
    if space is not None:
        pass
    elif cfg['space'] == 'search':
        space = SearchSpace(n_agents=cfg['n_agents'], n_variables=cfg['n_variables'], n_iterations=cfg['n_iterations'],
                            lower_bound=list(lb), upper_bound=list(ub))
    elif cfg['space'] == 'hyper':
        space = HyperSpace(n_agents=cfg['n_agents'], n_variables=cfg['n_variables'], n_dimensions=cfg['n_dimensions'],
                           n_iterations=cfg['n_iterations'], lower_bound=list(lb), upper_bound=list(ub))
    else:
        t = cfg['tree']
        space = TreeSpace(n_trees=cfg['n_agents'], n_terminals=t['n_terminals'], n_variables=cfg['n_variables'],
                          n_iterations=cfg['n_iterations'], min_depth=t['min_depth'], max_depth=t['max_depth'],
                          functions=list(t['functions']), lower_bound=list(lb), upper_bound=list(ub))
    if opt is None:
        opt = build_optimizer(cfg['optimizer'], cfg.get('hyperparams'), cfg.get('hp_numpy'))
    fn = Function(pointer=fwrap)
    return space, opt, fn


def user_objective(cfg):
    lb, ub = bounds(cfg)
    g = objective(cfg['objective'], lb, ub)
    if cfg['space'] == 'hyper':
        import opytimizer.math.hypercomplex as hc

        def raw(x):
            return g(hc.span(x, lb, ub).reshape(-1, 1))
    else:
        raw = g
    if cfg.get('ret', 'pyfloat') == 'pyfloat':
        return lambda x: float(raw(x))
    if cfg.get('ret') == 'longdouble':              # an extended-precision objective: values that no double equals
        return lambda x: np.longdouble(raw(x)) * LD_FACTOR
    return lambda x: np.float64(raw(x))


def hp_names(opt):
    out = []
    for c in type(opt).__mro__:
        for k, v in vars(c).items():
            if isinstance(v, property) and k not in ('algorithm', 'hyperparams', 'built') and k not in out:
                out.append(k)
    return sorted(out)


def site_of(frame):
    return '%s.%s' % (os.path.basename(frame.f_code.co_filename)[:-3], frame.f_code.co_name)


def opy_frames(tb_or_frame_list):
    return [f for f in tb_or_frame_list if '/opytimizer/' in f[0]]


LD_FACTOR = np.longdouble(1) + np.longdouble(2) ** -60        # a product with it is not a double unless the value is 0 / inf / nan


def fnum(v):
    """the number a fitness is, without rounding an extended-precision scalar (np.longdouble) to a double"""
    return v if isinstance(v, np.longdouble) else float(v)


def same(a, b):
    """value-for-value equality of nested lists / numbers, NaN equal to NaN, -0.0 distinct from 0.0 not required."""
    if isinstance(a, (list, tuple)) and isinstance(b, (list, tuple)):
        return len(a) == len(b) and all(same(x, y) for x, y in zip(a, b))
    if isinstance(a, (list, tuple)) or isinstance(b, (list, tuple)):
        return False
    try:
        if a != a and b != b:
            return True
        return bool(a == b)
    except Exception:  # noqa: BLE001
        return False


def eqarr(a, b):
    a = np.asarray(a)
    b = np.asarray(b)
    return a.shape == b.shape and bool(np.array_equal(a, b, equal_nan=True))


def tree_parts(tree):
    """(node objects, terminal value arrays) reachable from a Node."""
    nodes, arrs, stack = [], [], [tree]
    seen = set()
    while stack:
        n = stack.pop()
        if n is None or id(n) in seen:
            continue
        seen.add(id(n))
        nodes.append(n)
        v = getattr(n, '_value', None)
        if isinstance(v, np.ndarray):
            arrs.append(v)
        stack.append(n.left)
        stack.append(n.right)
    return nodes, arrs


def tree_text(tree):
    """By-value picture of a recorded tree: names, types, flags, which side each child hangs on, the terminal values (bytes)."""
    out, stack = [], [(tree, 'root')]
    seen = set()
    while stack:
        n, side = stack.pop()
        if n is None or id(n) in seen or not hasattr(n, 'left'):
            if n is not None and not hasattr(n, 'left'):
                out.append((side, 'not-a-node', type(n).__name__, repr(n)[:40]))
            continue
        seen.add(id(n))
        v = getattr(n, '_value', None)
        out.append((side, str(getattr(n, 'name', None)), str(getattr(n, 'type', None)), bool(getattr(n, 'flag', None)),
                    v.tobytes() if isinstance(v, np.ndarray) else repr(v)))
        stack.append((getattr(n, 'right', None), side + 'R'))
        stack.append((getattr(n, 'left', None), side + 'L'))
    return out


def struct_value(n):
    """The value of the expression a tree IS, computed from its nodes (left / right / name / value) with the documented operators --
    not through Node.position, so that a remembered or otherwise stale position cannot vouch for itself."""
    from opytimizer.utils import constants as oc
    if n.type == 'TERMINAL':
        return n.value
    x = struct_value(n.left)
    y = struct_value(n.right) if n.right is not None else None
    nm = n.name
    if nm == 'SUM':
        return x + y
    if nm == 'SUB':
        return x - y
    if nm == 'MUL':
        return x * y
    if nm == 'DIV':
        return x / (y + oc.EPSILON)
    if nm == 'EXP':
        return np.exp(x)
    if nm == 'SQRT':
        return np.sqrt(np.abs(x))
    if nm == 'LOG':
        return np.log(np.abs(x) + oc.EPSILON)
    if nm == 'ABS':
        return np.abs(x)
    if nm == 'SIN':
        return np.sin(x)
    if nm == 'COS':
        return np.cos(x)
    raise KeyError(nm)


def tree_value(t):
    """Value of a tree: of its expression when the tree is well formed (struct_value), else what a private deep copy reports."""
    try:
        with np.errstate(all='ignore'):
            return np.array(struct_value(t), copy=True, dtype=float)
    except Exception:  # noqa: BLE001   (malformed tree, unknown operator, recursion limit: C08/C09/C10's subjects)
        return np.array(copy.deepcopy(t).position, copy=True, dtype=float)


def tree_ser(n):
    if n is None:
        return None
    v = getattr(n, '_value', None)
    return (str(n.name), n.type, None if v is None else np.asarray(v).tobytes().hex(), bool(n.flag), tree_ser(n.left), tree_ser(n.right))


def fx(v):
    """JSON-friendly rendering of numbers/arrays in observed/expected fields."""
    if isinstance(v, np.ndarray):
        return v.tolist()
    if isinstance(v, (np.floating, np.integer)):
        return v.item()
    return v


# ------------------------------------------------------------------ the monitor

class Monitor:
    def __init__(self, cfg, light=False):
        self.cfg = cfg
        self.light = light                    # light: only what the C05 comparison needs
        self.raw = user_objective(cfg)
        self.lo, self.hi = feas_box(cfg)
        self.shape = (cfg['n_variables'], cfg['n_dimensions'] if cfg['space'] == 'hyper' else 1)
        self.evals = []                       # dict(site, line, ok, why, val, arr (object), copy)
        self.minval = None
        self.minargs = []
        self.minsite = None
        self.first_bad = None                 # index of first non-finite argument / value
        self.hooks = []
        self.dumps = []
        self.n_clip_agent = self.n_clip_space = 0
        self.fp = {}                          # 'invalid' / 'divide by zero' -> site of first event
        self.viol = []
        self.skipped = {}
        self.time_dumps = []
        self.history_obj = None
        self.mover = pyrandom.Random('move/%s' % cfg.get('id', ''))
        self.nan_op = None

    # -- reporting
    def v(self, prop, key, what, observed=None, expected=None):
        if self.cfg.get('only_props') and prop not in self.cfg['only_props']:
            return          # a configuration outside the quantifier of `prop` (e.g. an objective with infinite values: C03 asks for finite ones)
        for x in self.viol:
            if x['property'] == prop and x['key'] == key:
                x['count'] = x.get('count', 1) + 1
                return
        self.viol.append({'property': prop, 'key': key, 'what': what, 'observed': fx(observed), 'expected': fx(expected)})

    def skip(self, why):
        self.skipped[why] = self.skipped.get(why, 0) + 1

    # -- objective
    def check_arg(self, x):
        if not isinstance(x, np.ndarray) or x.shape != self.shape:
            return 'shape'
        if not np.issubdtype(x.dtype, np.floating) and not np.issubdtype(x.dtype, np.integer):
            return 'dtype'
        if not np.all(np.isfinite(x)):
            return 'nan'
        if np.any(x < self.lo) or np.any(x > self.hi):
            return 'out-of-box'
        return None

    def fwrap(self, x):
        fr = sys._getframe(1)
        with np.errstate(all='ignore'):
            why = self.check_arg(x)
            val = self.raw(x)
        if self.light:
            self.evals.append(None)
            return val
        rec = {'site': site_of(fr), 'line': fr.f_lineno, 'why': why, 'val': val, 'arr': x,
               'copy': np.array(x, copy=True) if isinstance(x, np.ndarray) else x}
        i = len(self.evals)
        self.evals.append(rec)
        fv = fnum(val)
        if (why == 'nan' or fv != fv) and self.first_bad is None:
            self.first_bad = i
        if fv == fv and self.first_bad is None:
            if self.minval is None or fv < self.minval:
                self.minval, self.minargs, self.minsite = fv, [rec], rec
            elif fv == self.minval and len(self.minargs) < 4000:
                self.minargs.append(rec)
        return val

    # -- state snapshots
    def snap(self, opt, space):
        s = {'n_evals': len(self.evals), 'len': len(space.agents),
             'pos': [np.array(a.position, copy=True) for a in space.agents],
             'fit': [a.fit for a in space.agents],
             'best_pos': np.array(space.best_agent.position, copy=True), 'best_fit': space.best_agent.fit}
        if not self.light:
            s['hp'] = {k: getattr(opt, k) for k in self.hpn}
        return s

    def hook(self, opt, space, fn):
        with np.errstate(all='ignore'):
            self._hook(opt, space, fn)

    def _hook(self, opt, space, fn):
        k = len(self.hooks)
        h = {'ids_ok': opt is self.opt and space is self.space and fn is self.fn, 'n_args': 3}
        if not self.light:
            self.check_population(space, 'hook %d' % k)
            if k >= 1:
                self.check_best_feasible(space, 'hook %d' % k)
        h['pos0'] = [np.array(a.position, copy=True) for a in space.agents]
        if str(self.cfg.get('hook')).startswith('move') and self.cfg['space'] != 'tree':
            for i, a in enumerate(space.agents):
                if (i + k) % 2 == 0:
                    new = self.lo + (self.hi - self.lo) * np.array(
                        [[self.mover.random() for _ in range(self.shape[1])] for _ in range(self.shape[0])])
                    new = np.minimum(np.maximum(new, self.lo), self.hi)
                    mode = self.cfg.get('hook')
                    if mode == 'move_out':
                        # the hook may leave an agent outside the box: the sweep evaluates exactly what the hook left (C03), wherever it is
                        new = new + ((-1.0) ** i) * 0.05 * (self.hi - self.lo + 1.0)
                    if mode == 'move_int':
                        # a hook that snaps agents to the integer lattice and leaves integer-dtype arrays behind
                        a.position = np.clip(np.rint(new), np.ceil(self.lo), np.floor(self.hi)).astype(np.int64) \
                            if np.all(np.ceil(self.lo) <= np.floor(self.hi)) else new
                    elif i % 4 == 0:
                        a.position[...] = new
                    else:
                        a.position = new
        h.update(self.snap(opt, space))
        if self.light:
            self.hooks.append(h)
            return
        if self.cfg['space'] == 'tree':
            exp = []
            for t in getattr(space, 'trees', []):
                p = tree_value(t)
                exp.append(np.clip(p, self.lo, self.hi) if p.shape == self.shape else p)
            h['expected_sweep'] = exp
        else:
            h['expected_sweep'] = h['pos']
        self.hooks.append(h)

    def check_population(self, space, when):
        """C07 at a hook / at return."""
        if str(self.cfg.get('hook')).startswith('move'):
            return
        n = self.cfg['n_agents']
        if len(space.agents) != n:
            self.v('C07', 'population-size', 'population holds %d agents instead of n_agents=%d (%s)' % (len(space.agents), n, when),
                   len(space.agents), n)
        arrs = [a.position for a in space.agents]
        for i, p in enumerate(arrs):
            if not isinstance(p, np.ndarray) or p.shape != self.shape:
                self.v('C07', 'position-shape', 'agent %d position has shape %s, declared %s (%s)' % (i, getattr(p, 'shape', None), self.shape, when),
                       list(getattr(p, 'shape', ())), list(self.shape))
                return
        bp = space.best_agent.position
        if not isinstance(bp, np.ndarray) or bp.shape != self.shape:
            self.v('C07', 'best-position-shape', 'best agent position has shape %s, declared %s (%s)' % (getattr(bp, 'shape', None), self.shape, when),
                   list(getattr(bp, 'shape', ())), list(self.shape))
            return
        for i in range(len(arrs)):
            if np.shares_memory(arrs[i], bp):
                self.v('C07', 'agent-shares-best', 'agent %d and the best agent share position storage (%s)' % (i, when), 'shares_memory', 'independent arrays')
            for j in range(i + 1, len(arrs)):
                if np.shares_memory(arrs[i], arrs[j]):
                    self.v('C07', 'agents-share-position', 'agents %d and %d share position storage (%s)' % (i, j, when), 'shares_memory', 'independent arrays')

    def check_best_feasible(self, space, when):
        if str(self.cfg.get('hook')).startswith('move'):
            return
        why = self.check_arg(space.best_agent.position)
        if why:
            self.v('C01', self.cause_key('best-position-%s' % why, None),
                   'best agent position is infeasible (%s) at %s' % (why, when), space.best_agent.position, [self.lo.ravel().tolist(), self.hi.ravel().tolist()])

    def cause_key(self, base, rec):
        """Key of an infeasible point: call site of the evaluation + where the NaN / the excursion came from."""
        if self.cfg['objective'] == 'float_max' and base.startswith('best-position'):
            return 'FLOAT_MAX-objective'
        if base.endswith('nan'):
            org = self.fp.get('invalid value') or self.fp.get('divide by zero') or 'unknown'
            if org == 'node._evaluate' and getattr(self, 'nan_op', None):
                org = '%s:%s' % (org, self.nan_op)          # the tree operator that first produced a non-finite value
            # recorded findings whose cause is crisp carry it in their key, so that the same site failing for ANOTHER reason is not masked:
            if org in ('cs._generate_new_nests', 'fpa._global_pollination') and self.cfg.get('draws') not in ('gauss', 'mixed'):
                org += ':without-a-scripted-zero-deviate'      # the recorded NaN needs a Gaussian draw that is exactly 0
            if org == 'gsa._calculate_mass' and rec is not None:
                # the recorded NaN is 0/0 for a population whose fitnesses are all equal: look at the sweep before the first NaN argument
                try:
                    i = next(k for k, r_ in enumerate(self.evals) if r_ is rec)
                    n = int(self.cfg['n_agents'])
                    s_ = (i // n) * n
                    prev = [float(r_['val']) for r_ in self.evals[max(0, s_ - n):s_]]
                    if len(prev) == n and all(v == v and abs(v) != float('inf') for v in prev) and len(set(prev)) > 1:
                        org += ':distinct-fitnesses'
                except (StopIteration, KeyError, TypeError, ValueError):
                    pass
            if org == 'ihs.run':
                try:
                    if float((self.cfg.get('hyperparams') or {}).get('bw_min', 1.0)) != 0.0:
                        org += ':bw_min-nonzero'               # the recorded NaN is log(0 / bw_max) for bw_min = 0
                except (TypeError, ValueError):
                    pass
            if org == 'rpso._update_velocity' and float(np.max(self.hi - self.lo)) < 3e5:
                # recorded finding (h) needs a velocity component of the order of LIGHT_SPEED = 3e5, i.e. a box at least that wide
                org += ':box-narrower-than-light-speed'
            return '%s@%s' % (base, org)
        return base

    # -- dump wrapper (installed on History.dump)
    def on_dump(self, hist, kwargs, orig):
        with np.errstate(all='ignore'):
            return self._on_dump(hist, kwargs, orig)

    def _on_dump(self, hist, kwargs, orig):
        if self.history_obj is None:
            self.history_obj = hist
        if set(kwargs) == {'time'}:
            self.time_dumps.append(kwargs['time'])
            return orig(hist, **kwargs)
        space = self.space
        d = self.snap(self.opt, space)
        if not self.light:
            d['kw'] = sorted(kwargs)
            d['live_agents'] = [(a.position.tolist(), a.fit) for a in space.agents]
            d['live_best'] = (space.best_agent.position.tolist(), space.best_agent.fit)
            d['live_local'] = [np.asarray(v).tolist() for v in kwargs['local']] if 'local' in kwargs else None
            d['arr_ids'] = [a.position for a in space.agents]
            d['minval'] = self.minval
            d['first_bad'] = self.first_bad
            if self.cfg['space'] == 'tree':
                self.check_gp(space, 'record %d' % len(self.dumps))
                d['best_tree_obj'] = getattr(space, 'best_tree', None)
            self.check_best_feasible(space, 'record %d' % len(self.dumps))
            self.check_c02(space, 'record %d' % len(self.dumps))
        r = orig(hist, **kwargs)
        if not self.light:
            d['rec_copy'] = {k: copy.deepcopy(getattr(hist, k)[-1]) for k in ('agents', 'best_agent', 'local') if hasattr(hist, k)}
            if self.cfg['space'] == 'tree' and isinstance(getattr(hist, 'best_tree', None), list) and hist.best_tree:
                d['best_tree_text'] = tree_text(hist.best_tree[-1])
        self.dumps.append(d)
        return r

    # -- C02 at a record / at return
    def check_c02_history(self, space, when):
        """In a continued space the best agent of the earlier tasks legitimately survives: the best fitness is the minimum of the
        inherited best fitness and of everything the objective returned in this task, with the matching position (strict improvement)."""
        if self.first_bad is not None or getattr(self, 'best0', None) is None:
            return
        b0f, b0p = self.best0
        b = space.best_agent
        bf = fnum(b.fit)
        if not (b0f == b0f) or not (bf == bf):
            return
        improved = self.minval is not None and self.minval < b0f
        want = self.minval if improved else b0f
        if bf != want:
            self.v('C02', 'best-fit-not-min', 'continued space: best fitness %r differs from min(inherited best %r, smallest value returned in this task %r) at %s'
                   % (bf, b0f, self.minval, when), bf, want)
            return
        if improved:
            if not any(eqarr(r['copy'], b.position) for r in self.minargs):
                self.v('C02', 'best-position-not-an-argmin', 'continued space: best position is not an argument at which the objective returned the best fitness (%s)' % when,
                       b.position, [r['copy'].tolist() for r in self.minargs[:3]])
        elif not eqarr(b0p, b.position):
            self.v('C02', 'inherited-best-position-changed', 'continued space: nothing better than the inherited best was evaluated, but the best position changed (%s)' % when,
                   b.position, b0p)

    def check_c02(self, space, when):
        if str(self.cfg.get('hook')).startswith('move'):
            return
        if self.cfg.get('prelude'):
            return self.check_c02_history(space, when)
        if self.first_bad is not None:
            self.skip('C02/C20: non-finite argument or value seen (reported under C01)')
            return
        if self.minval is None:
            return
        b = space.best_agent
        bf = fnum(b.fit)
        if self.cfg['objective'] == 'float_max' or self.minval >= FLOAT_MAX:
            if not any(eqarr(r['copy'], b.position) for r in self.minargs):
                self.v('C02', 'FLOAT_MAX-objective', 'objective == sys.float_info.max everywhere: the best agent keeps its initial all-zero '
                       'position, which was never evaluated (%s)' % when, b.position, 'an evaluated argument')
            return
        if not (bf == self.minval):
            rec = self.minsite
            cls = 'out-of-box' if rec['why'] == 'out-of-box' else 'feasible'
            self.v('C02', 'best-fit-not-min@%s:%s-argument' % (rec['site'], cls),
                   'best fitness %r differs from the smallest value the objective returned so far, %r (returned at %s:%d for a %s argument) at %s'
                   % (bf, self.minval, rec['site'], rec['line'], cls, when), bf, self.minval)
            return
        if not any(eqarr(r['copy'], b.position) for r in self.minargs):
            self.v('C02', 'best-position-not-an-argmin', 'best position is not equal to any argument at which the objective returned the best fitness (%s)' % when,
                   b.position, [r['copy'].tolist() for r in self.minargs[:3]])
        for i, a in enumerate(space.agents):
            if isinstance(a.position, np.ndarray) and isinstance(b.position, np.ndarray) and np.shares_memory(a.position, b.position):
                self.v('C02', 'best-position-not-private', 'best position shares memory with agent %d (%s)' % (i, when), 'shares_memory', 'private copy')

    # -- C12
    def check_gp(self, space, when):
        n = self.cfg['n_agents']
        trees = getattr(space, 'trees', None)
        if trees is None:
            return
        if len(trees) != n or len(space.agents) != n:
            self.v('C12', 'tree-or-agent-count', 'len(trees)=%d len(agents)=%d, n_trees=%d (%s)' % (len(trees), len(space.agents), n, when),
                   [len(trees), len(space.agents)], [n, n])
            return
        bt = space.best_tree
        bnodes, barrs = tree_parts(bt)
        bid = {id(x) for x in bnodes}
        term = [t.position for t in space.terminals]
        for i, t in enumerate(trees):
            nodes, arrs = tree_parts(t)
            if any(id(x) in bid for x in nodes):
                self.v('C12', 'best-tree-shares-node', 'best tree shares a Node object with population tree %d (%s)' % (i, when), 'shared Node', 'detached copy')
            if any(np.shares_memory(a, b) for a in arrs for b in barrs):
                self.v('C12', 'best-tree-shares-array', 'best tree shares a terminal array with population tree %d (%s)' % (i, when), 'shared array', 'detached copy')
        if any(np.shares_memory(a, b) for a in term for b in barrs):
            self.v('C12', 'best-tree-shares-terminal', 'best tree shares an array with the space terminals (%s)' % when, 'shared array', 'detached copy')
        finite_run = self.first_bad is None
        sentinel = not (float(space.best_agent.fit) < FLOAT_MAX)
        if not sentinel:
            bp = tree_value(bt)
            cl = np.clip(bp, self.lo, self.hi) if bp.shape == self.shape else bp
            if not eqarr(cl, space.best_agent.position):
                self.v('C12', 'best-tree-value-differs-from-best-position', 'clip(best_tree.position) differs from best_agent.position (%s)' % when,
                       cl, space.best_agent.position)
            elif finite_run and np.all(np.isfinite(space.best_agent.position)):
                fv = self.raw(space.best_agent.position)
                b0 = getattr(self, 'best0', None)
                other_obj = any(pr.get('objective') and pr['objective'] != self.cfg['objective'] for pr in self.cfg.get('prelude') or [])
                if other_obj and b0 is not None and same(fnum(space.best_agent.fit), b0[0]) and eqarr(space.best_agent.position, b0[1]):
                    pass        # the earlier tasks optimised ANOTHER objective: the inherited (best agent, best tree) pair legitimately
                    #             survives until this task finds something below it (C12_task_histories: "or still the pair it started with")
                elif not same(fnum(fv), fnum(space.best_agent.fit)):
                    self.v('C12', 'best-fit-not-f(best-position)', 'f(best_agent.position)=%r differs from best_agent.fit=%r (%s)' % (fv, space.best_agent.fit, when),
                           fv, space.best_agent.fit)
        for i, (t, a) in enumerate(zip(trees, space.agents)):
            tp = tree_value(t)
            cl = np.clip(tp, self.lo, self.hi) if tp.shape == self.shape else tp
            if not eqarr(cl, a.position):
                self.v('C12', 'agent-position-differs-from-tree-value', 'agent %d position differs from clip(tree %d value) (%s)' % (i, i, when), a.position, cl)
            elif np.all(np.isfinite(a.position)):
                fv = self.raw(a.position)
                if not same(fnum(fv), fnum(a.fit)):
                    self.v('C12', 'agent-fit-not-f(position)', 'agent %d fit %r differs from f(position)=%r (%s)' % (i, a.fit, fv, when), a.fit, fv)


# ------------------------------------------------------------------ one monitored run

class Patches:
    def __init__(self, mon):
        self.mon = mon

    def __enter__(self):
        import opytimizer.utils.history as H
        import opytimizer.core.agent as A
        import opytimizer.spaces.search as S
        import opytimizer.spaces.hyper as Y
        mon = self.mon
        self.saved = [(H.History, 'dump', H.History.dump), (A.Agent, 'check_limits', A.Agent.check_limits),
                      (S.SearchSpace, 'check_limits', S.SearchSpace.check_limits), (Y.HyperSpace, 'check_limits', Y.HyperSpace.check_limits)]
        od, oa, os_, oy = [s[2] for s in self.saved]

        def dump(self_, **kw):
            return mon.on_dump(self_, kw, od)

        def acl(self_):
            mon.n_clip_agent += 1
            return oa(self_)

        def scl(self_):
            mon.n_clip_space += 1
            return os_(self_)

        def ycl(self_):
            mon.n_clip_space += 1
            return oy(self_)
        H.History.dump, A.Agent.check_limits, S.SearchSpace.check_limits, Y.HyperSpace.check_limits = dump, acl, scl, ycl
        # GP: which operator first turns finite operands into a non-finite value (calls complete children first, so the first completed
        # call with a non-finite result is an origin)
        try:
            import opytimizer.core.node as N
            oev = N._evaluate
            self.saved.append((N, '_evaluate', oev))

            def ev(node):
                r_ = oev(node)
                if getattr(mon, 'nan_op', None) is None and isinstance(r_, np.ndarray):
                    with np.errstate(all='ignore'):
                        bad = not np.all(np.isfinite(r_))
                    if bad:
                        mon.nan_op = str(getattr(node, 'name', '?')) if getattr(node, 'type', None) == 'FUNCTION' else 'TERMINAL'
                return r_
            N._evaluate = ev
        except Exception:  # noqa: BLE001
            pass
        if mon.cfg.get('clock') == 'frozen':
            # a clock that does not advance during the task (a coarse wall clock and a tiny task, a virtual clock): elapsed time 0.0
            try:
                import types
                import opytimizer.opytimizer as OO
                if isinstance(getattr(OO, 'time', None), types.ModuleType):
                    self.saved.append((OO, 'time', OO.time))
                    shim = types.SimpleNamespace(**{k: getattr(OO.time, k) for k in dir(OO.time) if not k.startswith('__')})
                    shim.time = lambda: 1.7e9
                    OO.time = shim
            except Exception:  # noqa: BLE001
                pass
        self.olderr = np.geterr()
        self.oldcall = np.geterrcall()

        def fpcall(kind, flag):
            if kind in mon.fp:
                return
            f = sys._getframe(1)
            while f is not None and '/opytimizer/' not in f.f_code.co_filename:
                f = f.f_back
            mon.fp[kind] = site_of(f) if f is not None else 'outside-library'
        np.seterrcall(fpcall)
        np.seterr(invalid='call', divide='call', over='ignore', under='ignore')
        return self

    def __exit__(self, *a):
        for o, n, f in self.saved:
            setattr(o, n, f)
        np.seterrcall(self.oldcall)
        np.seterr(**self.olderr)


def tb_sites(tb):
    out = []
    for fs in traceback.extract_tb(tb):
        if '/opytimizer/' in fs.filename:
            out.append(('%s.%s' % (os.path.basename(fs.filename)[:-3], fs.name), fs.lineno))
    return out


def phase_site(sites):
    """The library function a crash/hang is attributed to: innermost library frame."""
    return sites[-1][0] if sites else 'outside-library'


def loop_site(sites):
    """For hangs: the frame directly below `_update` (the phase that does not finish), else innermost."""
    names = [s[0] for s in sites]
    for i, s in enumerate(names):
        if s.endswith('._update') and i + 1 < len(names):
            return names[i + 1]
    return names[-1] if names else 'outside-library'


def execute(cfg, light=False, seed=None):
    """Seed, build from scratch, run under observation.  Returns the Monitor (with .outcome)."""
    from opytimizer import Opytimizer
    mon = Monitor(cfg, light)
    draws = Draws(cfg.get('draws', 'seeded'))
    np.random.seed(cfg['seed'] if seed is None else seed)
    mon.state0 = np.random.get_state()[1][:8].tolist()
    mon.outcome = {'status': 'ok'}
    hist = None
    pre_space = None
    if cfg.get('prelude'):
        # a history of tasks: the space is built and optimised by the earlier tasks before observation starts
        pre_space = build(cfg, mon.raw)[0]
        try:
            run_prelude(cfg, pre_space)
        except (Exception, SoftTimeout) as ex:  # noqa: BLE001
            # an earlier task that does not complete is that task's own (single-task) C03 matter: no history to continue
            mon.outcome = {'status': 'prelude-' + ('timeout' if isinstance(ex, SoftTimeout) else 'exception'), 'type': type(ex).__name__, 'msg': str(ex)[:200]}
            mon.skip('history of tasks: an earlier task did not complete (%s)' % type(ex).__name__)
            mon.draws = draws
            mon.hist = None
            mon.state1 = mon.state0
            return mon
    opt_pre = None
    if cfg.get('reuse_optimizer'):
        # a history on the OPTIMIZER object: it has already run a task on another, freshly built space (of another size)
        try:
            from opytimizer.core.function import Function as _F
            opt_pre = build_optimizer(cfg['optimizer'], cfg.get('hyperparams'), cfg.get('hp_numpy'))
            sp2 = build(dict(cfg, **cfg['reuse_optimizer']), mon.raw, opt=opt_pre)[0]
            with np.errstate(all='ignore'):
                Opytimizer(space=sp2, optimizer=opt_pre, function=_F(pointer=mon.raw)).start()
        except (Exception, SoftTimeout) as ex:  # noqa: BLE001
            mon.outcome = {'status': 'prelude-' + ('timeout' if isinstance(ex, SoftTimeout) else 'exception'), 'type': type(ex).__name__, 'msg': str(ex)[:200]}
            mon.skip('history of tasks: the earlier task of the reused optimizer did not complete (%s)' % type(ex).__name__)
            mon.draws = draws
            mon.hist = None
            mon.state1 = mon.state0
            return mon
    with Patches(mon):
        draws.install()
        try:
            space, opt, fn = build(cfg, mon.fwrap, pre_space, opt_pre)
            for k_, v_ in cfg.get('hp_post') or []:
                setattr(opt, k_, v_)            # a build / re-assign / run sequence: hyperparameters re-assigned through their public setters
            mon.space, mon.opt, mon.fn = space, opt, fn
            if cfg.get('prelude'):
                try:
                    mon.best0 = (fnum(space.best_agent.fit), np.array(space.best_agent.position, copy=True))
                except Exception:  # noqa: BLE001
                    mon.best0 = None
            if cfg.get('other_space'):
                # another live space of the same kind and shape with ANOTHER box, built after the observed one and kept alive
                try:
                    lb0, ub0 = bounds(cfg)
                    mon.other_space = build(dict(cfg, lb=[v - 3.0 for v in lb0], ub=[v + 5.0 for v in ub0]), mon.raw)[0]
                except Exception:  # noqa: BLE001
                    mon.other_space = None
            mon.hpn = hp_names(opt)
            mon.hp0 = {k: getattr(opt, k) for k in mon.hpn}
            task = Opytimizer(space=space, optimizer=opt, function=fn)
            kw = {'store_best_only': bool(cfg.get('store_best_only'))}
            if cfg.get('hook', 'observe') != 'none':
                # any callable is a hook: a bound method, a functools.partial (no __name__), an instance with __call__
                hk = int(cfg.get('seed', 0)) % 3
                if hk == 1:
                    import functools
                    kw['pre_evaluation_hook'] = functools.partial(mon.hook)
                elif hk == 2:
                    class _CallableHook:
                        def __call__(self_, o, s_, f):
                            return mon.hook(o, s_, f)
                    kw['pre_evaluation_hook'] = _CallableHook()
                else:
                    kw['pre_evaluation_hook'] = mon.hook
            hist = task.start(**kw)
        except SoftTimeout:
            et, ev, tb = sys.exc_info()
            mon.outcome = {'status': 'timeout', 'sites': tb_sites(tb)}
        except Exception as ex:  # noqa: BLE001
            et, ev, tb = sys.exc_info()
            mon.outcome = {'status': 'exception', 'type': type(ex).__name__, 'msg': str(ex)[:200], 'sites': tb_sites(tb)}
        finally:
            draws.remove()
        mon.draws = draws
        mon.hist = hist
        mon.state1 = np.random.get_state()[1][:8].tolist()
        if not light and mon.outcome['status'] == 'ok':
            final_checks(mon)
    return mon


# ------------------------------------------------------------------ oracles evaluated after the run

def in_c03_scope(cfg):
    if cfg.get('hp_edge'):
        return False, 'hyperparameters outside the working range (edge setting)'
    w = WR[cfg['optimizer']]
    if cfg['n_agents'] < w['min_agents']:
        return False, 'population below the minimum'
    if cfg['optimizer'] == 'WCA' and cfg['n_agents'] < (cfg.get('hyperparams') or {}).get('nsr', 2):
        return False, 'population below the minimum'
    if cfg['optimizer'] == 'ABC' and cfg.get('draws') in ('high', 'alt', 'mixed'):
        return False, 'unfair draw stream for the onlooker loop'
    return True, ''


def failure_class(mon):
    """Input class of a crash / hang, decided from what was observed (not from the configuration)."""
    if mon.first_bad is not None:
        return 'after-nan-evaluation'
    vals = [float(r['val']) for r in mon.evals if r is not None]
    n = mon.cfg['n_agents']
    last = vals[-n:] if vals else []
    name = mon.cfg['optimizer']
    if name == 'BHA' and last and sum(last) == 0:
        return 'zero-cost'                       # sum of the fitnesses evaluated by the update
    if name == 'WCA' and last and sum(last[:getattr(mon.opt, 'nsr', 2)]) == 0:
        return 'zero-cost'                       # sum of the first nsr fitnesses
    if mon.outcome.get('status') == 'timeout' and vals and all(v < 0 for v in vals) and -sum(last) < 1e-10:
        return 'negative-fitness-sum-within-epsilon'   # total + EPSILON >= 0 although every fitness is negative
    if mon.outcome.get('status') == 'timeout' and vals and (all(v < 0 for v in vals) or all(v > 0 for v in vals)):
        return 'constant-sign-objective'         # a hang although every value has the same sign (not finding (e))
    if last and all(v == last[0] for v in last):
        return 'equal-fitness'
    if any(v > 0 for v in vals) and any(v < 0 for v in vals):
        return 'sign-changing'
    if mon.outcome.get('status') == 'timeout' and vals and (all(v < 0 for v in vals) or all(v > 0 for v in vals)):
        return 'constant-sign-objective'
    return 'other'


def check_c03(mon):
    cfg = mon.cfg
    ok, why = in_c03_scope(cfg)
    out = mon.outcome
    if not ok:
        mon.skip('C03: ' + why)
        return
    n, nit = cfg['n_agents'], cfg['n_iterations']
    if out['status'].startswith('prelude-'):
        return
    if out['status'] == 'exception':
        site = phase_site(out['sites'])
        cls = failure_class(mon)
        if out['type'] == 'ZeroDivisionError' and mon.evals and all(r is None or isinstance(r['val'], np.generic) for r in mon.evals):
            # the recorded 0/0 findings raise for Python-float fitnesses; NumPy-scalar fitnesses divide to NaN/inf with a warning
            cls += ':numpy-scalar-fitnesses'
        mon.v('C03', '%s:%s:%s' % (site, out['type'], cls),
              'start() raised %s (%s) in %s [%s]' % (out['type'], out['msg'], site, cls), out['type'] + ': ' + out['msg'], 'returns normally')
        return
    if out['status'] == 'timeout':
        site = loop_site(out['sites'])
        cls = failure_class(mon)
        mon.v('C03', '%s:nonterminating:%s' % (site, cls), 'start() did not return within %ss; stopped inside %s [%s]' % (cfg.get('timeout'), site, cls),
              'timeout at ' + ' > '.join(s[0] for s in out['sites'][-4:]), 'returns normally')
        return
    hist = mon.hist
    nrec = len(getattr(hist, 'best_agent', []))
    if nrec != nit or len(mon.dumps) != nit:
        mon.v('C03', 'iteration-count', 'history holds %d records after %d dump calls for n_iterations=%d' % (nrec, len(mon.dumps), nit), [nrec, len(mon.dumps)], nit)
    if cfg.get('hook', 'observe') != 'none':
        if len(mon.hooks) != nit + 1:
            mon.v('C03', 'hook-count', 'hook called %d times, expected n_iterations+1=%d' % (len(mon.hooks), nit + 1), len(mon.hooks), nit + 1)
        if not all(h['ids_ok'] for h in mon.hooks):
            mon.v('C03', 'hook-arguments', 'hook not called with (optimizer, space, function)', 'other objects', 'the task objects')
        # the sweep after each hook evaluates, in population order, what the hook left behind
        for k, h in enumerate(mon.hooks):
            exp = h['expected_sweep']
            got = mon.evals[h['n_evals']:h['n_evals'] + len(exp)]
            bad = None
            if len(got) < len(exp):
                bad = 'only %d objective calls follow hook %d (population %d)' % (len(got), k, len(exp))
            else:
                for i, (e, g) in enumerate(zip(exp, got)):
                    if not eqarr(e, g['copy']):
                        bad = 'call %d after hook %d is not at the position the hook left in agent %d' % (i, k, i)
                        break
            if bad:
                mon.v('C03', 'sweep-not-hook-state', bad, None if len(got) < len(exp) else got[i]['copy'], None if len(got) < len(exp) else e)
                break
        # per sweep >= n_agents calls: between hook t+1 and dump t
        for t, d in enumerate(mon.dumps):
            if t + 1 < len(mon.hooks):
                c = d['n_evals'] - mon.hooks[t + 1]['n_evals']
                if c < n:
                    mon.v('C03', 'sweep-too-few-calls', '%d objective calls between hook %d and record %d, population %d' % (c, t + 1, t, n), c, '>= %d' % n)
                    break
    # per-iteration budget
    a, b = WR[cfg['optimizer']]['budget']
    budget = a * n + b
    prev = n                                   # the initial sweep
    mx = 0
    for t, d in enumerate(mon.dumps):
        c = d['n_evals'] - prev
        prev = d['n_evals']
        mx = max(mx, c)
        if c > budget:
            mon.v('C03', 'over-budget', '%d objective calls in iteration %d, budget %d*n+%d=%d' % (c, t, a, b, budget), c, '<= %d' % budget)
            break
    mon.max_iter_calls = mx


def check_c04(mon):
    cfg, hist = mon.cfg, mon.hist
    nit = cfg['n_iterations']
    sbo = bool(cfg.get('store_best_only'))
    t_ = getattr(hist, 'time', None)
    if not (isinstance(t_, list) and len(t_) == 1 and t_[0] >= 0) or len(mon.time_dumps) != 1:
        mon.v('C04', 'time-entry', 'history.time = %r after %d time dumps' % (t_, len(mon.time_dumps)), repr(t_), 'exactly one non-negative entry')
    keys = ['best_agent'] if sbo else (['best_agent', 'agents'] + (['local'] if cfg['optimizer'] in SWARM else []))
    if sbo:
        for k in ('agents', 'local'):
            if hasattr(hist, k):
                mon.v('C04', 'store-best-only-keeps-' + k, 'store_best_only=True but history.%s exists' % k, 'present', 'absent')
    for k in keys:
        ser = getattr(hist, k, None)
        if not isinstance(ser, list) or len(ser) != nit:
            mon.v('C04', 'series-length-' + k, 'history.%s holds %s records for n_iterations=%d' % (k, None if ser is None else len(ser), nit),
                  None if ser is None else len(ser), nit)
            return
    if len(mon.dumps) != nit:
        return
    # the recorded best trees (GP) are records too: each must still be, value for value, what it was when it was stored
    bts = getattr(hist, 'best_tree', None)
    if cfg['space'] == 'tree' and isinstance(bts, list) and len(bts) == nit:
        for t, d in enumerate(mon.dumps):
            if 'best_tree_text' in d and tree_text(bts[t]) != d['best_tree_text']:
                mon.v('C04', 'record-altered-later-best_tree', 'history.best_tree[%d] changed after it was stored (its nodes or terminal values were '
                      'rewritten by a later iteration)' % t, 'changed', 'unchanged')
                break
    # saving the history is a read: the returned History must be the same record afterwards
    try:
        import tempfile
        before = {k: copy.deepcopy(getattr(hist, k)) for k in ('agents', 'best_agent', 'local') if hasattr(hist, k)}
        tb = [tree_text(x) for x in bts] if isinstance(bts, list) else None
        with tempfile.TemporaryDirectory() as td:
            hist.save(os.path.join(td, 'h.pkl'))
        for k, v in before.items():
            if not same(getattr(hist, k, None), v):
                mon.v('C04', 'record-altered-by-save-' + k, 'history.%s changed when the history was saved' % k, 'changed', 'unchanged')
        if tb is not None and [tree_text(x) for x in getattr(hist, 'best_tree', [])] != tb:
            mon.v('C04', 'record-altered-by-save-best_tree', 'history.best_tree changed when the history was saved', 'changed', 'unchanged')
    except Exception:  # noqa: BLE001   (a save that raises is C19's subject)
        pass
    for t, d in enumerate(mon.dumps):
        for k, live in (('best_agent', d['live_best']), ('agents', d['live_agents']), ('local', d['live_local'])):
            if k not in keys:
                continue
            rec = getattr(hist, k)[t]
            if not same(rec, d['rec_copy'].get(k)):
                mon.v('C04', 'record-altered-later-' + k, 'history.%s[%d] changed after it was stored' % (k, t), str(rec)[:300], str(d['rec_copy'].get(k))[:300])
                return
            if live is not None and not same(rec, live):
                mon.v('C04', 'record-differs-from-state-' + k, 'history.%s[%d] differs from the live state when dump was called' % (k, t), str(rec)[:300], str(live)[:300])
                return
    # the last record is the state at the end of the last iteration (= at return)
    sp = mon.space
    if not same(hist.best_agent[-1], (sp.best_agent.position.tolist(), sp.best_agent.fit)):
        mon.v('C04', 'last-record-not-final-state-best_agent', 'last best_agent record differs from the best agent at return',
              str(hist.best_agent[-1])[:300], str((sp.best_agent.position.tolist(), sp.best_agent.fit))[:300])
    if not sbo and not same(hist.agents[-1], [(a.position.tolist(), a.fit) for a in sp.agents]):
        mon.v('C04', 'last-record-not-final-state-agents', 'last agents record differs from the population at return (iteration not finished when dumped)',
              str(hist.agents[-1])[:300], str([(a.position.tolist(), a.fit) for a in sp.agents])[:300])


def check_c15(mon):
    cfg = mon.cfg
    name = cfg['optimizer']
    adaptive = WR[name]['adaptive']
    pts = [('hook %d' % k, h['hp']) for k, h in enumerate(mon.hooks)] + [('return', {k: getattr(mon.opt, k) for k in mon.hpn})]
    hp0 = mon.hp0

    def num(x):
        try:
            return float(x)
        except Exception:  # noqa: BLE001
            return float('nan')
    prev = dict(hp0)
    for when, hp in pts:
        for k in mon.hpn:
            v = hp[k]
            if k not in adaptive:
                if not same(v, hp0[k]):
                    mon.v('C15', '%s.%s:changed-by-run' % (name, k), 'hyperparameter %s changed from %r to %r (%s)' % (k, hp0[k], v, when), v, hp0[k])
                continue
            x = num(v)
            if name in ('AIWPSO', 'IHS') and when in ('hook 0', 'hook 1') and same(v, hp0[k]):
                pass        # before the first write (AIWPSO writes w after the sweep of iteration 0, i.e. after hook 1): a range declared around another value than the
                #             inherited one (w, PAR, bw of the parent class) takes effect with the first write
            elif name in ('AIWPSO', 'IHS'):
                lo, hi = {'w': ('w_min', 'w_max'), 'PAR': ('PAR_min', 'PAR_max'), 'bw': ('bw_min', 'bw_max')}[k]
                if not (num(hp[lo]) <= x <= num(hp[hi])):
                    cls = 'nan' if x != x else 'out-of-range'
                    l_, h_ = num(hp[lo]), num(hp[hi])
                    if x == x and l_ <= h_ and (0 < x - h_ <= 4 * math.ulp(h_) or 0 < l_ - x <= 4 * math.ulp(l_)):
                        # an end point of the range missed by a few ulps; a degenerate range (lo == hi) is a different circumstance
                        cls = 'rounding-outside-range' + (':degenerate-range' if l_ == h_ else '')
                    extra = ':bw_min=0' if (name == 'IHS' and num(hp['bw_min']) == 0) else ''
                    mon.v('C15', '%s.%s:%s%s' % (name, k, cls, extra), '%s=%r outside [%s=%r, %s=%r] (%s)' % (k, v, lo, hp[lo], hi, hp[hi], when), v, [hp[lo], hp[hi]])
            else:
                if name == 'SA' and not (num(hp0.get('beta', 1)) <= 1):
                    continue
                if not (x >= 0) or not (x <= num(prev[k])):
                    mon.v('C15', '%s.%s:%s' % (name, k, 'negative-or-nan' if not (x >= 0) else 'increased'),
                          '%s went from %r to %r (%s)' % (k, prev[k], v, when), v, '0 <= %s <= %r' % (k, prev[k]))
        prev = hp


def check_c20(mon):
    cfg, hist = mon.cfg, mon.hist
    if cfg.get('store_best_only'):
        return
    # a hook that moves agents is followed by the evaluation sweep, so every record is still truthful (clause 1);
    # the monotonicity clause is about the algorithm's own moves and is not judged then
    moving = str(cfg.get('hook')).startswith('move')
    name = cfg['optimizer']
    ag = getattr(hist, 'agents', None)
    if not isinstance(ag, list):
        return
    swarm = name in SWARM
    loc = getattr(hist, 'local', None)
    for t, rec in enumerate(ag):
        d = mon.dumps[t] if t < len(mon.dumps) else None
        if d is not None and d['first_bad'] is not None:
            mon.skip('C02/C20: non-finite argument or value seen (reported under C01)')
            return
        for i, (pos, fit) in enumerate(rec):
            p = np.asarray(loc[t][i] if swarm and loc is not None else pos, dtype=float)
            if p.shape != mon.shape or not np.all(np.isfinite(p)):
                continue
            fv = mon.raw(p)
            if not same(fnum(fv), fnum(fit)):
                moved = d is not None and not any(d['arr_ids'][i] is r['arr'] and eqarr(r['copy'], np.asarray(pos, dtype=float))
                                                  for r in mon.evals[max(0, d['n_evals'] - 4 * cfg['n_agents'] - 2):d['n_evals']])
                key = '%s:record-fit-not-f(%s)%s' % (name, 'local' if swarm else 'position', ':position-moved-after-its-evaluation' if moved else '')
                mon.v('C20', key, 'record %d agent %d: stored fit %r but f(stored %s)=%r' % (t, i, fit, 'local best' if swarm else 'position', fv), fit, fv)
                break
    if (name in GREEDY_AGENT or name in GREEDY_RANK) and not moving:
        for t in range(1, len(ag)):
            a0 = [fnum(x[1]) for x in ag[t - 1]]
            a1 = [fnum(x[1]) for x in ag[t]]
            if name in GREEDY_RANK:
                a0, a1 = sorted(a0), sorted(a1)
            for i, (x, y) in enumerate(zip(a0, a1)):
                if y > x:
                    d = mon.dumps[t]
                    oob = [r for r in mon.evals[mon.dumps[t - 1]['n_evals']:d['n_evals']] if r['why'] == 'out-of-box']
                    cause = (':after-%s-out-of-box' % oob[0]['site']) if oob else ''
                    mon.v('C20', '%s:%s-fitness-increased%s' % ('HS' if name in GREEDY_RANK else name, 'rank' if name in GREEDY_RANK else 'agent', cause),
                          '%s %d fitness increased from %r to %r between records %d and %d' % ('rank' if name in GREEDY_RANK else 'agent', i, x, y, t - 1, t), y, '<= %r' % x)
                    return


def check_c01_args(mon):
    if str(mon.cfg.get('hook')).startswith('move'):
        return
    for i, r in enumerate(mon.evals):
        if r['why']:
            base = '%s:eval-%s' % (r['site'], r['why'])
            mon.v('C01', mon.cause_key(base, r), 'objective call %d (from %s:%d) received a %s argument' % (i, r['site'], r['line'], r['why']),
                  r['copy'], [mon.lo.ravel().tolist(), mon.hi.ravel().tolist()])


def check_c02_records_fixed(mon):
    """C02 is observed at History.best_agent[t] too: the (position, fitness) recorded at iteration t must still be what was recorded then."""
    ba = getattr(mon.hist, 'best_agent', None)
    if not isinstance(ba, list):
        return
    for t, rec in enumerate(ba):
        d = mon.dumps[t] if t < len(mon.dumps) else None
        then = (d or {}).get('rec_copy', {}).get('best_agent')
        if then is None:
            continue
        try:
            same_now = eqarr(np.asarray(rec[0], dtype=float), np.asarray(then[0], dtype=float)) and same(fnum(rec[1]), fnum(then[1]))
        except Exception:  # noqa: BLE001
            same_now = False
        if not same_now:
            mon.v('C02', 'recorded-best-changed-after-its-record', 'History.best_agent[%d] was %r when it was recorded and is %r at return' % (t, then, rec), rec, then)
            return


def check_c02_mono(mon):
    check_c02_records_fixed(mon)
    if str(mon.cfg.get('hook')).startswith('move') or mon.first_bad is not None:
        return
    b = [fnum(x[1]) for x in getattr(mon.hist, 'best_agent', [])]
    for t in range(1, len(b)):
        if b[t] > b[t - 1]:
            mon.v('C02', 'best-fit-increased', 'recorded best fitness increased from %r to %r at record %d' % (b[t - 1], b[t], t), b[t], '<= %r' % b[t - 1])
            return


def poke_test(mon):
    """C07 at return: add 1.0 in place to each agent in turn; nothing else may move."""
    if str(mon.cfg.get('hook')).startswith('move'):
        return
    sp, hist = mon.space, mon.hist
    hkeys = [k for k in ('agents', 'best_agent', 'local') if hasattr(hist, k)]
    for i, a in enumerate(sp.agents):
        if not isinstance(a.position, np.ndarray) or a.position.dtype.kind != 'f':
            continue
        before = [np.array(x.position, copy=True) for x in sp.agents]
        bbest = np.array(sp.best_agent.position, copy=True)
        hbefore = {k: copy.deepcopy(getattr(hist, k)) for k in hkeys}
        a.position += 1.0
        for j, x in enumerate(sp.agents):
            if j != i and not eqarr(x.position, before[j]):
                mon.v('C07', 'poke-moves-other-agent', 'adding 1.0 in place to agent %d changed agent %d' % (i, j), x.position, before[j])
        if not eqarr(sp.best_agent.position, bbest):
            mon.v('C07', 'poke-moves-best', 'adding 1.0 in place to agent %d changed the best agent' % i, sp.best_agent.position, bbest)
        for k in hkeys:
            if not same(getattr(hist, k), hbefore[k]):
                mon.v('C07', 'poke-moves-history-' + k, 'adding 1.0 in place to agent %d changed history.%s' % (i, k), 'changed', 'unchanged')
        a.position[...] = before[i]


def check_gp_records(mon):
    """C12 on the History: record t's best tree still yields record t's best position (the object is replaced, never mutated)."""
    hist = mon.hist
    bts = getattr(hist, 'best_tree', None)
    if not isinstance(bts, list):
        mon.v('C12', 'no-best-tree-series', 'GP history has no best_tree series', None, 'one per iteration')
        return
    if len(bts) != len(hist.best_agent) or len(bts) != mon.cfg['n_iterations']:
        mon.v('C12', 'best-tree-series-and-best-agent-series-differ-in-length', 'after %d iterations the history holds %d best trees and %d best agents: '
              'record t no longer pairs the best tree of iteration t with the best position of iteration t'
              % (mon.cfg['n_iterations'], len(bts), len(hist.best_agent)), (len(bts), len(hist.best_agent)), mon.cfg['n_iterations'])
        return
    for t, (bt, ba) in enumerate(zip(bts, hist.best_agent)):
        if not (float(ba[1]) < FLOAT_MAX):
            continue
        try:
            bp = tree_value(bt)
        except Exception as ex:  # noqa: BLE001
            mon.v('C12', 'recorded-best-tree-cannot-be-evaluated', 'record %d of %d: evaluating the recorded best tree after the task raises %s (%s); at dump time it '
                  'evaluated to the recorded best position' % (t, len(bts), type(ex).__name__, str(ex)[:80]), type(ex).__name__, 'the recorded best position')
            mon.v('C04', 'recorded-best-tree-altered-later', 'record %d of %d: the recorded best tree can no longer be evaluated after the task (%s): a later '
                  'iteration altered an earlier record' % (t, len(bts), type(ex).__name__), type(ex).__name__, 'unaltered record')
            return
        cl = np.clip(bp, mon.lo, mon.hi) if bp.shape == mon.shape else bp
        if not eqarr(cl, np.asarray(ba[0], dtype=float)):
            mon.v('C12', 'recorded-best-tree-differs-from-recorded-best-position', 'record %d: clip(best_tree.position) differs from the recorded best position' % t,
                  cl, ba[0])
            return


def final_checks(mon):
    sp = mon.space
    mon.check_population(sp, 'return')
    mon.check_best_feasible(sp, 'return')
    if mon.cfg.get('prelude'):
        # C04 and the plain C02 oracle speak about one task on a fresh space; C02 has a history form (inherited best);
        # C20 (records truthful, greedy individuals never get worse) applies to every task of a history as it stands
        mon.check_c02(sp, 'return')
        check_c01_args(mon)
        check_c04(mon)
        check_c20(mon)
        return
    mon.check_c02(sp, 'return')
    if mon.cfg['space'] == 'tree':
        mon.check_gp(sp, 'return')
        check_gp_records(mon)
    check_c01_args(mon)
    check_c02_mono(mon)
    check_c04(mon)
    check_c20(mon)
    poke_test(mon)


# ------------------------------------------------------------------ C05

def run_digest(mon):
    h = mon.hist
    if h is None:
        return None
    out = {}
    for k, v in sorted(vars(h).items()):
        if k in ('time',):
            continue
        if k == 'best_tree':
            out[k] = [tree_ser(t) for t in v]
        elif k in ('agents', 'best_agent', 'local'):
            out[k] = hexify(v)
        else:
            out[k] = repr(v)
    sp = mon.space
    out['final'] = hexify([(a.position.tolist(), a.fit) for a in sp.agents] + [(sp.best_agent.position.tolist(), sp.best_agent.fit)])
    if hasattr(sp, 'trees'):
        out['final_trees'] = [tree_ser(t) for t in sp.trees] + [tree_ser(sp.best_tree)]
    return json.dumps(out, sort_keys=True)


def hexify(v):
    if isinstance(v, (list, tuple)):
        return [hexify(x) for x in v]
    try:
        return float(v).hex()
    except Exception:  # noqa: BLE001
        return repr(v)


def check_c05(cfg, mon1):
    """Same seed, different preceding workload => identical; different seed => the stream matters."""
    res = []
    d1 = run_digest(mon1)
    # preceding workload: another optimizer's run, a different-seed run of the same task, gc
    other = dict(cfg, optimizer='HC' if cfg['optimizer'] != 'HC' else 'PSO', hyperparams={}, hp_edge=False, space='search' if cfg['space'] == 'tree' else cfg['space'],
                 objective='sphere', n_iterations=2, draws='seeded', hook='observe')
    execute(other, light=True, seed=cfg['seed'] + 7919)
    m3 = execute(cfg, light=True, seed=cfg['seed'] + 1)
    gc.collect()
    pyrandom.seed(12345)                    # a run must not depend on Python's own generator either way
    m2 = execute(cfg, light=True)
    d2 = run_digest(m2)
    if m2.outcome['status'] != 'ok' or d1 != d2:
        where = 'outcome %s' % m2.outcome['status']
        if d1 and d2:
            j1, j2 = json.loads(d1), json.loads(d2)
            where = 'first differing series: ' + next((k for k in j1 if j1.get(k) != j2.get(k)), '?')
        res.append({'property': 'C05', 'key': 'same-seed-runs-differ', 'what': 'two tasks built from scratch after np.random.seed(%d) differ (%s) '
                    'after a different preceding workload' % (cfg['seed'], where), 'observed': 'different', 'expected': 'bit-identical'})
    if mon1.state0 == mon1.state1:
        res.append({'property': 'C05', 'key': 'stream-not-consumed', 'what': 'the global NumPy generator state is unchanged by the run',
                    'observed': 'unchanged', 'expected': 'consumed'})
    lb, ub = bounds(cfg)
    if cfg['space'] == 'hyper' or any(u > l for l, u in zip(lb, ub)):
        if m3.outcome['status'] == 'ok' and m3.hooks and mon1.hooks and all(eqarr(a, b) for a, b in zip(m3.hooks[0]['pos0'], mon1.hooks[0]['pos0'])) \
                and run_digest(m3) == d1:
            res.append({'property': 'C05', 'key': 'different-seeds-same-run', 'what': 'seeds %d and %d give identical runs' % (cfg['seed'], cfg['seed'] + 1),
                        'observed': 'identical', 'expected': 'different'})
    return res


# ------------------------------------------------------------------ entry point for one configuration

def _alarm(signum, frame):
    raise SoftTimeout()


def run_task(cfg):
    t0 = time.time()
    to = float(cfg.get('timeout', 5))
    signal.signal(signal.SIGALRM, _alarm)
    signal.setitimer(signal.ITIMER_REAL, to)
    try:
        mon = execute(cfg)
    finally:
        signal.setitimer(signal.ITIMER_REAL, 0)
    check_c03(mon)
    viol = list(mon.viol)
    if mon.outcome['status'] == 'ok':
        check_c15(mon)
        viol = list(mon.viol)
        if cfg.get('repro') and cfg.get('draws', 'seeded') == 'seeded':
            signal.setitimer(signal.ITIMER_REAL, 4 * to)
            try:
                viol += check_c05(cfg, mon)
            except SoftTimeout:
                mon.skip('C05: pair run timed out')
            finally:
                signal.setitimer(signal.ITIMER_REAL, 0)
    else:
        # partial runs still yield C01/C07/C15 observations made so far
        if mon.outcome['status'] in ('exception', 'timeout') and hasattr(mon, 'space'):
            check_c01_args(mon)
            viol = list(mon.viol)
    if cfg.get('prelude'):
        # a key that names its own cause (`...@site`: NaN produced by the observed task's arithmetic; a position moved after its
        # evaluation) identifies the same defect as in a single task; everything else is specific to the continued space and keyed
        # `history:` (the earlier tasks are in the replayed configuration, not in the key; the swarm family shares its sweep)
        def hkey(k):
            if '@' in k or ':position-moved-after-its-evaluation' in k:
                return k
            return 'history:' + re.sub(r'^(PSO|AIWPSO|RPSO):', 'PSO-family:', k)
        viol = [dict(v, key=hkey(v['key'])) for v in viol if v['property'] in ('C01', 'C02', 'C04', 'C07', 'C12', 'C20')]
    if cfg.get('reuse_optimizer'):
        # the observed space is fresh: every single-task oracle applies and a violation keeps its single-task key
        viol = [v for v in viol if v['property'] != 'C05']
    stats = {'status': mon.outcome['status'], 'n_evals': len(mon.evals), 'n_hooks': len(mon.hooks), 'n_dumps': len(mon.dumps),
             'n_uniform': getattr(mon, 'draws', None) and mon.draws.n_uniform, 'n_normal': getattr(mon, 'draws', None) and mon.draws.n_normal,
             'n_choice': getattr(mon, 'draws', None) and mon.draws.n_choice, 'clip_agent': mon.n_clip_agent, 'clip_space': mon.n_clip_space,
             'max_iter_calls': getattr(mon, 'max_iter_calls', None), 'fp': mon.fp, 'skipped': mon.skipped,
             'outcome': mon.outcome, 'wall': round(time.time() - t0, 3),
             'nontrivial': bool(any(r is not None and r['why'] is None for r in mon.evals) and len(mon.dumps) > 0)}
    return {'violations': viol, 'stats': stats}
