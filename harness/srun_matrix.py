"""S-run, part 2: the configuration matrix (pairwise-covering selection, every choice from hlib.rng(tag))."""
import json
import os

from harness import hlib

HERE = os.path.dirname(os.path.abspath(__file__))
WRDOC = json.load(open(os.path.join(os.path.dirname(HERE), 'working_ranges.json')))
WR = WRDOC['optimizers']
OPTIMIZERS = ['ABC', 'AIWPSO', 'BA', 'BHA', 'CS', 'FA', 'FPA', 'GP', 'GSA', 'HC', 'HS', 'IHS', 'PSO', 'RPSO', 'SA', 'SCA', 'WCA']
OBJECTIVES = ['sphere', 'shifted', 'linear', 'constant', 'zero', 'negative', 'signchg', 'plateau', 'tiny_negative', 'tiny_positive']
BOXES = ['unit', 'sym10', 'asym', 'narrow', 'wide', 'degenerate']
SCRIPTS = ['seeded', 'seeded', 'low', 'high', 'alt', 'gauss', 'mixed']
ALL_FUNCS = ['SUM', 'SUB', 'MUL', 'DIV', 'EXP', 'SQRT', 'LOG', 'ABS', 'SIN', 'COS']
FILE2OPT = {'pso.py': ['PSO', 'AIWPSO', 'RPSO'], 'hs.py': ['HS', 'IHS']}


def box(name, nv):
    if name == 'unit':
        return [0.0] * nv, [1.0] * nv
    if name == 'sym10':
        return [-10.0] * nv, [10.0] * nv
    if name == 'asym':
        lb = [-3.0, 0.5, 100.0, -1000.0, 2.0]
        ub = [7.0, 0.75, 101.0, -999.0, 2.5]
        return lb[:nv], ub[:nv]
    if name == 'narrow':
        return [1.0] * nv, [1.0 + 1e-9] * nv
    if name == 'wide':
        return [-5e5] * nv, [5e5] * nv
    if name == 'negfrac':                    # integer lower bounds with negative fractional upper bounds (given as Python ints / floats)
        return [-10.0] * nv, [-0.5, -2.5, -0.25, -7.5, -1.5][:nv]
    if name == 'tiny':                       # squares of the coordinates are of the order of EPSILON = 1e-10
        return [0.0] * nv, [1.2e-5] * nv
    if name == 'mid':                        # thousands wide: far below RPSO's light-speed constant
        return [-2000.0] * nv, [3000.0] * nv
    if name == 'degenerate':
        return [2.0] * nv, [2.0] * nv
    if name == 'huge':                       # width 1.6e308: still a finite float
        return [-8e307] * nv, [8e307] * nv
    if name == 'hugeint':                    # +-2**62 (given as integers: int_bounds): width 2**63 does not fit int64
        return [-float(2 ** 62)] * nv, [float(2 ** 62)] * nv
    raise KeyError(name)


def hyperparams(opt, mode, rnd, n_agents):
    """default | lo | hi | rnd | edge -> explicit dict (all inside the working range except 'edge')."""
    w = WR[opt]
    if mode == 'default' or not w['hyper']:
        hp = {}
    else:
        hp = {}
        for k, d in sorted(w['hyper'].items()):
            if mode == 'lo':
                v = d['lo']
            elif mode == 'hi':
                v = d['hi']
            else:
                v = d['lo'] + (d['hi'] - d['lo']) * rnd.random()
            hp[k] = int(round(v)) if d.get('int') else float(v)
        if mode == 'edge':
            hp.update(w.get('edge', {}))
    if opt == 'WCA':
        hp['nsr'] = max(1, min(int(hp.get('nsr', 2)), n_agents))
    return hp


FACTORS = {
    'objective': OBJECTIVES, 'ret': ['pyfloat', 'npscalar'], 'box': BOXES, 'agents': ['min', 2, 5, 20],
    'n_variables': [1, 2, 5], 'n_dimensions': [1, 2, 4], 'n_iterations': [1, 3, 10], 'draws': SCRIPTS,
    'hp': ['default', 'default', 'lo', 'hi', 'rnd'], 'store_best_only': [False, False, True], 'hook': ['observe', 'observe', 'observe', 'move'],
    'hp_numpy': [False, False, True],
}
TREE_FACTORS = {
    'functions': ['all', 'unary', 'binary', 'arith'], 'depth': [(1, 1), (1, 3), (2, 5)], 'n_terminals': [1, 3],
}


def pick(rnd, covered, cell, factors, tries=10):
    """Greedy pairwise covering: of `tries` random candidates keep the one covering most new value pairs."""
    best, bestn = None, -1
    names = sorted(factors)
    for _ in range(tries):
        c = {k: rnd.choice(factors[k]) for k in names}
        pairs = {(cell, a, repr(c[a]), b, repr(c[b])) for i, a in enumerate(names) for b in names[i + 1:]}
        n = len(pairs - covered)
        if n > bestn:
            best, bestn, bp = c, n, pairs
    covered |= bp
    return best


def funcs(name):
    return {'all': ALL_FUNCS, 'unary': ['EXP', 'SQRT', 'LOG', 'ABS', 'SIN', 'COS'], 'binary': ['SUM', 'SUB', 'MUL', 'DIV'],
            'arith': ['SUM', 'MUL', 'ABS', 'SIN'], 'abs': ['ABS', 'SUB']}[name]


def make(opt, space, c, idx, timeout):
    rnd = hlib.rng('cfg/%s/%s/%d' % (opt, space, idx))
    minimum = WR[opt]['min_agents']
    na = minimum if c['agents'] == 'min' else max(int(c['agents']), minimum)
    nv = c['n_variables']
    lb, ub = box(c['box'], nv)
    hp_mode = c['hp']
    cfg = {'id': '%s-%s-%d' % (opt, space, idx), 'optimizer': opt, 'space': space, 'n_agents': na, 'n_variables': nv,
           'n_dimensions': c['n_dimensions'] if space == 'hyper' else 1, 'n_iterations': c['n_iterations'],
           'lb': lb, 'ub': ub, 'box': c['box'], 'objective': c['objective'], 'ret': c['ret'], 'draws': c['draws'],
           'seed': rnd.randrange(1, 10 ** 6), 'store_best_only': c['store_best_only'], 'hook': c['hook'] if space != 'tree' else 'observe',
           'hp_mode': hp_mode, 'hp_edge': hp_mode == 'edge', 'hyperparams': hyperparams(opt, hp_mode, rnd, na), 'timeout': timeout,
           'repro': c['draws'] == 'seeded', 'hp_numpy': bool(c.get('hp_numpy'))}
    if opt == 'ABC' and cfg['draws'] in ('high', 'alt', 'mixed'):
        # a stream that answers 'just below 1' to every selection draw (all-high; alternating extremes with an even
        # number of draws per pass) never selects an onlooker: outside the fairness hypothesis of C03's termination theorem
        cfg['draws'] = 'low' if idx % 2 else 'gauss'
        cfg['repro'] = False
    if space == 'tree':
        cfg['tree'] = {'functions': funcs(c['functions']), 'min_depth': c['depth'][0], 'max_depth': c['depth'][1], 'n_terminals': c['n_terminals']}
    return cfg


def focus_optimizers(focus):
    """focus: optimizer name | 'file.py:line' | property id | None -> (optimizers, extra weight on some factors)."""
    if not focus:
        return list(OPTIMIZERS), {}
    f = str(focus)
    up = f.upper()
    if up in OPTIMIZERS:
        return [up], {}
    if up == 'C12':
        return ['GP'], {}
    if up == 'C15':
        return [o for o in OPTIMIZERS if WR[o]['adaptive']] + ['PSO', 'HS'], {'hp': ['lo', 'hi', 'rnd', 'edge', 'default']}
    base = os.path.basename(f.split(':')[0])
    if base in FILE2OPT:
        return FILE2OPT[base], {}
    stem = base[:-3].upper() if base.endswith('.py') else ''
    if stem in OPTIMIZERS:
        return [stem], {}
    if base == 'tree.py' or base == 'node.py':
        return ['GP'], {}
    if base == 'agent.py':
        return [o for o in AGENT_MODEL_OPTS if o in OPTIMIZERS], {}
    return list(OPTIMIZERS), {}


def matrix(n_total, focus=None, timeout=5.0):
    opts, weight = focus_optimizers(focus)
    cells = [(o, s) for o in opts for s in WR[o]['spaces']]
    per = max(2, n_total // max(1, len(cells)))
    out = []
    covered = set()
    for (o, s) in cells:
        rnd = hlib.rng('matrix/%s/%s' % (o, s))
        factors = dict(FACTORS)
        factors.update(weight)
        if s != 'hyper':
            factors['n_dimensions'] = [1]
        if s == 'tree':
            factors.update(TREE_FACTORS)
            factors['hook'] = ['observe']
        if o == 'IHS' and 'edge' not in factors['hp']:
            factors['hp'] = factors['hp'] + ['edge']
        for i in range(per * (4 if s == 'tree' else 1)):
            c = pick(rnd, covered, o + s, factors)
            if i == 0:                              # one plain configuration per cell, always
                c.update({'objective': 'sphere', 'box': 'sym10', 'draws': 'seeded', 'hp': 'default', 'hook': 'observe', 'store_best_only': False,
                          'agents': 5, 'n_iterations': 3})
            out.append(make(o, s, c, i, timeout))
    # the FLOAT_MAX corner (finding n): a fixed, small share
    rnd = hlib.rng('matrix/floatmax')
    for i in range(max(1, n_total // 100)):
        o = rnd.choice([x for x in opts if x != 'GP'] or opts)
        s = WR[o]['spaces'][0]
        c = {'objective': 'float_max', 'ret': 'pyfloat', 'box': rnd.choice(['asym', 'sym10']), 'agents': 2, 'n_variables': 2, 'n_dimensions': 1,
             'n_iterations': 3, 'draws': 'seeded', 'hp': 'default', 'store_best_only': False, 'hook': 'observe',
             'functions': 'arith', 'depth': (1, 3), 'n_terminals': 2}
        out.append(make(o, s, c, 9000 + i, timeout))
    # extended-precision objectives (np.longdouble values that no double equals): one per cell, always
    for k, (o, s) in enumerate(cells):
        c = {'objective': ['sphere', 'shifted', 'linear', 'negative'][k % 4], 'ret': 'longdouble', 'box': ['sym10', 'asym'][k % 2], 'agents': [5, 'min', 12][k % 3],
             'n_variables': [2, 1, 3][k % 3], 'n_dimensions': [1, 2][k % 2], 'n_iterations': [5, 2, 12][k % 3], 'draws': 'seeded',
             'hp': 'default', 'store_best_only': bool(k % 5 == 4), 'hook': 'observe', 'functions': ['arith', 'all'][k % 2], 'depth': (1, 3), 'n_terminals': 2}
        cfg = make(o, s, c, 9700 + k, timeout)
        out.append(cfg)
    return out


def size(cfg):
    return (cfg['n_agents'] * cfg['n_iterations'] * cfg['n_variables'] * cfg['n_dimensions'], cfg['n_iterations'], cfg['n_agents'],
            0 if cfg['draws'] == 'seeded' else 1, 0 if cfg['hook'] == 'observe' else 1, cfg['id'])


def shrink_candidates(cfg):
    """Smaller neighbours of a failing configuration (greedy delta-debugging over the explicit fields)."""
    out = []
    minimum = WR[cfg['optimizer']]['min_agents']
    if cfg['optimizer'] == 'WCA':
        minimum = max(minimum, (cfg.get('hyperparams') or {}).get('nsr', 2))

    def alt(**kw):
        c = dict(cfg)
        c.update(kw)
        c['id'] = cfg['id'] + '~'
        if c['n_variables'] != cfg['n_variables']:
            c['lb'], c['ub'] = cfg['lb'][:c['n_variables']], cfg['ub'][:c['n_variables']]
        out.append(c)
    for n in sorted({1, 2, 3, cfg['n_iterations'] // 2}):
        if 1 <= n < cfg['n_iterations']:
            alt(n_iterations=n)
    for n in sorted({minimum, 2, 3, cfg['n_agents'] // 2}):
        if minimum <= n < cfg['n_agents']:
            alt(n_agents=n)
    for n in (1, 2):
        if n < cfg['n_variables']:
            alt(n_variables=n)
    if cfg['n_dimensions'] > 1:
        alt(n_dimensions=1 if cfg['space'] != 'hyper' else 1)
    if cfg['draws'] != 'seeded':
        alt(draws='seeded', repro=False)
    if cfg['hook'] != 'observe':
        alt(hook='observe')
    if cfg.get('store_best_only'):
        alt(store_best_only=False)
    if cfg.get('hyperparams') and not cfg.get('hp_edge') and cfg['optimizer'] != 'WCA':
        alt(hyperparams={}, hp_mode='default')
    if cfg.get('ret') in ('npscalar', 'longdouble'):
        alt(ret='pyfloat')
    if cfg.get('hp_numpy'):
        alt(hp_numpy=False)
    return out


# optimizers that only COMPARE fitnesses (no arithmetic on them): an objective with infinite values cannot produce NaN by itself there.
# Not the swarm family: a value >= FLOAT_MAX never replaces the initial personal best (the sentinel corner, known finding n), nor C02
# (same corner for the best agent): on the unchanged tree this hunt is silent.
AGENT_MODEL_OPTS = ('GP', 'HC', 'SCA', 'HS', 'CS', 'FPA')


def hunts(quick, focus, timeout):
    """Targeted sub-matrices for behaviour that a uniform sample rarely reaches: ABC's onlooker loop on objectives
    that change sign (a few percent of ordinary seeds never terminate with 2-3 food sources), RPSO in boxes wider
    than the light-speed constant."""
    opts, _ = focus_optimizers(focus)
    out = []
    rnd = hlib.rng('hunt')
    if focus and os.path.basename(str(focus).split(':')[0]) == 'agent.py':
        # the data model of Agent (what the setters of fit / position store) is in doubt: objectives with infinite values on half of the
        # box, judged for the record-truthfulness properties only (C03 speaks about finite objectives)
        for o in opts:
            for i in range(6 if quick else 30):
                s_ = WR[o]['spaces'][i % len(WR[o]['spaces'])]
                c = {'objective': 'inf_region', 'ret': ['pyfloat', 'npscalar'][i % 2], 'box': ['sym10', 'asym'][i % 2], 'agents': [5, 'min', 12][i % 3],
                     'n_variables': [2, 1, 3][i % 3], 'n_dimensions': [1, 2][i % 2], 'n_iterations': [5, 2, 12][i % 3], 'draws': 'seeded',
                     'hp': 'default', 'store_best_only': False, 'hook': 'observe', 'functions': ['arith', 'all'][i % 2], 'depth': (1, 3),
                     'n_terminals': 2}
                cfg = make(o, s_, c, 9900 + i, timeout)
                cfg['only_props'] = ['C04', 'C12', 'C20']
                cfg['repro'] = False
                out.append(cfg)
    if 'ABC' in opts:
        for i in range(32 if quick else 240):
            c = {'objective': ['signchg', 'linear'][i % 2], 'ret': ['pyfloat', 'npscalar'][(i // 2) % 2], 'box': 'sym10', 'agents': [2, 3][(i // 4) % 2],
                 'n_variables': [1, 2][(i // 8) % 2], 'n_dimensions': 1, 'n_iterations': [3, 10][(i // 16) % 2], 'draws': 'seeded',
                 'hp': ['default', 'lo'][(i // 16) % 2], 'store_best_only': False, 'hook': 'observe'}
            cfg = make('ABC', 'search', c, 8000 + i, min(timeout, 2.0))
            cfg['repro'] = False
            out.append(cfg)
    if 'ABC' in opts:
        # objectives whose values all lie in [-0.05, 0) or (0, 0.05]: the additive 0.1 of the onlooker probability matters
        n_tiny = (8 if quick else 48) * (4 if focus and len(opts) == 1 else 1)
        for i in range(n_tiny):
            c = {'objective': ['tiny_negative', 'tiny_positive'][i % 2], 'ret': ['pyfloat', 'npscalar'][(i // 2) % 2],
                 'box': ['sym10', 'unit', 'asym', 'wide'][(i // 4) % 4], 'agents': [2, 5, 'min', 20][(i // 2) % 4],
                 'n_variables': [1, 2, 5][i % 3], 'n_dimensions': 1, 'n_iterations': [1, 3][(i // 4) % 2],
                 'draws': ['seeded', 'low', 'seeded', 'gauss'][i % 4], 'hp': ['default', 'lo'][(i // 8) % 2], 'store_best_only': False, 'hook': 'observe'}
            cfg = make('ABC', ['search', 'hyper'][(i // 16) % 2], c, 8200 + i, min(timeout, 2.0))
            cfg['repro'] = False
            out.append(cfg)
    if 'GP' in opts:
        # ABS (in-place candidates) in the function set, boxes with negative values, several trees, several iterations
        n_gp = (160 if len(opts) == 1 else 96) if quick else (600 if len(opts) == 1 else 240)
        for i in range(n_gp):
            c = {'objective': OBJECTIVES[i % len(OBJECTIVES)], 'ret': ['pyfloat', 'npscalar'][i % 2], 'box': ['sym10', 'asym'][i % 2],
                 'agents': [5, 20, 7, 12, 1, 9][(i // 3) % 6], 'n_variables': [1, 2, 5][(i // 2) % 3], 'n_dimensions': 1, 'n_iterations': [3, 10][(i // 3) % 2],
                 'draws': 'seeded', 'hp': ['default', 'hi', 'rnd'][i % 3], 'store_best_only': False, 'hook': 'observe',
                 'functions': ['all', 'arith', 'abs'][i % 3], 'depth': [(1, 3), (2, 5)][(i // 2) % 2], 'n_terminals': [1, 3][(i // 4) % 2]}
            cfg = make('GP', 'tree', c, 8700 + i, timeout)
            cfg['repro'] = i % 4 == 0
            out.append(cfg)
    # histories of tasks: the observed task continues a space that earlier tasks (the same optimizer, PSO, WCA) have optimised;
    # boxes that exclude the origin, objectives with ties
    n_re = (3 if len(opts) > 3 else 12) if quick else (12 if len(opts) > 3 else 60)
    for o in opts:
        for i in range(n_re):
            s = WR[o]['spaces'][i % len(WR[o]['spaces'])]
            c = {'objective': ['sphere', 'plateau', 'negative', 'constant', 'shifted', 'linear'][i % 6], 'ret': ['pyfloat', 'npscalar'][(i // 3) % 2],
                 'box': ['asym', 'narrow', 'asym', 'sym10'][i % 4], 'agents': [5, 'min', 2, 20][(i // 2) % 4], 'n_variables': [2, 1, 5][i % 3],
                 'n_dimensions': [1, 2][i % 2], 'n_iterations': [3, 1, 10][(i // 2) % 3], 'draws': 'seeded', 'hp': ['default', 'rnd'][(i // 6) % 2],
                 'store_best_only': False, 'hook': 'observe', 'functions': 'arith', 'depth': (1, 3), 'n_terminals': 2}
            cfg = make(o, s, c, 8900 + i, timeout)
            if s == 'tree':
                pre = ['GP']
            else:
                pre = [[o], ['WCA'], ['PSO'], [o, o]][i % 4]
            cfg['prelude'] = [{'optimizer': p, 'hyperparams': hyperparams(p, 'default', rnd, cfg['n_agents'])} for p in pre]
            if i % 3 == 2:
                # the earlier tasks optimised ANOTHER objective, with another iteration count (the general histories of Analysis/Tasks.v)
                for k, pr in enumerate(cfg['prelude']):
                    pr['objective'] = [x for x in ('negative', 'shifted', 'sphere', 'linear') if x != c['objective']][(i // 3 + k) % 3]
                    pr['n_iterations'] = [2, 7, 1][(i // 3 + k) % 3]
            if any(p['optimizer'] == 'WCA' for p in cfg['prelude']) and cfg['n_agents'] < 2:
                cfg['n_agents'] = 2
            cfg['n_agents'] = max([cfg['n_agents']] + [WR[p['optimizer']]['min_agents'] for p in cfg['prelude']])
            cfg['repro'] = False
            out.append(cfg)
    # huge (but valid) boxes: only the hill climber, whose update adds small Gaussian noise and cannot overflow by itself -- the initial
    # sampling, the clipping and the first sweep are what is exercised
    if 'HC' in opts:
        for i in range(4 if quick else 16):
            c = {'objective': ['linear', 'constant'][i % 2], 'ret': 'pyfloat', 'box': ['huge', 'hugeint'][i % 2], 'agents': [4, 2][(i // 2) % 2],
                 'n_variables': [2, 1][(i // 2) % 2], 'n_dimensions': 1, 'n_iterations': 1, 'draws': 'seeded', 'hp': 'default',
                 'store_best_only': False, 'hook': 'observe'}
            cfg = make('HC', 'search', c, 9800 + i, timeout)
            cfg['int_bounds'] = c['box'] == 'hugeint'
            cfg['repro'] = False
            out.append(cfg)
    # focused on few optimizers: they are also the EARLIER task of histories observed through other optimizers (those that clip
    # trial agents individually see the bounds the earlier task left on the agents; PSO sees inherited fitnesses)
    if len(opts) <= 3:
        for o in opts:
            for j, obs in enumerate([x for x in ('SA', 'ABC', 'HS', 'BA', 'PSO', 'FPA') if x != o]):
                if 'search' not in WR[o]['spaces']:
                    continue
                for i in range(3 if quick else 10):
                    c = {'objective': ['sphere', 'shifted', 'negative'][i % 3], 'ret': 'pyfloat', 'box': ['asym', 'narrow', 'asym'][i % 3],
                         'agents': [12, 5, 20][i % 3], 'n_variables': [2, 5, 1][i % 3], 'n_dimensions': 1, 'n_iterations': [10, 3, 5][i % 3],
                         'draws': 'seeded', 'hp': 'default', 'store_best_only': False, 'hook': 'observe'}
                    cfg = make(obs, 'search', c, 9700 + 10 * j + i, timeout)
                    cfg['prelude'] = [{'optimizer': o, 'hyperparams': hyperparams(o, 'default', rnd, cfg['n_agents'])}]
                    cfg['n_agents'] = max(cfg['n_agents'], WR[o]['min_agents'], 2 if o == 'WCA' else 1)
                    cfg['repro'] = False
                    out.append(cfg)
    # a history on the optimizer object: the same object has already run a task on another space with fewer / more agents
    for o in opts:
        for i in range((2 if len(opts) > 3 else 8) if quick else (6 if len(opts) > 3 else 24)):
            s = WR[o]['spaces'][i % len(WR[o]['spaces'])]
            c = {'objective': ['sphere', 'shifted', 'negative', 'linear'][i % 4], 'ret': ['pyfloat', 'npscalar'][i % 2], 'box': ['sym10', 'asym'][i % 2],
                 'agents': [7, 5, 20, 4][i % 4], 'n_variables': [2, 1][i % 2], 'n_dimensions': [1, 2][i % 2], 'n_iterations': [3, 2, 5][i % 3],
                 'draws': 'seeded', 'hp': ['default', 'rnd'][(i // 2) % 2], 'store_best_only': False, 'hook': 'observe',
                 'functions': 'arith', 'depth': (1, 3), 'n_terminals': 2}
            cfg = make(o, s, c, 9600 + i, timeout)
            other = [max(WR[o]['min_agents'], 4 if o != 'WCA' else 4), 12][i % 2]
            if other == cfg['n_agents']:
                other += 1
            cfg['reuse_optimizer'] = {'n_agents': other}
            if i % 3 == 2 and s != 'tree':
                # the earlier task had the SAME number of agents but two more variables: an array the optimizer kept from it broadcasts
                # silently against the smaller positions of the observed task
                cfg['reuse_optimizer'] = {'n_variables': cfg['n_variables'] + 2, 'lb': list(cfg['lb']) + [cfg['lb'][-1]] * 2,
                                          'ub': list(cfg['ub']) + [cfg['ub'][-1]] * 2}
            cfg['repro'] = False
            out.append(cfg)
    # self-adapting hyperparameters over many iteration counts: a schedule that leaves its setter's guard by one rounding
    # error raises in the middle of run() (C03) for particular (setting, n_iterations) pairs only.  Grid: one hyperparameter
    # away from its default (decimal grid points of its working range) x n_iterations 1..64; sampled unless focused.
    for o in opts:
        if not WR[o]['adaptive']:
            continue
        grid = [({}, n) for n in range(1, 65)]
        for k in sorted(WR[o]['hyper']):
            d = WR[o]['hyper'][k]
            if d.get('int'):
                vals = sorted({int(d['lo']), int(d['hi'])})
            else:
                vals = sorted({round(x / 10.0, 1) for x in range(0, 11) if d['lo'] <= x / 10.0 <= d['hi']} | {d['lo'], d['hi']})[:8]
            for v in vals:
                if v == d.get('default'):
                    continue
                for n in range(1, 65):
                    grid.append(({k: v}, n))
        # degenerate declared ranges (x_min == x_max == x): valid settings; more agents, so that every success count occurs
        degen = []
        for k in sorted(WR[o]['hyper']):
            if k.endswith('_min') and k[:-4] + '_max' in WR[o]['hyper']:
                base, kmax = k[:-4], k[:-4] + '_max'
                lo = min(WR[o]['hyper'][k]['lo'], WR[o]['hyper'][kmax]['lo'])
                hi = max(WR[o]['hyper'][k]['hi'], WR[o]['hyper'][kmax]['hi'])
                for v in [x / 10.0 for x in range(0, 11)] + [0.729, 0.25, 0.333]:
                    if lo <= v <= hi:
                        dd = {k: v, kmax: v}
                        if base in WR[o]['hyper']:
                            dd[base] = v
                        for n in (1, 2, 5, 11, 30):
                            degen.append((dd, n))
        n_ad = len(grid) if len(opts) <= 3 else (24 if quick else 400)
        if n_ad < len(grid):
            grid = rnd.sample(grid, n_ad)
        n_dg = len(degen) if len(opts) <= 3 else (12 if quick else 120)
        if n_dg < len(degen):
            degen = rnd.sample(degen, n_dg)
        n_plain = len(grid)
        grid = grid + degen
        for i, (delta, n) in enumerate(grid):
            c = {'objective': ['sphere', 'shifted', 'negative'][i % 3], 'ret': 'pyfloat', 'box': ['sym10', 'unit'][i % 2], 'agents': 2 if i < n_plain else 10,
                 'n_variables': 1, 'n_dimensions': 1, 'n_iterations': n, 'draws': 'seeded', 'hp': 'default',
                 'store_best_only': True, 'hook': 'observe'}
            cfg = make(o, 'search', c, 9200 + i, min(timeout, 3.0))
            hp = dict(cfg['hyperparams'])
            hp.update(delta)
            if o == 'WCA':
                hp['nsr'] = max(1, min(int(hp.get('nsr', 2)), cfg['n_agents']))
            cfg['hyperparams'] = hp
            cfg['hp_mode'] = 'sweep'
            cfg['repro'] = False
            out.append(cfg)
    # hooks that leave the population OUTSIDE the box, or as integer-dtype arrays snapped to the lattice (only for the optimizers whose own
    # in-place float updates accept integer arrays on the unchanged tree): the sweep evaluates exactly what the hook left
    INT_OK = ('AIWPSO', 'BA', 'FA', 'FPA', 'GSA', 'PSO', 'RPSO', 'SCA')    # no in-place update of a position anywhere in their code
    for o in opts:
        if o == 'GP' or 'search' not in WR[o]['spaces']:
            continue
        modes = ['move_out'] + (['move_int'] if o in INT_OK else [])
        for i in range(len(modes) * (1 if quick else 4)):
            c = {'objective': ['sphere', 'shifted', 'linear'][i % 3], 'ret': 'pyfloat', 'box': ['sym10', 'asym'][(i // 2) % 2], 'agents': [5, 'min', 12][i % 3],
                 'n_variables': [2, 3, 1][i % 3], 'n_dimensions': 1, 'n_iterations': [5, 8, 2][i % 3], 'draws': 'seeded', 'hp': 'default',
                 'store_best_only': False, 'hook': modes[i % len(modes)]}
            cfg = make(o, 'search', c, 9970 + i, timeout)
            cfg['repro'] = False
            out.append(cfg)
    # the observed space is not the only live one: a second space of the same kind and shape, with another box, is built after it (state
    # shared between spaces -- cached default bounds, prototypes -- is rewritten by the later one); also at scale
    for o in opts:
        for i in range(2 if quick else 6):
            s_ = WR[o]['spaces'][i % len(WR[o]['spaces'])]
            big = i % 2 == 1
            c = {'objective': ['sphere', 'shifted'][i % 2], 'ret': 'pyfloat', 'box': ['unit', 'sym10'][i % 2], 'agents': 130 if big else [5, 'min'][(i // 2) % 2],
                 'n_variables': [2, 3][i % 2], 'n_dimensions': [1, 2][i % 2], 'n_iterations': 3 if big else [5, 8][i % 2], 'draws': 'seeded', 'hp': 'default',
                 'store_best_only': False, 'hook': 'observe', 'functions': 'arith', 'depth': (1, 3), 'n_terminals': 2}
            cfg = make(o, s_, c, 9980 + i, max(timeout, 30.0) if big else timeout)
            cfg['other_space'] = True
            cfg['repro'] = False
            out.append(cfg)
    # GP on an objective that never beats the FLOAT_MAX sentinel: the placeholder best tree of the fresh space stays the best tree for the
    # whole task while mutation and crossover go on -- its records must stay what they were (judged for the record properties only; the
    # sentinel corner itself is recorded finding n)
    if 'GP' in opts:
        for i in range(2 if quick else 8):
            c = {'objective': 'float_max', 'ret': 'pyfloat', 'box': ['sym10', 'asym'][i % 2], 'agents': [12, 20][i % 2], 'n_variables': [2, 1][i % 2],
                 'n_dimensions': 1, 'n_iterations': [6, 10][i % 2], 'draws': 'seeded', 'hp': 'hi', 'store_best_only': False, 'hook': 'observe',
                 'functions': ['arith', 'all'][i % 2], 'depth': (1, 3), 'n_terminals': 2}
            cfg = make('GP', 'tree', c, 9930 + i, timeout)
            cfg['only_props'] = ['C04', 'C12', 'C07', 'C08']
            cfg['repro'] = False
            out.append(cfg)
    # bound lists of mixed Python types (integer lower bounds, fractional upper bounds): the declared box is the one given
    for o in opts:
        if o == 'GP' or 'search' not in WR[o]['spaces']:
            continue
        for i in range(1 if quick else 3):
            c = {'objective': ['sphere', 'linear', 'shifted'][i % 3], 'ret': 'pyfloat', 'box': 'negfrac', 'agents': [5, 'min', 12][i % 3],
                 'n_variables': [2, 3, 1][i % 3], 'n_dimensions': 1, 'n_iterations': [5, 3, 8][i % 3], 'draws': 'seeded', 'hp': 'default',
                 'store_best_only': False, 'hook': 'observe'}
            cfg = make(o, 'search', c, 9960 + i, timeout)
            cfg['int_lb'] = True
            cfg['repro'] = False
            out.append(cfg)
    # Levy flights with a Gaussian draw that is exactly zero (scripted): the step is infinite -- shapes, sizes and records must survive it
    for o in [x for x in ('FPA', 'CS') if x in opts]:
        for i in range(2 if quick else 6):
            c = {'objective': ['sphere', 'linear'][i % 2], 'ret': 'pyfloat', 'box': ['sym10', 'asym'][i % 2], 'agents': [5, 3][i % 2], 'n_variables': [2, 3][i % 2],
                 'n_dimensions': 1, 'n_iterations': [6, 12][i % 2], 'draws': ['gauss', 'mixed'][i % 2], 'hp': 'default', 'store_best_only': False, 'hook': 'observe'}
            cfg = make(o, 'search', c, 9940 + i, timeout)
            cfg['only_props'] = ['C07']          # the NaN the scripted zero itself produces is recorded finding (CS/FPA) of C01
            cfg['repro'] = False
            out.append(cfg)
    # SCALE: long runs, large populations, many variables -- something that accumulates, a counter or index type that overflows, a
    # threshold that switches to another code path only shows beyond the small sizes of the sampled matrix
    for o in opts:
        if quick:
            shapes = [(4, 2, 300), (130, 2, 3)] if o != 'GP' else [(10, 2, 70), (3, 2, 1100)]
            if o in ('HC', 'PSO'):
                shapes.append((3, 1, 1100))          # more than 1000 / 1024 records in one history
        else:
            shapes = [(4, 2, 1100), (300, 3, 4), (12, 40, 30), (40, 9, 260), (70, 2, 70)] if o != 'GP' else [(10, 2, 300), (130, 3, 5), (12, 12, 40), (3, 2, 1100), (2, 1, 2100)]
        for i, (na, nv, ni) in enumerate(shapes):
            s_ = WR[o]['spaces'][i % len(WR[o]['spaces'])]
            c = {'objective': ['sphere', 'shifted', 'linear'][i % 3], 'ret': ['pyfloat', 'npscalar'][i % 2], 'box': ['sym10', 'asym'][i % 2] if nv <= 5 else 'sym10',
                 'agents': max(na, WR[o]['min_agents']), 'n_variables': nv, 'n_dimensions': [1, 2][i % 2], 'n_iterations': ni, 'draws': 'seeded',
                 'hp': 'default', 'store_best_only': False, 'hook': 'observe', 'functions': 'arith', 'depth': (1, 3), 'n_terminals': 2}
            cfg = make(o, s_, c, 9990 + i, max(timeout, 60.0))
            cfg['timeout'] = max(float(timeout), 60.0)
            cfg['repro'] = False
            out.append(cfg)
    # objectives whose values lie on the grid of multiples of EPSILON (1e-10) in a box so small that neighbouring fitnesses differ by
    # exactly one EPSILON: denominators of the form `a - b + EPSILON` / `total + EPSILON` are probed where they can vanish
    for o in opts:
        if o == 'GP' or 'search' not in WR[o]['spaces']:
            continue
        for i in range((2 if len(opts) > 3 else 8) if quick else (6 if len(opts) > 3 else 24)):
            c = {'objective': 'eps_steps', 'ret': ['npscalar', 'pyfloat'][i % 2], 'box': 'tiny', 'agents': [5, 'min', 12, 3][i % 4],
                 'n_variables': [1, 2, 1, 3][i % 4], 'n_dimensions': 1, 'n_iterations': [5, 10, 3, 8][i % 4], 'draws': 'seeded',
                 'hp': 'default', 'store_best_only': False, 'hook': 'observe'}
            cfg = make(o, 'search', c, 9950 + i, timeout)
            cfg['repro'] = False
            out.append(cfg)
    # a clock that does not advance during the task: the history still gets its one `time` entry (0.0)
    for i, o in enumerate(opts):
        if i % 4 and len(opts) > 3:
            continue
        c = {'objective': 'sphere', 'ret': 'pyfloat', 'box': 'sym10', 'agents': 'min', 'n_variables': 1, 'n_dimensions': 1, 'n_iterations': [1, 2][i % 2],
             'draws': 'seeded', 'hp': 'default', 'store_best_only': bool(i % 2), 'hook': 'observe', 'functions': 'arith', 'depth': (1, 2), 'n_terminals': 2}
        cfg = make(o, WR[o]['spaces'][0], c, 9915, timeout)
        cfg['clock'] = 'frozen'
        cfg['only_props'] = ['C04']
        cfg['repro'] = False
        out.append(cfg)
    # degenerate fitness sums (all-zero, constant, plateau objectives) for the optimizers that normalise by them, with Python-float AND
    # NumPy-scalar fitnesses: the recorded 0/0 findings raise only for Python floats, NumPy scalars divide to NaN / inf and go on
    for o in opts:
        if o not in ('BHA', 'GSA', 'WCA'):
            continue
        for i, obj in enumerate(['zero', 'constant', 'plateau']):
            for j, ret in enumerate(['npscalar', 'pyfloat']):
                c = {'objective': obj, 'ret': ret, 'box': ['sym10', 'asym', 'unit'][i], 'agents': [4, 'min', 6][i], 'n_variables': [2, 1, 3][i],
                     'n_dimensions': 1, 'n_iterations': [3, 1, 5][i], 'draws': 'seeded', 'hp': 'default', 'store_best_only': False, 'hook': 'observe'}
                cfg = make(o, WR[o]['spaces'][(i + j) % len(WR[o]['spaces'])], c, 9920 + 2 * i + j, timeout)
                cfg['repro'] = False
                out.append(cfg)
    # build / re-assign / run: hyperparameters re-assigned through their public setters after construction -- to other values of the
    # working range, and (SCA, BA: no adaptive hyperparameter reads them) a lower end re-assigned above the upper end, which the
    # setters accept and the update samples from as it stands.  Judged for C15: the task leaves every one of them alone
    POST = {'SCA': [[['r_min', 2.5]], [['a', 1.0], ['r_max', 2.5], ['r_min', 0.5]], [['r_min', 7]]],
            'BA': [[['f_min', 3.0]], [['A', 0.9], ['r', 0.1]], [['f_min', 5]]],
            'PSO': [[['w', 0.4], ['c1', 2.0]]], 'HS': [[['HMCR', 0.9], ['bw', 2.0]]], 'GSA': [[['G', 1.5]]], 'CS': [[['p', 0.5]]],
            'IHS': [[['PAR_min', 0.8], ['PAR_max', 0.95], ['bw_min', 2.0], ['bw_max', 5.0]], [['PAR_min', 0.2], ['PAR_max', 0.3]]],
            'AIWPSO': [[['w_min', 0.8], ['w_max', 0.95]], [['w_max', 0.5], ['w_min', 0.2]]],
            'FPA': [[['p', 0.5], ['eta', 0.7]]], 'HC': [[['r_var', 0.3]]], 'FA': [[['gamma', 0.7]]], 'ABC': [[['n_trials', 3]]]}
    for o in opts:
        for i, post in enumerate(POST.get(o, [])):
            for sp_ in WR[o]['spaces'][:1 if quick else 2]:
                c = {'objective': ['sphere', 'shifted', 'linear'][i % 3], 'ret': 'pyfloat', 'box': ['sym10', 'asym'][i % 2], 'agents': [5, 8, 3][i % 3],
                     'n_variables': [2, 1, 3][i % 3], 'n_dimensions': [1, 2][i % 2], 'n_iterations': [4, 1, 9][i % 3], 'draws': 'seeded',
                     'hp': 'default', 'store_best_only': False, 'hook': 'observe'}
                cfg = make(o, sp_, c, 9960 + i, timeout)
                cfg['hp_post'] = post
                cfg['only_props'] = ['C15']
                cfg['repro'] = False
                out.append(cfg)
    if 'RPSO' in opts:
        for i in range(6 if quick else 40):
            c = {'objective': rnd.choice(OBJECTIVES), 'ret': ['pyfloat', 'npscalar'][i % 2], 'box': 'wide', 'agents': [2, 5][i % 2],
                 'n_variables': [1, 2][(i // 2) % 2], 'n_dimensions': 1, 'n_iterations': [3, 10][(i // 2) % 2], 'draws': ['seeded', 'alt', 'high'][i % 3],
                 'hp': 'default', 'store_best_only': False, 'hook': 'observe'}
            cfg = make('RPSO', 'search', c, 8500 + i, timeout)
            cfg['repro'] = False
            out.append(cfg)
        # boxes thousands wide -- far below the light-speed constant, so the relativistic factor must stay finite
        for i in range(3 if quick else 12):
            c = {'objective': ['sphere', 'shifted', 'linear'][i % 3], 'ret': 'pyfloat', 'box': 'mid', 'agents': [5, 8, 3][i % 3],
                 'n_variables': [2, 1, 3][i % 3], 'n_dimensions': 1, 'n_iterations': [10, 6, 12][i % 3], 'draws': 'seeded',
                 'hp': 'default', 'store_best_only': False, 'hook': 'observe'}
            cfg = make('RPSO', 'search', c, 8560 + i, timeout)
            cfg['repro'] = False
            out.append(cfg)
    return out
