"""C15 (range part): DIRECT float sweep of the adaptive writes on the real code (complements c15_sched.py).

stdin: {"items": [...], "mode": "run" | "replay", "case": {...}, "key": ...}

AIWPSO.w -- for (w_min, w_max) over a decimal grid (one to three decimals, w_min == w_max included, a few seeded
  random pairs), n_agents in 1..12 and EVERY p in 0..n: a real AIWPSO(hyperparams=...), real Agents whose .fit
  and a `fitness` array are arranged so that exactly p agents improve, the real method that holds the write
  (item['method'], today `_compute_success(agents, fitness)`) is called and opt.w is read.
  Oracle (the property text): w_min <= w <= w_max.  Correspondence: w = float evaluation of the regenerated term at
  that p (rel. 1e-12).  If the write no longer lives in a (agents, fitness) helper the same triples are produced
  by short real runs whose hook makes exactly p_j agents improve (mode 'count' of c15_sched.run_case).
IHS.PAR / IHS.bw -- the writes are inline in run(): the regenerated terms (validated against the implementation by
  c15_sched.py and here) are swept in floats over a decimal grid x n_iterations 1..64 x every t; every predicted
  excursion class, plus a fixed sample of the grid, is run on the real IHS (short runs, read at every hook) through
  c15_sched.check_case (correspondence + declared-range oracle).

Ulp-level excursions are keyed by circumstance (`…:rounding-outside-range:p=n | degenerate-range | interior | p=0 |
first-iteration | last-iteration`), so that a recorded finding covers only its own circumstance.
"""
import numpy as np
from harness import hlib
from harness import c15_sched as S

from opytimizer.core.agent import Agent

NMAX = 12
DEC1 = [0.0, 0.1, 0.2, 0.3, 0.4, 0.5, 0.6, 0.7, 0.8, 0.9, 1.0]
WVALS = DEC1 + [0.05, 0.25, 0.55, 0.75, 0.95, 0.125, 0.333, 0.667, 0.729, 0.999, 1.2, 1.5, 2.0]


def find(items, opt, hp):
    for it in items:
        if it['opt'] == opt and it['hp'] == hp:
            return it
    return None


# ---------------------------------------------------------------- AIWPSO.w

def aiw_pairs(quick, rnd):
    vals = sorted(set(WVALS))
    pairs = [(a, b) for a in vals for b in vals if a <= b]
    for i in range(20 if quick else 3000):
        d = rnd.choice([1, 2, 3])
        a = round(rnd.uniform(0, 1.5), d)
        b = a if rnd.random() < 0.3 else round(a + rnd.uniform(0, 1.5), rnd.choice([1, 2, 3]))
        if (a, b) not in pairs:
            pairs.append((a, b))
    return pairs


class AiwDirect:
    """Calls the real helper that holds the write with exactly p improving agents out of n."""

    def __init__(self, item):
        self.item = item
        self.cls = S.opt_class(item)
        self.mname = (item.get('method') or '').split('.')[-1]
        self.agents = [Agent(n_variables=1, n_dimensions=1) for _ in range(NMAX + 4)]
        self.ok = self.mname not in ('', 'run') and callable(getattr(self.cls, self.mname, None))

    def make(self, a, b):
        return self.cls(hyperparams={'w_min': a, 'w_max': b, 'w': a})

    def call(self, opt, n, p):
        ags = self.agents[:n]
        for i, ag in enumerate(ags):
            ag.fit = 0.0 if i < p else 2.0          # improves iff fit < fitness[i] (also under <=)
        getattr(opt, self.mname)(ags, np.ones(n))
        return opt.w


def aiw_forced_run(item, items, a, b, n):
    """Fallback: a real run of n + 1 iterations whose hook makes p_j = j - 1 agents improve; -> {p: w}"""
    case = {'opt': 'AIWPSO', 'hyperparams': {'w_min': a, 'w_max': b, 'w': a}, 'post_set': [], 'tag': 'count', 'n_it': n + 1,
            'n_agents': n, 'mode': 'count', 'seed': 7}
    r = S.run_case(case, items)
    if r['exc'] is not None or r['ctor_exc'] is not None or len(r['obs']) != n + 3:
        return None
    seq = [o['w'] for o in r['obs']]
    # write k (0-based) happens after hook k + 1 with p = k mod (n + 1); it is visible at observation k + 2
    return {k % (n + 1): seq[k + 2] for k in range(n + 1)}


def aiw_key(a, b, n, p, w):
    fw = float(w)
    if fw == fw and (S.close(fw, a) or S.close(fw, b)):
        c = 'degenerate-range' if a == b else ('p=n' if p == n else ('p=0' if p == 0 else 'interior'))
        return 'AIWPSO:w:rounding-outside-range:' + c
    return 'AIWPSO:w:out-of-range'


def aiw_check(item, items, direct, a, b, n, ps, stats, emit):
    """One (w_min, w_max, n): every p in ps.  emit(key, what, found_input, case)"""
    vals = {}
    if direct.ok:
        try:
            opt = direct.make(a, b)
        except Exception:  # noqa: BLE001   rejected by the guards: not a valid setting
            stats['rejected'] += 1
            return
        for p in ps:
            try:
                vals[p] = direct.call(opt, n, p)
            except Exception as ex:  # noqa: BLE001
                emit('AIWPSO:w:write-raises', 'AIWPSO.%s raised %s: %s for w_min=%r, w_max=%r, n_agents=%d, p=%d'
                     % (direct.mname, type(ex).__name__, ex, a, b, n, p), True, {'sub': 'aiw', 'w_min': a, 'w_max': b, 'n': n, 'p': p})
                return
    else:
        got = aiw_forced_run(item, items, a, b, n)
        if got is None:
            stats['fallback_failed'] += 1
            return
        vals = {p: got[p] for p in ps if p in got}
    for p, w in vals.items():
        stats['aiw_calls'] += 1
        case = {'sub': 'aiw', 'w_min': a, 'w_max': b, 'n': n, 'p': p}
        if item.get('tree') is not None and direct.ok:
            env = {'w_min': a, 'w_max': b, 'w': a, 'p': p, 'n_agents': n, 'n_it': n + 1, 't': 0}
            try:
                e = S.ev(item['tree'], env) if S.defined(item['conds'], env) else None
            except (ZeroDivisionError, OverflowError, ValueError, KeyError):
                e = None
            if e is not None:
                stats['aiw_corr'] += 1
                if not S.close(e, w):
                    emit('corr:AIWPSO.w', 'direct call: AIWPSO.w = %r for w_min=%r, w_max=%r, p=%d of %d agents; regenerated term gives %r'
                         % (w, a, b, p, n, float(e)), False, case)
        if not a <= float(w) <= b:
            key = aiw_key(a, b, n, p, w)
            stats['classes'][key] = stats['classes'].get(key, 0) + 1
            emit(key, 'AIWPSO.w = %r is outside [w_min, w_max] = [%r, %r] after the real %s with %d of %d agents improving '
                 '(AIWPSO(hyperparams={"w_min": %r, "w_max": %r, "w": %r}); direct call)' % (w, a, b, direct.mname or 'run', p, n, a, b, a),
                 True, case)


def sweep_aiw(items, quick, stats, emit):
    item = find(items, 'AIWPSO', 'w')
    if item is None:
        return
    direct = AiwDirect(item)
    stats['aiw_direct'] = direct.ok
    rnd = hlib.rng('c15_sweep_aiw')
    pairs = aiw_pairs(quick, rnd)
    if not direct.ok:           # real runs are ~100x dearer: degenerate ranges and a sample only
        pairs = [pr for pr in pairs if pr[0] == pr[1]][:12] + pairs[::41]
    for a, b in pairs:
        for n in range(1, NMAX + 1):
            aiw_check(item, items, direct, a, b, n, range(n + 1), stats, emit)


# ---------------------------------------------------------------- IHS.PAR / IHS.bw

PARV = [0.0, 0.1, 0.2, 0.3, 0.5, 0.7, 0.9, 1.0, 0.25, 0.333, 0.45, 0.729, 0.999]
BWV = [0.001, 0.01, 0.1, 0.3, 0.5, 0.7, 1.0, 2.0, 5.0, 10.0, 0.25, 1.5, 0.729, 100.0]


def ihs_case(pa, pb, ba, bb, n_it):
    return {'opt': 'IHS', 'hyperparams': {'PAR_min': pa, 'PAR_max': pb, 'PAR': pa, 'bw_min': ba, 'bw_max': bb, 'bw': ba},
            'post_set': [], 'tag': 'sweep', 'n_it': n_it, 'n_agents': 2, 'mode': 'natural', 'seed': 11}


def sweep_ihs(items, quick, stats, emit):
    ipar, ibw = find(items, 'IHS', 'PAR'), find(items, 'IHS', 'bw')
    if ipar is None and ibw is None:
        return
    nits = list(range(1, 65))
    pv = PARV[:9] if quick else PARV
    bv = BWV[:10] if quick else BWV
    predicted = {}          # class -> [case]
    for it, vals, lo_n, hi_n in ((ipar, pv, 'PAR_min', 'PAR_max'), (ibw, bv, 'bw_min', 'bw_max')):
        if it is None or it.get('tree') is None:
            continue
        for a in vals:
            for b in vals:
                if a > b:
                    continue
                for n in nits:
                    for t in range(n):
                        env = {lo_n: a, hi_n: b, it['hp']: a, 'n_it': n, 't': t, 'n_agents': 2}
                        stats['ihs_term_evals'] += 1
                        try:
                            if not S.defined(it['conds'], env):
                                continue
                            v = float(S.ev(it['tree'], env))
                        except (ZeroDivisionError, OverflowError, ValueError, KeyError):
                            continue
                        if a <= v <= b:
                            continue
                        c = '%s:%s' % (it['hp'], S.circumstance(it, env, a, b, v, t, n, 2) if (S.close(v, a) or S.close(v, b)) else 'far')
                        lst = predicted.setdefault(c, [])
                        if len(lst) < 3:
                            lst.append(ihs_case(a, b, 1.0, 10.0, n) if it is ipar else ihs_case(0.0, 1.0, a, b, n))
    stats['ihs_predicted'] = {k: len(v) for k, v in predicted.items()}
    cases = [c for lst in predicted.values() for c in lst]
    rnd = hlib.rng('c15_sweep_ihs')
    for i in range(12 if quick else 60):       # fixed sample of the grid on the real code
        pa, pb = sorted([rnd.choice(pv), rnd.choice(pv)])
        ba, bb = sorted([rnd.choice(bv), rnd.choice(bv)])
        cases.append(ihs_case(pa, pb, ba, bb, rnd.choice([1, 2, 3, 5, 8, 13, 21, 34, 64])))
    st = {'rejected': 0, 'crashes': [], 'observations': 0, 'comparisons': 0, 'agree': 0, 'undefined': 0, 'oracle_checks': 0,
          'premise_false': 0, 'p_seen': set()}
    for case in cases:
        recs, r = S.check_case(case, items, st)
        stats['ihs_runs'] += 1
        for x in recs:
            x['replay']['sub'] = 'ihs'
            stats['classes'][x['key']] = stats['classes'].get(x['key'], 0) + 1
            emit(x['key'], x['what'], x['found_input'], None, x['replay'])
    stats['ihs_observations'] = st['observations']
    stats['ihs_agree'] = st['agree']
    stats['ihs_oracle_checks'] = st['oracle_checks']


# ---------------------------------------------------------------- driver

def new_stats():
    return {'aiw_calls': 0, 'aiw_corr': 0, 'rejected': 0, 'fallback_failed': 0, 'classes': {}, 'aiw_direct': None,
            'ihs_term_evals': 0, 'ihs_runs': 0, 'ihs_predicted': {}, 'ihs_observations': 0, 'ihs_agree': 0, 'ihs_oracle_checks': 0}


def main():
    pl = hlib.payload() or {}
    items = pl.get('items', [])
    stats = new_stats()
    records, per_key = [], {}

    def emit(key, what, found_input, case, replay=None):
        per_key[key] = per_key.get(key, 0) + 1
        if per_key[key] <= 2:
            rp = replay if replay is not None else {'kind': 'c15_sched', 'sub': case['sub'], 'case': case, 'key': key}
            records.append({'key': key, 'what': what, 'found_input': found_input, 'replay': rp})

    if pl.get('mode') == 'replay':
        case = pl['case']
        if case.get('sub') == 'aiw':
            item = find(items, 'AIWPSO', 'w')
            if item is not None:
                aiw_check(item, items, AiwDirect(item), case['w_min'], case['w_max'], case['n'], [case['p']], stats, emit)
        want = pl.get('key')
        same = [x for x in records if x['key'] == want] if want else records
        hlib.emit({'fails': bool(same), 'records': records[:5], 'stats': {k: v for k, v in stats.items() if k != 'classes'}})
        return
    sweep_aiw(items, hlib.QUICK, stats, emit)
    sweep_ihs(items, hlib.QUICK, stats, emit)
    hlib.emit({'records': records, 'per_key': per_key, 'stats': stats})


if __name__ == '__main__':
    main()
