"""C11 harness: real Node graphs -> measurements, traversals, find_node; independent recursive oracle.

Run mode (no payload): enumerates all shapes over {leaf, left-only, right-only, binary} up to depth 3
(two labellings each), sampled depth-4 shapes and GROW-generated trees; calls the real
n_nodes / n_leaves / min_depth / max_depth / pre_order / post_order / find_node(p), p in [0, size+1];
serialises with pre-order indices; evaluates the property oracle (recursive reference written here,
which never reads .parent/.flag and never calls the methods under test).
Replay mode (payload = replay document): rebuilds the recorded tree and re-evaluates the oracle.

Shape JSON: [is_terminal, left|None, right|None]."""
import copy

import numpy as np
from harness import hlib

from opytimizer.core.node import Node
from opytimizer.spaces.tree import TreeSpace
import opytimizer.utils.constants as c

FOREIGN = 999999


# ---------------------------------------------------------------- shapes
def shapes_upto(d):
    """All shapes of depth <= d (kind only, no labels) as nested tuples (l, r)."""
    if d == 0:
        return [(None, None)]
    sub = shapes_upto(d - 1)
    out = [(None, None)]
    out += [(a, None) for a in sub]
    out += [(None, b) for b in sub]
    out += [(a, b) for a in sub for b in sub]
    return out


def label_natural(sh):
    l, r = sh
    return [l is None and r is None, label_natural(l) if l else None, label_natural(r) if r else None]


def label_random(sh, rnd):
    l, r = sh
    return [rnd.random() < 0.5, label_random(l, rnd) if l else None, label_random(r, rnd) if r else None]


def random_shape(rnd, depth, p_leaf, p_un):
    """Random kind per node down to `depth`."""
    if depth == 0 or rnd.random() < p_leaf:
        return (None, None)
    u = rnd.random()
    if u < p_un / 2:
        return (random_shape(rnd, depth - 1, p_leaf, p_un), None)
    if u < p_un:
        return (None, random_shape(rnd, depth - 1, p_leaf, p_un))
    return (random_shape(rnd, depth - 1, p_leaf, p_un), random_shape(rnd, depth - 1, p_leaf, p_un))


def deep_shapes():
    """Deterministic deep trees (depth 5..9): left chains, right chains, zigzags, combs, and the full tree of depth 5."""
    out = []
    for d in range(5, 10):
        lc = rc = zz = cl = cr = (None, None)
        for k in range(d):
            lc = (lc, None)
            rc = (None, rc)
            zz = (zz, None) if k % 2 == 0 else (None, zz)
            cl = (cl, (None, None))             # left comb: every right child is a leaf
            cr = ((None, None), cr)
        out += [lc, rc, zz, cl, cr]
    full = (None, None)
    for k in range(5):
        full = (full, full)
    out.append(full)
    # SCALE: much deeper chains and zigzags (hundreds of nodes) and the full tree of depth 8 (511 nodes)
    for d in (40, 120):
        lc = rc = zz = (None, None)
        for k in range(d):
            lc = (lc, None)
            rc = (None, rc)
            zz = (zz, (None, None)) if k % 2 == 0 else ((None, None), zz)
        out += [lc, rc, zz]
    full = (None, None)
    for k in range(8):
        full = (full, full)
    out.append(full)
    return out


def depth_of(sh):
    l, r = sh[-2], sh[-1]
    return 0 if (l is None and r is None) else 1 + max(depth_of(x) for x in (l, r) if x is not None)


# ---------------------------------------------------------------- building real graphs
def build(lsh, nodes):
    """Real Node graph from a labelled shape, linked the way TreeSpace.grow links (child.parent = node,
    right child's flag = False).  `nodes` collects the Node objects in the builder's own root-left-right order."""
    tm, l, r = lsh
    n = Node(0 if tm else 'SUM', 'TERMINAL' if tm else 'FUNCTION',
             value=np.zeros((1, 1)) if tm else None)
    nodes.append(n)
    if l is not None:
        a = build(l, nodes)
        n.left = a
        a.parent = n
    if r is not None:
        b = build(r, nodes)
        n.right = b
        b.flag = False
        b.parent = n
    return n


def apply_heap(nodes, heap):
    """Overwrite parent/flag fields with recorded ones (replay of grown trees)."""
    for i, par, flg in heap:
        nodes[i]._parent = None if par is None else (nodes[par] if 0 <= par < len(nodes) else Node('foreign', 'FUNCTION'))
        nodes[i]._flag = bool(flg)


def extract(root):
    """Labelled shape + node list (own recursion over left/right only) of an existing graph."""
    nodes = []

    def go(n):
        nodes.append(n)
        l = go(n.left) if n.left is not None else None
        r = go(n.right) if n.right is not None else None
        return [n.type == 'TERMINAL', l, r]
    return go(root), nodes


# ---------------------------------------------------------------- independent recursive reference
def ref(lsh):
    """(size, leaves, min leaf depth, max leaf depth, pre, post, slot) over builder indices."""
    pre, post, slot = [], [], {}
    cnt = [0]

    def go(s, d, own):
        i = cnt[0]
        cnt[0] += 1
        pre.append(i)
        slot[i] = own
        tm, l, r = s
        ds = []
        leaves = 0
        if l is not None:
            a, b = go(l, d + 1, (i, True))
            ds += a
            leaves += b
        if r is not None:
            a, b = go(r, d + 1, (i, False))
            ds += a
            leaves += b
        post.append(i)
        if l is None and r is None:
            return [d], 1
        return ds, leaves
    ds, leaves = go(lsh, 0, None)
    return {'size': cnt[0], 'leaves': leaves, 'min': min(ds), 'max': max(ds), 'pre': pre, 'post': post, 'slot': slot}


def types_of(lsh):
    out = []

    def go(s):
        out.append(s[0])
        for x in s[1:]:
            if x is not None:
                go(x)
    go(lsh)
    return out


# ---------------------------------------------------------------- observation
def idx_of(nodes):
    m = {id(n): i for i, n in enumerate(nodes)}
    return lambda n: m.get(id(n), FOREIGN)


def observe(root, nodes):
    ix = idx_of(nodes)
    obs = {}
    problems = []       # things the Coq encoding cannot even express

    def intval(name):
        try:
            v = getattr(root, name)
        except Exception as ex:  # noqa: BLE001
            problems.append('%s raised %s' % (name, type(ex).__name__))
            return None
        if isinstance(v, (bool,)) or not isinstance(v, (int, np.integer)):
            problems.append('%s returned %r' % (name, v))
            return None
        return int(v)

    obs['props'] = [intval('n_nodes'), intval('n_leaves'), intval('min_depth'), intval('max_depth')]
    kept = {}
    for name in ('pre_order', 'post_order'):
        try:
            kept[name] = getattr(root, name)
        except Exception as ex:  # noqa: BLE001
            problems.append('%s raised %s' % (name, type(ex).__name__))
            kept[name] = None
    # the lists are READ only after every other traversal below (of the sub-trees, of find_node): a traversal handed out earlier stays
    # that traversal, whatever is traversed next
    obs['heap'] = [[i, None if n.parent is None else ix(n.parent), bool(n.flag)] for i, n in enumerate(nodes)]
    finds = []
    for p in range(0, len(nodes) + 2):
        try:
            res = root.find_node(p)
            if not (isinstance(res, tuple) and len(res) == 2 and isinstance(res[1], (bool, np.bool_))
                    and (res[0] is None or isinstance(res[0], Node))):
                finds.append({'other': repr(res)[:80]})
            else:
                finds.append({'parent': None if res[0] is None else ix(res[0]), 'flag': bool(res[1])})
        except AttributeError:
            finds.append({'err': 'AttributeError'})
        except Exception as ex:  # noqa: BLE001
            finds.append({'other': 'raised ' + type(ex).__name__})
    obs['find'] = finds
    for n in nodes[1:4]:
        try:
            n.pre_order, n.post_order
        except Exception:  # noqa: BLE001
            pass
    for name in ('pre_order', 'post_order'):
        try:
            obs[name] = None if kept[name] is None else [ix(n) for n in kept[name]]
        except Exception as ex:  # noqa: BLE001
            problems.append('%s: the list returned earlier no longer holds nodes of the tree (%s)' % (name, type(ex).__name__))
            obs[name] = None
    obs['problems'] = problems
    return obs


def oracle(lsh, obs):
    """The property text, on the implementation's outputs.  Returns a list of (key, message, p)."""
    r = ref(lsh)
    tys = types_of(lsh)
    out = []
    names = ['n_nodes', 'n_leaves', 'min_depth', 'max_depth']
    want = [r['size'], r['leaves'], r['min'], r['max']]
    for nm, w, g in zip(names, want, obs['props']):
        if g != w:
            out.append((nm, '%s = %r but the tree has %s %d' % (
                nm, g, {'n_nodes': 'node count', 'n_leaves': 'childless-node count', 'min_depth': 'smallest leaf depth',
                        'max_depth': 'largest leaf depth'}[nm], w), None))
    if obs['pre_order'] != r['pre']:
        out.append(('pre_order', 'pre_order = %r, root-left-right is %r' % (obs['pre_order'], r['pre']), None))
    if obs['post_order'] != r['post']:
        out.append(('post_order', 'post_order = %r, left-right-root is %r' % (obs['post_order'], r['post']), None))
    for p in range(1, r['size']):
        node = r['pre'][p]
        own = r['slot'][node]                      # (parent index, is-left), never None for p >= 1
        if tys[node]:
            want_f = {'parent': own[0], 'flag': own[1]}
            kind = 'terminal'
        else:
            up = r['slot'][own[0]]
            want_f = {'parent': None, 'flag': False} if up is None else {'parent': up[0], 'flag': up[1]}
            kind = 'function-under-root' if up is None else 'function'
        got = obs['find'][p] if p < len(obs['find']) else None
        if got != want_f:
            out.append(('find_node:' + kind, 'find_node(%d) = %r, the slot is %r (node %d, %s)' % (p, got, want_f, node, kind), p))
    return out


def case_of(lsh, source, heap_override=None):
    nodes = []
    root = build(lsh, nodes)
    if heap_override is not None:
        apply_heap(nodes, heap_override)
    obs = observe(root, nodes)
    return {'shape': lsh, 'source': source, 'obs': obs, 'oracle': oracle(lsh, obs)}


def grow_space(seed, kw):
    np.random.seed(seed)
    return TreeSpace(n_variables=1, n_iterations=1, lower_bound=[0], upper_bound=[1], **kw)


def grown_cases(n_spaces, rnd, tag):
    fns = sorted(c.N_ARGS_FUNCTION.keys())
    out = []
    for k in range(n_spaces):
        nf = rnd.randint(1, len(fns))
        fs = rnd.sample(fns, nf)
        mind = rnd.randint(1, 2)
        maxd = rnd.randint(mind, 7)
        kw = {'n_trees': rnd.randint(1, 4), 'n_terminals': rnd.randint(1, 2), 'min_depth': mind, 'max_depth': maxd, 'functions': fs}
        seed = rnd.randrange(2 ** 31)
        try:
            sp = grow_space(seed, kw)
        except Exception as ex:  # noqa: BLE001
            out.append({'shape': None, 'source': '%s/%d' % (tag, k), 'grow_error': type(ex).__name__ + ': ' + str(ex)[:200]})
            continue
        for j, tr in enumerate(sp.trees):
            lsh, nodes = extract(tr)
            obs = observe(tr, nodes)
            out.append({'shape': lsh, 'source': '%s/%d/%d fns=%s depth=[%d,%d]' % (tag, k, j, ','.join(fs), mind, maxd),
                        'obs': obs, 'oracle': oracle(lsh, obs), 'grown': True, 'grow': {'seed': seed, 'kw': kw, 'j': j}})
    return out


# ---------------------------------------------------------------- measure -> edit -> measure again
def lsh_nodes(lsh):
    """Sub-shapes of a labelled shape in root-left-right order, with depth."""
    out = []

    def go(s, d):
        out.append((s, d))
        for x in s[1:]:
            if x is not None:
                go(x, d + 1)
    go(lsh, 0)
    return out


def lsh_replace(lsh, at, side, new):
    """Functional counterpart of `node.left/right = new` on the pre-order node `at` (the expected tree)."""
    cnt = [0]

    def go(s):
        i = cnt[0]
        cnt[0] += 1
        tm, l, r = s
        if i == at:
            # the replaced child's nodes are not numbered any more, the walk below only needs indices <= at
            return [tm, new, r] if side == 'left' else [tm, l, new]
        l2 = go(l) if l is not None else None
        r2 = go(r) if r is not None else None
        return [tm, l2, r2]
    return go(lsh)


def make_tree(spec):
    """(root, labelled shape) of a fresh real tree: built from the shape, or grown again from seed/parameters."""
    if spec.get('grow'):
        g = spec['grow']
        tr = grow_space(g['seed'], g['kw']).trees[g['j']]
        return tr, extract(tr)[0]
    return build(spec['shape'], []), spec['shape']


def apply_edit(root, ed):
    """`node.left = branch` / `node.right = branch` through the public setters, parent/flag as GP._mutate sets them."""
    node = extract(root)[1][ed['at']]
    branch = build(ed['new'], [])
    donor = None
    if ed.get('donor'):
        # the branch comes out of ANOTHER tree, as in GP._cross: it still hangs in its donor's left slot while it is attached here,
        # and the donor's slot is overwritten afterwards
        donor = Node(name='SUM', type='FUNCTION')
        donor.left = branch
        branch.flag = True
        branch.parent = donor
    if ed['side'] == 'left':
        node.left = branch
        branch.flag = True
    else:
        node.right = branch
        branch.flag = False
    branch.parent = node
    if donor is not None:
        other = build(['x0', None, None], []) if False else Node(name='x0', type='TERMINAL', value=np.zeros((1, 1)))
        donor.left = other
        other.flag = True
        other.parent = donor


def random_script(lsh, rnd):
    """1-3 edits; the assigned node is at depth >= 1 (>= 2 when there is one), so the new sub-tree sits >= 2 below the root."""
    script = []
    cur = lsh
    for _ in range(rnd.randint(1, 3)):
        nd = lsh_nodes(cur)
        deep2 = [i for i, (s, d) in enumerate(nd) if d >= 2]
        deep1 = [i for i, (s, d) in enumerate(nd) if d >= 1]
        pool = deep2 if (deep2 and rnd.random() < 0.5) else (deep1 or [0])
        at = rnd.choice(pool)
        side = rnd.choice(['left', 'right'])
        old = nd[at][0][1 if side == 'left' else 2]
        for _try in range(6):
            new = label_random(random_shape(rnd, rnd.randint(0, 2), 0.2, 0.4), rnd) if rnd.random() < 0.5 \
                else label_natural(random_shape(rnd, rnd.randint(0, 2), 0.2, 0.4))
            if old is None or len(lsh_nodes(new)) != len(lsh_nodes(old)) or depth_of(new) != depth_of(old):
                break
        ed = {'at': at, 'side': side, 'new': new}
        if (len(script) + at) % 2 == 1:
            ed['donor'] = True
        script.append(ed)
        cur = lsh_replace(cur, at, side, new)
    return script


def check_tree(root, want_lsh, which, step):
    """Full oracle (structure, measurements, both orders, find_node for every p) of one real tree against `want_lsh`."""
    got_lsh, nodes = extract(root)
    if got_lsh != want_lsh:
        return [('structure', '%s after step %d: the graph reachable through left/right is %r, expected %r'
                 % (which, step, got_lsh, want_lsh), None, which, step)], 0
    obs = observe(root, nodes)
    return [(k, '%s after step %d: %s' % (which, step, m), p, which, step) for k, m, p in oracle(want_lsh, obs)], 6 + len(obs['find'])


def run_history(spec, mode, script):
    """measure; deepcopy; (edit; measure both trees)*.  mode 'orig': the original is edited, the copy is left alone;
    mode 'copy': the copy is edited, the original is left alone."""
    root, lsh = make_tree(spec)
    fails, calls = check_tree(root, lsh, 'fresh tree', 0)          # first round: this is what a cache would remember
    cp = copy.deepcopy(root)
    f, n = check_tree(cp, lsh, 'deep copy', 0)
    fails += f
    calls += n
    edited, untouched = (root, cp) if mode == 'orig' else (cp, root)
    cur = lsh
    for step, ed in enumerate(script, 1):
        apply_edit(edited, ed)
        cur = lsh_replace(cur, ed['at'], ed['side'], ed['new'])
        for tree, want, which in ((edited, cur, 'edited ' + ('original' if mode == 'orig' else 'copy')),
                                  (untouched, lsh, 'untouched ' + ('copy' if mode == 'orig' else 'original'))):
            f, n = check_tree(tree, want, which, step)
            fails += f
            calls += n
    return {'shape': lsh, 'grow': spec.get('grow'), 'mode': mode, 'script': script, 'fails': fails, 'calls': calls,
            'final_shape': cur}


def edit_histories(cases, n, rnd):
    """A seeded sample of the enumerated / deep / GROW trees with at least 3 nodes and depth >= 2."""
    pool = [c for c in cases if c.get('shape') is not None and len(lsh_nodes(c['shape'])) >= 3
            and max(d for _, d in lsh_nodes(c['shape'])) >= 2]
    grown = [c for c in pool if c.get('grown')]
    out = []
    for k in range(n):
        c = rnd.choice(grown) if (grown and k % 3 == 2) else rnd.choice(pool)
        spec = {'shape': c['shape'], 'grow': c.get('grow')}
        h = run_history(spec, 'orig' if k % 2 == 0 else 'copy', random_script(c['shape'], rnd))
        h['source'] = c['source']
        out.append(h)
    return out


def main():
    doc = hlib.payload()
    if doc is not None and 'replay' in doc:
        rp = doc['replay']
        if rp.get('kind') == 'edit':
            h = run_history({'shape': rp['shape'], 'grow': rp.get('grow')}, rp['mode'], rp['script'])
            keys = [f[0] for f in h['fails']]
            hlib.emit({'fails': rp.get('oracle_key') in keys if rp.get('oracle_key') else bool(keys), 'oracle': h['fails'][:10],
                       'obs': {'final_shape': h['final_shape']}})
            return
        if 'shape' not in rp or rp['shape'] is None:
            hlib.emit({'fails': False, 'note': 'no concrete input recorded: ' + str(rp)[:400]})
            return
        cs = None
        if rp.get('grown') and rp.get('grow'):
            # a tree produced by TreeSpace.grow: grow it again from the recorded seed and parameters
            try:
                tr = grow_space(rp['grow']['seed'], rp['grow']['kw']).trees[rp['grow']['j']]
                lsh, nodes = extract(tr)
                obs = observe(tr, nodes)
                cs = {'shape': lsh, 'obs': obs, 'oracle': oracle(lsh, obs), 'regrown_same_shape': lsh == rp['shape']}
            except Exception as ex:  # noqa: BLE001
                cs = None
        if cs is None:
            cs = case_of(rp['shape'], 'replay', rp.get('heap') if rp.get('grown') else None)
        keys = [k for k, _, _ in cs['oracle']]
        if rp.get('kind') == 'correspondence':
            # the oracle had nothing to say; the recorded behaviour disagreed with the model: still there?
            fails = cs['obs'] == rp.get('obs')
        else:
            want = rp.get('oracle_key')
            fails = (want in keys) if want else bool(keys)
        hlib.emit({'fails': fails, 'oracle': cs['oracle'], 'obs': cs['obs']})
        return
    rnd = hlib.rng('c11')
    cases = []
    for sh in shapes_upto(3):
        cases.append(case_of(label_natural(sh), 'enum3/natural'))
    for sh in shapes_upto(3):
        cases.append(case_of(label_random(sh, rnd), 'enum3/random-types'))
    n_exhaustive = len(cases)
    n4 = 120 if hlib.QUICK else 20000
    sub = shapes_upto(3)
    k = 0
    while k < n4:
        if k % 2 == 0:   # uniform over the shapes of depth exactly <= 4 with a non-leaf root
            u = rnd.randrange(2 * len(sub) + len(sub) ** 2)
            if u < len(sub):
                sh = (sub[u], None)
            elif u < 2 * len(sub):
                sh = (None, sub[u - len(sub)])
            else:
                u -= 2 * len(sub)
                sh = (sub[u // len(sub)], sub[u % len(sub)])
        else:            # skewed: many unary / sparse shapes
            sh = random_shape(rnd, 4, rnd.choice([0.0, 0.1, 0.3]), rnd.choice([0.2, 0.5, 0.8, 1.0]))
        if depth_of(sh) != 4:
            continue
        k += 1
        cases.append(case_of(label_natural(sh) if rnd.random() < 0.6 else label_random(sh, rnd), 'sample4'))
    for sh in deep_shapes():
        cases.append(case_of(label_natural(sh), 'deep/natural'))
        cases.append(case_of(label_random(sh, rnd), 'deep/random-types'))
    cases += grown_cases(25 if hlib.QUICK else 600, rnd, 'grow')
    edits = edit_histories(cases, 150 if hlib.QUICK else 3000, hlib.rng('c11-edits'))
    hlib.emit({'cases': cases, 'n_exhaustive': n_exhaustive, 'edits': edits})


if __name__ == '__main__':
    main()
