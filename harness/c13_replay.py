"""Re-run one recorded C13 case against the current /repo and re-evaluate the property oracle."""
from harness import hlib, c13
from harness.hlib import unkey

doc = hlib.payload()
rp = doc['replay']
kind = rp.get('kind')
res = {'fails': False}
if kind == 'span':
    a = [[unkey(k) for k in row] for row in rp['a']]
    lb = [unkey(k) for k in rp['lb']]
    ub = [unkey(k) for k in rp['ub']]
    if rp.get('lb_is_int'):
        lb, ub = [int(v) for v in lb], [int(v) for v in ub]
    msgs = []
    for i in range(12):
        fails, out = c13.oracle(a, lb, ub, hlib.rng('replay%d' % i))
        msgs += [(k, m) for (k, m, j) in fails if k == rp['key']]
        if msgs:
            break
    res.update({'observed': out, 'oracle': msgs[:3], 'recorded': rp.get('msg'), 'fails': bool(msgs)})
elif kind == 'span-args':
    c = rp['case']
    a = [[unkey(k) for k in row] for row in c['a']]
    bad = c13.args_check(a, [unkey(k) for k in c['lb']], [unkey(k) for k in c['ub']], c['dtype'])
    res.update({'oracle': bad, 'recorded': c['oracle'], 'fails': bool(bad)})
elif kind == 'history':
    c = dict(rp['case'])
    bad = c13.history_check(c)
    res.update({'oracle': bad, 'recorded': rp['case'].get('oracle'), 'fails': bool(bad)})
elif kind == 'space':
    c = rp['case']
    raw = [[[unkey(k) for k in row] for row in p] for p in c['raw']]
    msg = c13.space_check(c['n'], c['d'], [unkey(k) for k in c['lb']], [unkey(k) for k in c['ub']], c['na'], c['draw'], raw,
                          hlib.rng('replay'), c.get('int', False))
    res.update({'oracle': msg, 'recorded': c['oracle'], 'fails': bool(msg)})
elif kind == 'run':
    c = rp['case']
    msg, ne = c13.run_check(c['optimizer'], c['n'], c['d'], [unkey(k) for k in c['lb']], [unkey(k) for k in c['ub']], c['np_seed'])
    res.update({'oracle': msg, 'evaluations': ne, 'recorded': c['oracle'], 'fails': bool(msg)})
else:
    res['note'] = 'no concrete input recorded (broken obligation): ' + str(rp)[:500]
hlib.emit(res)
