"""One seeded task in a fresh interpreter, optionally after a preceding workload; prints a digest of history and final state."""
import hashlib
import importlib
import json
import os
import sys

sys.path.insert(0, os.path.dirname(os.path.dirname(os.path.abspath(__file__))))
from harness import hlib  # noqa: E402
import numpy as np  # noqa: E402
from opytimizer import Opytimizer  # noqa: E402
from opytimizer.core.function import Function  # noqa: E402
from opytimizer.spaces.search import SearchSpace  # noqa: E402
from opytimizer.spaces.tree import TreeSpace  # noqa: E402


def build(cls, mod, hp, n_agents, n_vars, n_iter, kind='search', box=(-5.0, 5.0)):
    m = importlib.import_module('opytimizer.optimizers.' + mod)
    opt = getattr(m, cls)(hyperparams=hp) if hp else getattr(m, cls)()
    if kind == 'hyper' and cls != 'GP':
        from opytimizer.spaces.hyper import HyperSpace
        return opt, HyperSpace(n_agents=n_agents, n_variables=n_vars, n_dimensions=2, n_iterations=n_iter,
                               lower_bound=[box[0]] * n_vars, upper_bound=[box[1]] * n_vars)
    if cls == 'GP':
        space = TreeSpace(n_trees=n_agents, n_terminals=3, n_variables=n_vars, n_iterations=n_iter, min_depth=1, max_depth=4,
                          functions=['SUM', 'SUB', 'MUL', 'DIV', 'ABS', 'SIN'], lower_bound=[-5.0] * n_vars, upper_bound=[5.0] * n_vars)
    else:
        space = SearchSpace(n_agents=n_agents, n_variables=n_vars, n_iterations=n_iter, lower_bound=[box[0]] * n_vars, upper_bound=[box[1]] * n_vars)
    return opt, space


def obj(x):
    return float(np.sum(x ** 2) + 0.1 * np.sum(np.sin(3 * x)))


def obj_hyper(x):
    # candidates of a hypercomplex space: every component counts (the optimum pulls components out of [0, 1])
    return float(np.sum((x - 1.3) ** 2))


def obj_singular(x):
    # csendes-like: x^6 (2 + sin(1/x)); at a coordinate clipped to exactly 0 this is 0 * (2 + sin(inf)) = NaN, silently
    return float(np.sum(x ** 6 * (2 + np.sin(1 / x))))


def obj_const(x):
    return 1.0


OBJ = {'plain': obj, 'hyper': obj_hyper, 'singular': obj_singular, 'const': obj_const}


def run(cls, mod, hp, n_agents, n_vars, n_iter, seed, kind='search', box=(-5.0, 5.0), objective='plain', late_seed=None):
    np.random.seed(seed)
    opt, space = build(cls, mod, hp, n_agents, n_vars, n_iter, kind, tuple(box))
    task = Opytimizer(space=space, optimizer=opt, function=Function(pointer=OBJ[objective]))
    if late_seed is not None:
        # the generator is seeded again between assembling the task and starting it: the run draws from the generator as it is WHEN it
        # draws (equal late seeds: equal runs; different late seeds: different runs)
        np.random.seed(late_seed)
    h = task.start()
    # every public data attribute, whether it lives on the instance or on the class
    d = {k: getattr(h, k) for k in sorted(set(dir(h))) if not k.startswith('_') and not callable(getattr(h, k)) and k not in ('time', 'best_tree')}
    blob = json.dumps(d, default=lambda o: o.tolist() if hasattr(o, 'tolist') else repr(type(o)), sort_keys=True)
    blob += json.dumps([[a.position.tolist(), float(a.fit)] for a in space.agents] + [space.best_agent.position.tolist(), float(space.best_agent.fit)])
    if cls == 'GP':
        blob += '|'.join(str(t) for t in space.trees) + str(space.best_tree)
    return hashlib.sha256(blob.encode()).hexdigest()[:20]


def primitives():
    """one direct call of every random / distribution / selection primitive (scalar requests, an odd number of each): state kept by a
    primitive between calls (a spare deviate, a cached table) is left behind for the seeded task"""
    import opytimizer.math.random as r
    import opytimizer.math.distribution as d
    import opytimizer.math.general as g
    np.random.seed(4242)
    for call in (lambda: r.generate_uniform_random_number(), lambda: r.generate_gaussian_random_number(),
                 lambda: r.generate_gaussian_random_number(0.5, 2.0), lambda: r.generate_gaussian_random_number(size=1),
                 lambda: r.generate_uniform_random_number(0, 1, 3), lambda: d.generate_bernoulli_distribution(0.5, 1),
                 lambda: d.generate_levy_distribution(1.5, 1), lambda: g.tournament_selection([3.0, 1.0, 2.0], 1),
                 lambda: list(g.pairwise([1, 2, 3]))):
        try:
            call()
        except Exception:  # noqa: BLE001
            pass


def main():
    p = json.loads(sys.argv[1])
    for w in p.get('prior', []):
        if w.get('cls') == '__primitives__':
            primitives()
            continue
        if w.get('cls') == '__logging_off__':
            import logging
            logging.disable(logging.CRITICAL)      # an application that silences the library's logging before it optimises
            continue
        try:
            run(w['cls'], w['mod'], w.get('hp'), w.get('n_agents', 3), w.get('n_vars', 2), w.get('n_iter', 2), w.get('seed', 99),
                w.get('kind', 'search'), w.get('box', (-5.0, 5.0)), w.get('objective', 'plain'))
        except Exception:  # noqa: BLE001
            pass
    try:
        dg = run(p['cls'], p['mod'], p.get('hp'), p['n_agents'], p['n_vars'], p['n_iter'], p['seed'],
                 p.get('kind', 'search'), p.get('box', (-5.0, 5.0)), p.get('objective', 'plain'), p.get('late_seed'))
    except Exception as ex:  # noqa: BLE001
        dg = 'EXC:' + type(ex).__name__
    hlib.emit({'digest': dg})


if __name__ == '__main__':
    main()
