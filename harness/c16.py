"""C16 harness: the real WeightedFunction on integer-valued components / integer weights (exact in binary64),
the property oracle evaluated on the implementation, interface comparison with Function, and a real
optimizer run on a WeightedFunction versus the equivalent plain Function.

stdin payload: none -> generate cases; {"cases": [...]} -> re-run exactly these cases (replay)."""
import copy
import inspect
import numpy as np
from harness import hlib

from opytimizer.core.function import Function
from opytimizer.functions.weighted import WeightedFunction

LARGE = [2 ** 20, -(2 ** 20), 2 ** 24 - 1, -(2 ** 24 - 1)]
XKINDS = ['float64', 'float64', 'int64', 'float64', 'float32', 'float64', 'list']


def make_comp(idx, sq, a, b, log, ref):
    a_arr = np.array(a, dtype=float)

    def comp(arr):
        seen = np.array(arr, dtype=float).ravel()
        log.append([idx, bool(arr is ref['x']), [float(v) for v in seen], describe(arr)])
        flat = seen * seen if sq else seen
        return float(b + np.dot(a_arr, flat[:len(a_arr)])) if len(a_arr) else float(b)
    comp.__name__ = 'comp%d' % idx
    # single-argument functions of every kind that has a __name__ (the library logs it): plain function, lambda, bound method.
    # (callable objects and functools.partial objects have no __name__ and are rejected with an untyped AttributeError by the
    #  library's log line: noted in notes/C16.md, outside "functions" in the strict sense)
    kind = idx % 3
    if kind == 1:
        return lambda arr: comp(arr)
    if kind == 2:
        class Holder:
            def method(self, arr):
                return comp(arr)
        return Holder().method
    return comp


def describe(o):
    """what kind of object a component is handed: type, and dtype for arrays"""
    return 'ndarray:%s' % o.dtype if isinstance(o, np.ndarray) else type(o).__name__


def make_x(c):
    """the argument, of the recorded kind: float64 (positions), int64 / float32 arrays, or a nested Python list"""
    kind = c.get('xkind', 'float64')
    if kind == 'list':
        return np.array(c['x'], dtype=int).reshape(c['shape']).tolist()
    return np.array(c['x'], dtype={'float64': float, 'int64': np.int64, 'float32': np.float32}[kind]).reshape(c['shape'])


def snapshot(x):
    return (x.tobytes(), str(x.dtype)) if isinstance(x, np.ndarray) else copy.deepcopy(x)


def exact_comp(sq, a, b, x):
    return b + sum(ai * (xi * xi if sq else xi) for ai, xi in zip(a, x))


def wrap_weight(w, ty):
    if ty == 'float':
        return float(w)
    if ty == 'np':
        return np.float64(w)
    return int(w)


def run_case(c):
    """c: {'comps': [[sq, a, b]], 'ws': [int], 'wtypes': [str], 'x': [int], 'shape': [nv, nd]}"""
    log, ref = [], {}
    comps = [make_comp(i, bool(sq), a, b, log, ref) for i, (sq, a, b) in enumerate(c['comps'])]
    ws = [wrap_weight(w, t) for w, t in zip(c['ws'], c['wtypes'])]
    out = dict(c)
    out.update({'val': None, 'log': [], 'oracle': None, 'okey': None, 'rejected': None, 'raised': None})
    try:
        wf = WeightedFunction(functions=comps, weights=ws)
    except Exception as ex:  # noqa: BLE001
        out['rejected'] = hlib.exc_kind(ex)
        if len(comps) == len(ws) and len(comps) >= 1:
            out['oracle'] = 'constructor rejects %d single-argument functions with %d weights: %r' % (len(comps), len(ws), ex)
            out['okey'] = 'construct'
        return out
    x = make_x(c)
    ref['x'] = x
    return evaluate(wf, c, x, log, out)


def evaluate(wf, c, x, log, out):
    """one call wf.pointer(x); c['comps'] / c['ws'] describe the CURRENT components and weights of wf"""
    del log[:]
    k = len(c['comps'])
    nw = len(c['ws'])
    snap = snapshot(x)
    try:
        val = wf.pointer(x)
    except Exception as ex:  # noqa: BLE001
        out['raised'] = type(ex).__name__ + ': ' + str(ex)[:200]
        if k == nw and k >= 1:
            out['oracle'] = 'pointer(x) raised ' + out['raised']
            out['okey'] = 'value'
        return out
    mutated = snapshot(x) != snap
    out['log'] = [list(e) for e in log]
    out['mutated'] = mutated
    try:
        fv = float(val)
        out['val_repr'] = repr(val)
        out['val'] = int(fv) if fv == int(fv) else None
    except Exception:  # noqa: BLE001
        out['val_repr'] = repr(val)[:100]
    # ---- the property oracle, on the implementation (the text speaks about equally long lists, k >= 1)
    if k == nw and k >= 1:
        xs = [int(v) for v in c['x']]
        exact = sum(w * exact_comp(bool(sq), a, b, xs) for w, (sq, a, b) in zip(c['ws'], c['comps']))
        orig = [float(v) for v in c['x']]
        counts = [sum(1 for e in log if e[0] == i) for i in range(k)]
        if counts != [1] * k:
            out['oracle'] = 'components are not evaluated exactly once per call: call counts %s' % counts
            out['okey'] = 'calls'
        elif any(e[2] != orig for e in log):
            bad = [e for e in log if e[2] != orig][0]
            out['oracle'] = 'component %d was evaluated on %s, not on the argument %s' % (bad[0], bad[2], orig)
            out['okey'] = 'argument'
        elif any(e[3] != describe(x) for e in log):
            bad = [e for e in log if e[3] != describe(x)][0]
            out['oracle'] = 'component %d was handed a %s, not the unmodified argument (a %s)' % (bad[0], bad[3], describe(x))
            out['okey'] = 'argument'
        elif mutated:
            out['oracle'] = 'the argument was modified by the call'
            out['okey'] = 'argument'
        elif not (out['val'] is not None and out['val'] == exact):
            out['oracle'] = 'value %s differs from sum of weight * component value = %d (weights %s, component values %s)' % (
                out.get('val_repr'), exact, c['ws'], [exact_comp(bool(sq), a, b, xs) for (sq, a, b) in c['comps']])
            out['okey'] = 'value'
        out['exact'] = exact
    return out


def run_seq(c):
    """build -> evaluate -> re-assign weights / functions (public setters, or in place) -> evaluate, ...
    c: a case as for run_case plus 'steps': [{'op': 'set_weights', 'ws': [...], 'wtypes': [...]} |
       {'op': 'set_functions', 'comps': [...]} | {'op': 'weight_in_place', 'i': i, 'w': w} |
       {'op': 'function_in_place', 'i': i, 'comp': [sq, a, b]}].
    After every step the value must be the sum over the CURRENT functions and weights (the closure reads
    self.functions / self.weights when it is called).  -> list of observations (index 0 = before any step)."""
    log, ref = [], {}
    cur = {'comps': [list(t) for t in c['comps']], 'ws': list(c['ws']), 'wtypes': list(c['wtypes']), 'x': c['x'], 'shape': c['shape']}

    def mk(i, t):
        return make_comp(i, bool(t[0]), t[1], t[2], log, ref)
    obs = []
    base = {'val': None, 'log': [], 'oracle': None, 'okey': None, 'rejected': None, 'raised': None}
    try:
        wf = WeightedFunction(functions=[mk(i, t) for i, t in enumerate(cur['comps'])],
                              weights=[wrap_weight(w, t) for w, t in zip(cur['ws'], cur['wtypes'])])
    except Exception as ex:  # noqa: BLE001
        o = dict(cur, **base)
        o.update({'rejected': hlib.exc_kind(ex), 'oracle': 'constructor raised %r' % ex, 'okey': 'construct', 'step': None})
        return [o]
    x = np.array(c['x'], dtype=float).reshape(c['shape'])
    ref['x'] = x
    o = evaluate(wf, cur, x, log, dict(cur, comps=[list(t) for t in cur['comps']], ws=list(cur['ws']), **base))
    o['step'] = None
    obs.append(o)
    for st in c['steps']:
        try:
            if st['op'] == 'set_weights':
                cur['ws'], cur['wtypes'] = list(st['ws']), list(st['wtypes'])
                wf.weights = [wrap_weight(w, t) for w, t in zip(cur['ws'], cur['wtypes'])]
            elif st['op'] == 'set_functions':
                cur['comps'] = [list(t) for t in st['comps']]
                wf.functions = [Function(pointer=mk(i, t)) for i, t in enumerate(cur['comps'])]
            elif st['op'] == 'weight_in_place':
                cur['ws'][st['i']] = st['w']
                wf.weights[st['i']] = wrap_weight(st['w'], cur['wtypes'][st['i']])
            elif st['op'] == 'function_in_place':
                cur['comps'][st['i']] = list(st['comp'])
                wf.functions[st['i']] = Function(pointer=mk(st['i'], st['comp']))
            elif st['op'] in ('rejected_pointer', 'rejected_list'):
                # a user's mistake, answered by an exception and dropped: whether it IS rejected is C14's subject; when it is, the
                # weighted function must still be the sum over the functions and weights it had
                try:
                    if st['op'] == 'rejected_pointer':
                        wf.functions[st['i']].pointer = (lambda a, b: 0.0) if st.get('bad') == 'lambda2' else 3
                    elif st.get('bad') == 'functions':
                        wf.functions = tuple(wf.functions)
                    else:
                        wf.weights = tuple(wf.weights)
                    accepted = True
                except Exception:  # noqa: BLE001
                    accepted = False
                if accepted:
                    o = dict(cur, comps=[list(t) for t in cur['comps']], ws=list(cur['ws']), **base)
                    o.update({'raised': 'invalid assignment accepted (C14)', 'step': st['op']})
                    obs.append(o)
                    break
            err = None
        except Exception as ex:  # noqa: BLE001
            err = type(ex).__name__ + ': ' + str(ex)[:200]
        o = dict(cur, comps=[list(t) for t in cur['comps']], ws=list(cur['ws']), **base)
        if err:
            o.update({'raised': err, 'oracle': 're-assignment %s raised %s' % (st['op'], err), 'okey': 'after-reassign'})
        else:
            o = evaluate(wf, cur, x, log, o)
            if o['oracle']:
                o['oracle'] = 'after %s: %s' % (st['op'], o['oracle'])
                o['okey'] = 'after-reassign'
        o['step'] = st['op']
        obs.append(o)
    return obs


# ------------------------------------------------------------------ histories: mistake then fix; one list, several weight vectors

def offer_invalid(kind):
    """hand an invalid component to Function / WeightedFunction inside try/except and drop it: a two-argument
    function or lambda, or a non-callable.  -> how it was answered (C16 does not judge that: C14 does)"""
    if kind.startswith('def2'):
        def bad(a, b):
            return 0.0
    elif kind.startswith('lambda2'):
        bad = lambda a, b: 0.0  # noqa: E731
    elif kind.startswith('closure2'):
        rho = 2.5

        def bad(a, b):
            return rho * b
    else:
        bad = {'int': 3, 'none': None, 'str': 'sphere'}[kind.split(':')[0]]
    try:
        if kind.endswith(':weighted'):
            WeightedFunction(functions=[bad], weights=[1.0])
        else:
            Function(pointer=bad)
        return 'accepted', id(bad)
    except Exception as ex:  # noqa: BLE001
        return hlib.exc_kind(ex), id(bad)


BAD_KINDS = ['def2:function', 'lambda2:weighted', 'closure2:weighted', 'int:function', 'def2:weighted', 'none:weighted',
             'lambda2:function', 'str:function', 'closure2:function']


def run_history(h):
    """cycles of: offer an invalid component (rejected, dropped) -> build freshly created valid single-argument
    functions -> they must be accepted by Function and by WeightedFunction and give the exact weighted sum,
    whatever was rejected before.  -> one observation per cycle"""
    import gc
    obs = []
    rejected_ids = set()

    def make_fresh(j):
        if j % 2:
            return (lambda c: (lambda a: float(c + np.sum(a))))(j)
        off = float(j)

        def fresh(a):
            return off + float(np.sum(a))
        return fresh
    for cyc in h['cycles']:
        answered, bad_id = offer_invalid(cyc['bad'])
        if answered != 'accepted':
            rejected_ids.add(bad_id)
        gc.collect()
        o = None
        # freshly created valid functions, kept alive together, until one of them sits at the address of a rejected
        # and dropped object (CPython re-uses addresses): each must be accepted and evaluate correctly
        pool, reused = [], False
        for j in range(64):
            pool.append(make_fresh(j))
            if id(pool[-1]) in rejected_ids:
                reused = True
                break
        xv = np.array([[1.0], [2.0]])
        for j, f in enumerate(pool):
            try:
                Function(pointer=f)
                v = WeightedFunction(functions=[f], weights=[2]).pointer(xv) if j >= len(pool) - 2 else None
                if v is not None and v != 2 * (j + 3.0):
                    raise ValueError('WeightedFunction([f], [2]).pointer = %r, expected %r' % (v, 2 * (j + 3.0)))
            except Exception as ex:  # noqa: BLE001
                o = dict(cyc['case'], val=None, log=[], rejected=hlib.exc_kind(ex), raised=None, okey='mistake-then-fix',
                         oracle='after a rejected and dropped %s, freshly created single-argument function no. %d is refused: %r'
                         % (cyc['bad'].split(':')[0], j + 1, ex))
                break
        del pool
        if o is None:
            o = run_case(cyc['case'])
            if o['oracle']:
                o['oracle'] = 'after a rejected %s: %s' % (cyc['bad'].split(':')[0], o['oracle'])
                o['okey'] = 'mistake-then-fix'
        o['invalid_answered'] = answered
        o['address_reused'] = reused
        obs.append(o)
    return obs


def run_sweep(c):
    """the same caller-owned list of functions handed to WeightedFunction once per weight vector: every construction
    must succeed, the caller's list must still hold its functions, every value is the exact sum"""
    log, ref = [], {}
    comps = [make_comp(i, bool(sq), a, b, log, ref) for i, (sq, a, b) in enumerate(c['comps'])]
    originals = list(comps)
    x = make_x(c)
    ref['x'] = x
    obs = []
    for j, (ws, wt) in enumerate(zip(c['ws_list'], c['wtypes_list'])):
        cur = dict(c, ws=list(ws), wtypes=list(wt))
        out = dict(cur, val=None, log=[], oracle=None, okey=None, rejected=None, raised=None, step='weights %d' % j)
        try:
            wf = WeightedFunction(functions=comps, weights=[wrap_weight(w, t) for w, t in zip(ws, wt)])
        except Exception as ex:  # noqa: BLE001
            out.update({'rejected': hlib.exc_kind(ex), 'okey': 'same-list-reuse',
                        'oracle': 'construction %d from the same list of %d single-argument functions (weights %s) raised %r'
                        % (j + 1, len(comps), ws, ex)})
            obs.append(out)
            continue
        out = evaluate(wf, cur, x, log, out)
        if out['oracle']:
            out['oracle'] = 'construction %d from the same list: %s' % (j + 1, out['oracle'])
            out['okey'] = 'same-list-reuse'
        elif len(comps) != len(originals) or any(a is not b for a, b in zip(comps, originals)):
            out['oracle'] = 'the caller\'s list of functions was modified by the constructor: %s' % [type(f).__name__ for f in comps]
            out['okey'] = 'same-list-reuse'
        obs.append(out)
    return obs


def gen_histories():
    r = hlib.rng('c16hist')
    hs = []

    def case(k):
        nv, nd = r.randint(1, 3), r.randint(1, 2)
        nx = nv * nd
        return {'comps': [[r.random() < 0.3, [r.randint(-50, 50) for _ in range(nx)], r.randint(-1000, 1000)] for _ in range(k)],
                'ws': [r.choice([1, -1, 2 ** 20, 7]) if r.random() < 0.4 else r.randint(-5000, 5000) for _ in range(k)],
                'wtypes': [r.choice(['int', 'float', 'np']) for _ in range(k)],
                'x': [r.randint(-60, 60) for _ in range(nx)], 'shape': [nv, nd], 'xkind': 'float64'}
    for _ in range(1 if hlib.QUICK else 8):
        hs.append({'cycles': [{'bad': BAD_KINDS[(j + len(hs)) % len(BAD_KINDS)], 'case': case(r.randint(1, 3))} for j in range(25)]})
    sweeps = []
    for _ in range(6 if hlib.QUICK else 60):
        c = case(r.randint(1, 4))
        k = len(c['comps'])
        m = r.randint(2, 4)
        c['ws_list'] = [[r.choice([0, 1, -2, 2 ** 20]) if r.random() < 0.4 else r.randint(-5000, 5000) for _ in range(k)] for _ in range(m)]
        c['wtypes_list'] = [[r.choice(['int', 'float', 'np']) for _ in range(k)] for _ in range(m)]
        sweeps.append(c)
    return hs, sweeps


def gen_seqs():
    r = hlib.rng('c16seq')
    seqs = []
    n = 24 if hlib.QUICK else 300
    for s in range(n):
        k = r.randint(1, 5)
        nv, nd = r.randint(1, 3), r.randint(1, 2)
        nx = nv * nd

        def comp():
            return [r.random() < 0.3, [r.randint(-50, 50) for _ in range(nx)], r.randint(-1000, 1000)]

        def weight():
            return r.choice([0, 1, -1, 2 ** 20, -(2 ** 20)]) if r.random() < 0.4 else r.randint(-5000, 5000)
        c = {'comps': [comp() for _ in range(k)], 'ws': [weight() or 3 for _ in range(k)],
             'wtypes': [r.choice(['int', 'float', 'np']) for _ in range(k)],
             'x': [r.randint(-60, 60) for _ in range(nx)], 'shape': [nv, nd], 'steps': []}
        ops = ['set_weights', 'weight_in_place', 'set_functions', 'function_in_place']
        first = ops[s % 4]                 # every kind of re-assignment leads a sequence
        for j in range(r.randint(1, 3)):
            op = first if j == 0 else r.choice(ops)
            if op == 'set_weights':
                c['steps'].append({'op': op, 'ws': [weight() + 7 * (i + 1) for i in range(k)],
                                   'wtypes': [r.choice(['int', 'float', 'np']) for _ in range(k)]})
            elif op == 'weight_in_place':
                c['steps'].append({'op': op, 'i': r.randrange(k), 'w': weight() + 11})
            elif op == 'set_functions':
                c['steps'].append({'op': op, 'comps': [comp() for _ in range(k)]})
            else:
                c['steps'].append({'op': op, 'i': r.randrange(k), 'comp': comp()})
        seqs.append(c)
    # rejected assignments in the middle of a sequence (generated after the others: the earlier sequences keep their random stream)
    for s in range(8 if hlib.QUICK else 60):
        k = r.randint(1, 4)
        nv, nd = r.randint(1, 3), r.randint(1, 2)
        nx = nv * nd
        c = {'comps': [[r.random() < 0.3, [r.randint(-50, 50) for _ in range(nx)], r.randint(-1000, 1000)] for _ in range(k)],
             'ws': [r.randint(-5000, 5000) or 3 for _ in range(k)], 'wtypes': [r.choice(['int', 'float', 'np']) for _ in range(k)],
             'x': [r.randint(-60, 60) for _ in range(nx)], 'shape': [nv, nd], 'steps': []}
        if s % 4 < 2:
            c['steps'].append({'op': 'rejected_pointer', 'i': r.randrange(k), 'bad': ['lambda2', 'int'][s % 2]})
        else:
            c['steps'].append({'op': 'rejected_list', 'bad': ['functions', 'weights'][s % 2]})
        c['steps'].append({'op': 'weight_in_place', 'i': r.randrange(k), 'w': r.randint(-99, 99) or 5})
        seqs.append(c)
    return seqs


def gen_cases():
    r = hlib.rng('c16')
    cases = []

    def mk(k, nw, wclass):
        nv, nd = r.randint(1, 4), r.randint(1, 3)
        n = nv * nd
        sqs = [r.random() < 0.4 for _ in range(k)]
        xmax = 2 ** 6 if any(sqs) else 2 ** 10
        x = [r.choice([0, 1, -1, xmax, -xmax]) if r.random() < 0.3 else r.randint(-xmax, xmax) for _ in range(n)]
        comps = []
        for i in range(k):
            na = n if r.random() < 0.8 else r.randint(0, n)
            a = [r.randint(-256, 256) for _ in range(na)]
            b = r.choice([0, 1, -1, 2 ** 20, -(2 ** 20)]) if r.random() < 0.5 else r.randint(-1000, 1000)
            comps.append([sqs[i], a, b])
        ws = []
        for i in range(nw):
            if wclass == 'zero':
                ws.append(0)
            elif wclass == 'neg':
                ws.append(-r.randint(1, 2 ** 12))
            elif wclass == 'large':
                ws.append(r.choice(LARGE))
            elif wclass == 'unit':
                ws.append(r.choice([1, -1]))
            elif wclass == 'distinct':
                ws.append((i + 2) * (1 if i % 2 else -1) * 1000 + r.randint(0, 9))
            else:
                c = r.random()
                ws.append(0 if c < 0.15 else r.choice(LARGE) if c < 0.35 else r.choice([1, -1, 2, -2]) if c < 0.5
                          else r.randint(-5000, 5000))
        wtypes = [r.choice(['int', 'float', 'float', 'np']) for _ in range(nw)]
        return {'comps': comps, 'ws': ws, 'wtypes': wtypes, 'x': x, 'shape': [nv, nd], 'wclass': wclass,
                'tag': 'eq' if k == nw else 'trunc', 'xkind': XKINDS[len(cases) % len(XKINDS)]}

    # systematic: every k in 1..8 x every weight class (the last component gets a weight that matters)
    for k in range(1, 9):
        for wclass in ('zero', 'neg', 'large', 'unit', 'distinct', 'mixed'):
            cases.append(mk(k, k, wclass))
    n_rand = 300 if hlib.QUICK else 5000
    for _ in range(n_rand):
        k = r.randint(1, 8)
        if r.random() < 0.12:
            nw = r.choice([w for w in range(0, 9) if w != k])
            if r.random() < 0.15:
                k = 0
        else:
            nw = k
        cases.append(mk(k, nw, r.choice(['mixed', 'mixed', 'distinct', 'large', 'neg'])))
    return cases


# ------------------------------------------------------------------ "can be optimised wherever a plain Function can"

def public(o):
    return sorted(n for n in dir(o) if not n.startswith('_'))


def interface_check():
    def g(x):
        return float(np.sum(np.asarray(x) ** 2))
    res = {'oracle': None}
    try:
        f = Function(pointer=g)
        w = WeightedFunction(functions=[g, g], weights=[0.5, 2.0])
        res['function_public'] = public(f)
        res['weighted_public'] = public(w)
        missing = [n for n in public(f) if n not in public(w)]
        if missing:
            res['oracle'] = 'WeightedFunction lacks public attribute(s) of Function: %s' % missing
        elif not callable(w.pointer):
            res['oracle'] = 'WeightedFunction.pointer is not callable'
        elif len(inspect.signature(w.pointer).parameters) != 1:
            res['oracle'] = 'WeightedFunction.pointer does not take exactly one argument'
        elif w.built is not True or f.built is not True:
            res['oracle'] = 'built flags: Function %r, WeightedFunction %r' % (f.built, w.built)
        else:
            Function(pointer=w.pointer)     # usable wherever a pointer is expected
            v = w.pointer(np.array([[1.0], [2.0]]))
            if v != 0.5 * 5.0 + 2.0 * 5.0:
                res['oracle'] = 'pointer([[1],[2]]) = %r, expected 12.5' % v
    except Exception as ex:  # noqa: BLE001
        res['oracle'] = 'interface probe raised %s: %s' % (type(ex).__name__, ex)
    return res


def optimizer_runs():
    """The same optimizer, space and seed on a WeightedFunction and on the plain Function computing the same
    left-to-right sum: both must run and produce identical histories."""
    from opytimizer import Opytimizer
    from opytimizer.spaces.search import SearchSpace
    import importlib
    # every bundled optimizer (GP on a tree space), plus variants that reach rarely executed evaluation sites
    # (ABC's scout phase needs a food source to exceed its trial limit)
    names = [('pso', 'PSO', {}), ('bha', 'BHA', {}), ('abc', 'ABC', {}), ('abc', 'ABC', {'n_trials': 1}), ('aiwpso', 'AIWPSO', {}),
             ('ba', 'BA', {}), ('cs', 'CS', {}), ('fa', 'FA', {}), ('fpa', 'FPA', {}), ('gp', 'GP', {}), ('gsa', 'GSA', {}),
             ('hc', 'HC', {}), ('hs', 'HS', {}), ('ihs', 'IHS', {}), ('rpso', 'RPSO', {}), ('sa', 'SA', {}), ('sca', 'SCA', {}),
             ('wca', 'WCA', {}), ('cs', 'CS', {'p': 0.9}), ('fpa', 'FPA', {'p': 0.1}), ('hs', 'HS', {'HMCR': 0.1}),
             ('ba', 'BA', {'A': 0.9, 'r': 0.1})]
    r = hlib.rng('c16opt')
    out = []
    for mod, cls, hp in names:
        for rep in range(1 if hlib.QUICK else 3):
            seed = r.randint(0, 2 ** 31 - 1)
            ws = [r.choice([0.0, -1.5, 2.0, 1e3, 0.25]) for _ in range(3)]
            counts = [0, 0, 0, 0]

            def f0(x):
                counts[0] += 1
                return float(np.sum(x ** 2))

            def f1(x):
                counts[1] += 1
                return float(np.sum(np.abs(x)))

            def f2(x):
                counts[2] += 1
                return float(np.sum(x))

            def plain(x):
                counts[3] += 1
                z = 0
                z += ws[0] * float(np.sum(x ** 2))
                z += ws[1] * float(np.sum(np.abs(x)))
                z += ws[2] * float(np.sum(x))
                return z

            def run(fn):
                np.random.seed(seed)
                Opt = getattr(importlib.import_module('opytimizer.optimizers.' + mod), cls)
                if cls == 'GP':
                    from opytimizer.spaces.tree import TreeSpace
                    space = TreeSpace(n_trees=6, n_terminals=2, n_variables=2, n_iterations=4, min_depth=1, max_depth=3,
                                      functions=['SUM', 'SUB', 'MUL', 'DIV'], lower_bound=[-5, -5], upper_bound=[5, 5])
                else:
                    space = SearchSpace(n_agents=6, n_variables=2, n_iterations=6, lower_bound=[-5, -5], upper_bound=[5, 5])
                with np.errstate(all='ignore'):
                    h = Opytimizer(space=space, optimizer=Opt(hyperparams=dict(hp)), function=fn).start()
                return [[hlib.key(v) for row in p for v in row] + [hlib.key(fit)] for (p, fit) in h.best_agent]

            rec = {'optimizer': cls, 'hyperparams': hp, 'seed': seed, 'weights': ws, 'oracle': None}
            try:
                ref = run(Function(pointer=plain))
            except Exception as ex:  # noqa: BLE001
                rec['skipped'] = 'plain Function run raised %s: %s' % (type(ex).__name__, str(ex)[:120])
                out.append(rec)
                continue
            try:
                got = run(WeightedFunction(functions=[f0, f1, f2], weights=ws))
                rec['evaluations'] = counts[3]
                if got != ref:
                    rec['oracle'] = '%s on the WeightedFunction and on the equivalent plain Function diverge (seed %d)' % (cls, seed)
                elif not (counts[0] == counts[1] == counts[2] == counts[3]):
                    rec['oracle'] = 'component call counts %s differ from the %d evaluations' % (counts[:3], counts[3])
            except Exception as ex:  # noqa: BLE001
                rec['oracle'] = '%s runs on a plain Function but raises %s on the WeightedFunction: %s' % (cls, type(ex).__name__, ex)
            out.append(rec)
    return out


# ------------------------------------------------------------------ exact integers above 2**53; components that are falsy callables

class Recorder:
    """a callable component object whose truth value is False while it has recorded nothing (len() == 0)"""

    def __init__(self, scale):
        self.scale, self.log = scale, []
        self.__name__ = 'recorder'          # WeightedFunction._build logs the components' __name__

    def __len__(self):
        return len(self.log)

    def __call__(self, x):
        self.log.append(1)
        return self.scale * float(np.sum(x))


def extras(only=None):
    out = []
    x = np.array([[1.0], [2.0]])
    big = [([10 ** 15, 1], [7, 3], 'np.int64'), ([2 ** 40, -(2 ** 40), 1], [2 ** 21 + 1, 2 ** 21, 5], 'np.int64'), ([10 ** 15, 1], [7, 3], 'int'),
           ([3, 2 ** 60], [1, 1], 'int'), ([1, 10 ** 16], [9, 11], 'np.int64')]
    for k, (ws, vals, kind) in enumerate(big):
        name = 'bigint-%d' % k
        if only and only != name:
            continue
        def const(v):
            return lambda x: (np.int64(v) if kind == 'np.int64' else int(v))
        comps = [const(v) for v in vals]
        want = sum(w * v for w, v in zip(ws, vals))                                   # exact (Python integers)
        rec = {'name': name, 'okey': 'bigint', 'input': {'weights': ws, 'component values': vals, 'component kind': kind}, 'oracle': None}
        try:
            got = WeightedFunction(functions=comps, weights=list(ws)).pointer(x)
            if int(got) != want or isinstance(got, (float, np.floating)):
                rec['oracle'] = ('integer components %s (%s) with integer weights %s: value %r (%s), the exact sum of weight times component value is %d'
                                 % (vals, kind, ws, got, type(got).__name__, want))
        except Exception as ex:  # noqa: BLE001
            rec['oracle'] = 'integer components %s with weights %s raised %s: %s' % (vals, ws, type(ex).__name__, ex)
        out.append(rec)
    for k, scales in enumerate([[2.0], [1.5, -0.5], [0.0, 3.0, 1.0]]):
        name = 'falsy-callable-%d' % k
        if only and only != name:
            continue
        ws = [float(i + 2) for i in range(len(scales))]
        recs = [Recorder(sc) for sc in scales]
        want = 0
        for w, sc in zip(ws, scales):
            want += w * (sc * float(np.sum(x)))
        rec = {'name': name, 'okey': 'falsy-callable', 'input': {'weights': ws, 'components': 'callable objects with __len__() == 0 when handed over, scales %s' % scales},
               'oracle': None}
        try:
            wf = WeightedFunction(functions=recs, weights=ws)
            got = wf.pointer(x)
            calls = [len(r.log) for r in recs]
            if got != want or calls != [1] * len(recs):
                rec['oracle'] = ('components that are callable objects with a false truth value: value %r, expected %r; calls per component %s (each must '
                                 'be evaluated exactly once)' % (got, want, calls))
        except Exception as ex:  # noqa: BLE001
            rec['oracle'] = 'callable objects with a false truth value as components: raised %s: %s' % (type(ex).__name__, ex)
        out.append(rec)
    # weights of other numeric kinds than Python numbers / float64: NumPy integer and narrow float scalars (a list made from an array),
    # fractions -- the property quantifies over every weight vector
    import fractions
    kinds = [('np.int64', [np.int64(3), np.int64(0), np.int64(-2)]), ('np.float32', [np.float32(0.5), np.float32(-1.25), np.float32(2.0)]),
             ('np.int32+float', [np.int32(2), 0.25, np.int32(-1)]), ('Fraction', [fractions.Fraction(1, 2), fractions.Fraction(-3, 4), fractions.Fraction(2)])]
    for k, (kname, ws) in enumerate(kinds):
        name = 'weight-kinds-%d' % k
        if only and only != name:
            continue
        vals = [2.0, -4.0, 0.5]

        def cf(v):
            return lambda x: v
        want = 0
        for w, v in zip(ws, vals):
            want += w * v
        rec = {'name': name, 'okey': 'weight-kinds', 'input': {'weight kind': kname, 'weights': [repr(w) for w in ws], 'component values': vals}, 'oracle': None}
        try:
            got = WeightedFunction(functions=[cf(v) for v in vals], weights=list(ws)).pointer(x)
            if got != want:
                rec['oracle'] = '%s weights %r: value %r, the sum of weight times component value is %r' % (kname, ws, got, want)
        except Exception as ex:  # noqa: BLE001
            rec['oracle'] = '%s weights %r are rejected / fail with %s: %s' % (kname, ws, type(ex).__name__, str(ex)[:100])
        out.append(rec)
    # SCALE: hundreds of components (a fixed-size buffer, an index type, a threshold that switches to a vectorised path)
    for k, n in enumerate([200, 1025]):
        name = 'many-components-%d' % k
        if only and only != name:
            continue
        counts = [0] * n

        def comp(i):
            def f(x):
                counts[i] += 1
                return (i % 7) - 3 + 0.25 * (i % 3)
            return f
        ws = [((i * 37) % 11) - 5 + 0.5 * (i % 2) for i in range(n)]
        want = 0
        for i in range(n):
            want += ws[i] * ((i % 7) - 3 + 0.25 * (i % 3))
        rec = {'name': name, 'okey': 'many-components', 'input': {'n_components': n}, 'oracle': None}
        try:
            got = WeightedFunction(functions=[comp(i) for i in range(n)], weights=ws).pointer(x)
            if got != want or counts != [1] * n:
                rec['oracle'] = '%d components: value %r, expected %r; components not called exactly once: %d' % (n, got, want, sum(1 for c_ in counts if c_ != 1))
        except Exception as ex:  # noqa: BLE001
            rec['oracle'] = '%d components raised %s: %s' % (n, type(ex).__name__, ex)
        out.append(rec)
    # integer / bool weights with fractional component values: the weights' type must not leak into the component values
    for k, (ws, vals) in enumerate([([2, -1, 3], [0.5, 1.25, -0.75]), ([True, True, False], [0.3, 0.6, 9.9]), ([1], [0.9]), ([0, 7], [3.7, 0.1])]):
        name = 'int-weights-%d' % k
        if only and only != name:
            continue

        def constf(v):
            return lambda x: v
        want = 0
        for w, v in zip(ws, vals):
            want += w * v
        rec = {'name': name, 'okey': 'int-weights', 'input': {'weights': [repr(w) for w in ws], 'component values': vals}, 'oracle': None}
        try:
            got = WeightedFunction(functions=[constf(v) for v in vals], weights=list(ws)).pointer(x)
            if got != want:
                rec['oracle'] = 'integer / bool weights %r with component values %r: value %r, the sum of weight times component value is %r' % (ws, vals, got, want)
        except Exception as ex:  # noqa: BLE001
            rec['oracle'] = 'integer / bool weights %r raised %s: %s' % (ws, type(ex).__name__, ex)
        out.append(rec)
    # components that are decorated callables (functools.wraps): the callable handed over is the component, not what it wraps
    import functools
    for k, (sign, shift) in enumerate([(-1.0, 0.0), (1.0, 2.5), (-2.0, -1.0)]):
        name = 'decorated-%d' % k
        if only and only != name:
            continue
        calls = {'outer': 0, 'inner': 0}

        def inner(x):
            calls['inner'] += 1
            return float(np.sum(x ** 2))

        def deco(f, sign=sign, shift=shift):
            @functools.wraps(f)
            def outer(x):
                calls['outer'] += 1
                return sign * f(x) + shift
            return outer
        comp = deco(inner)
        want = 0
        want += 3.0 * (sign * float(np.sum(x ** 2)) + shift)
        rec = {'name': name, 'okey': 'decorated-callable', 'input': {'weights': [3.0], 'component': 'functools.wraps decorator: %r * f(x) + %r' % (sign, shift)},
               'oracle': None}
        try:
            got = WeightedFunction(functions=[comp], weights=[3.0]).pointer(x)
            if got != want or calls['outer'] != 1:
                rec['oracle'] = ('a component decorated with functools.wraps: value %r, expected %r (the decorated callable is the component); the '
                                 'decorated callable was called %d time(s), the wrapped function %d' % (got, want, calls['outer'], calls['inner']))
        except Exception as ex:  # noqa: BLE001
            rec['oracle'] = 'a component decorated with functools.wraps raised %s: %s' % (type(ex).__name__, ex)
        out.append(rec)
    return out


def main():
    p = hlib.payload()
    if p and 'extra' in p:
        hlib.prior_tasks(wide=False)
        hlib.emit({'extras': extras(only=p['extra'])})
        return
    if p and 'cases' in p:
        if not p.get('histories'):
            hlib.prior_tasks(wide=False)      # (a recorded history is replayed as it was found: in a process that offered nothing before)
        res = {'cases': [run_case(c) for c in p['cases']], 'seqs': [run_seq(c) for c in p.get('seqs', [])],
               'histories': [run_history(h) for h in p.get('histories', [])],
               'sweeps': [run_sweep(c) for c in p.get('sweeps', [])]}
        if p.get('interface'):
            res['interface'] = interface_check()
        if p.get('optimizers'):
            res['optimizers'] = optimizer_runs()
        hlib.emit(res)
        return
    seqs = gen_seqs()
    hs, sweeps = gen_histories()
    # the histories run first: nothing else has been offered to Function in this process yet
    hist_obs = [run_history(h) for h in hs]
    # ... and once more after a battery of ordinary tasks has built (and dropped) many Function objects of its own
    hlib.prior_tasks(wide=False)
    hist_obs += [run_history(h) for h in hs]
    hs = hs + hs
    hlib.emit({'history_inputs': hs, 'histories': hist_obs, 'sweep_inputs': sweeps, 'sweeps': [run_sweep(c) for c in sweeps],
               'cases': [run_case(c) for c in gen_cases()], 'seq_inputs': seqs, 'seqs': [run_seq(c) for c in seqs],
               'interface': interface_check(), 'optimizers': optimizer_runs(), 'extras': extras()})


if __name__ == '__main__':
    main()
