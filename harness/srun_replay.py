"""Re-run one S-run record against the current /repo and re-evaluate the property oracle.

stdin: the replay document written by ctx.report ({"property", "key", "replay": <record with "config">}) or a bare record.
stdout: `@@JSON {"fails": true|false, "same_key": ..., "violations": [...], "status": ...}`."""
import os
import sys

sys.path.insert(0, os.path.dirname(os.path.dirname(os.path.abspath(__file__))))
from harness import hlib, srun  # noqa: E402

doc = hlib.payload() or {}
rec = doc.get('replay', doc)
prop = doc.get('property') or rec.get('property')
key = doc.get('key') or rec.get('key')
cfg = rec.get('config') if isinstance(rec, dict) else None
if not cfg:
    hlib.emit({'fails': False, 'note': 'no concrete configuration recorded (broken obligation): ' + str(rec)[:600]})
else:
    res = srun.run_pool([cfg], 1)[0]
    if res['stats'].get('status') in ('timeout', 'killed'):        # confirm a hang once more with twice the limit
        res = srun.run_pool([dict(cfg, timeout=2 * float(cfg.get('timeout', 5)))], 1)[0]
    mine = [v for v in res['violations'] if v['property'] == prop]
    hlib.emit({'fails': bool(mine), 'same_key': any(v['key'] == key for v in mine), 'property': prop, 'key': key,
               'violations': [{k: v[k] for k in ('property', 'key', 'what', 'observed', 'expected')} for v in mine][:5],
               'other_properties': sorted({v['property'] + ':' + v['key'] for v in res['violations'] if v['property'] != prop}),
               'status': res['stats'].get('status'), 'error': res['stats'].get('error'), 'config': cfg})
