"""C15 (range part): the regenerated real-valued schedules against the implementation, and the
property oracle on the implementation itself.

stdin: {"items": [...translate/t3_sched.py items...], "mode": "run" | "replay", "case": {...}}

For every case (optimizer x hyperparameter corner x iteration count x population x forcing mode) the real
optimizer is run through Opytimizer.start with a pre-evaluation hook that reads every adaptive public
hyperparameter; it is read once more after start().  Observation 0 is the hook before the loop, observations
1..n_it the hooks inside the loop, observation n_it+1 the state at return.

 * correspondence: between two consecutive observations the regenerated schedule says how many writes
   happened (0 or 1, from `phase`) -- with 0 the value must be bit-identical, with 1 it must equal the
   float evaluation of the regenerated term (same operations, same order) within rel. 1e-12; for a term
   that mentions the counter p: for SOME integer p in 0..n_agents (the theorem quantifies over all of them);
 * oracle (the property text): range hyperparameters inside [lo, hi] at every observation, monotone ones
   never larger than at the previous observation and never negative; NaN fails both.

Records {key, what, replay, found_input} go back to props/_c15_sched.py.
"""
import importlib
import json
import math
import sys
import traceback

import numpy as np
from harness import hlib

from opytimizer import Opytimizer
from opytimizer.core.function import Function
from opytimizer.spaces.search import SearchSpace

RTOL = 1e-12

# the property text, per adaptive hyperparameter: declared range, or "never increases nor becomes negative"
ORACLE = {
    ('AIWPSO', 'w'): ('range', 'w_min', 'w_max'),
    ('IHS', 'PAR'): ('range', 'PAR_min', 'PAR_max'),
    ('IHS', 'bw'): ('range', 'bw_min', 'bw_max'),
    ('SA', 'T'): ('mono', lambda hp: hp['beta'] <= 1),
    ('FA', 'alpha'): ('mono', lambda hp: True),
    ('WCA', 'd_max'): ('mono', lambda hp: True),
}

NPF = {'np.exp': np.exp, 'np.log': np.log, 'np.sqrt': np.sqrt, 'np.abs': np.abs, 'np.fabs': np.fabs,
       'math.exp': math.exp, 'math.log': math.log, 'math.sqrt': math.sqrt, 'math.fabs': math.fabs, 'abs': abs}


class Undefined(Exception):
    pass


def ev(t, env):
    """Float evaluation of a regenerated term with the operations of the source, in source order."""
    k = t[0]
    if k == 'var':
        return env[t[1]]
    if k == 'const':
        lit = t[2]
        try:
            return int(lit)
        except ValueError:
            return float(lit)
    if k == 'neg':
        return -ev(t[1], env)
    if k == 'call':
        return NPF[t[1]](ev(t[2], env))
    a, b = ev(t[1], env), ev(t[2], env)
    if k == 'add':
        return a + b
    if k == 'sub':
        return a - b
    if k == 'mul':
        return a * b
    if k == 'div':
        return a / b
    if k == 'pow':
        return a ** b
    raise KeyError(k)


def defined(conds, env):
    """The regenerated definedness side condition, evaluated in floats."""
    for kind, t in conds:
        try:
            v = ev(t, env)
        except (ZeroDivisionError, ValueError, OverflowError):
            return False
        if v != v:
            return False
        if kind == 'ne0' and v == 0:
            return False
        if kind == 'gt0' and not v > 0:
            return False
        if kind == 'ge0' and not v >= 0:
            return False
    return True


def close(a, b):
    a, b = float(a), float(b)
    if a != a or b != b:
        return a != a and b != b
    if a == b:
        return True
    if math.isinf(a) or math.isinf(b):
        return False
    return abs(a - b) <= RTOL * max(abs(a), abs(b))


def objective(x):
    return np.sum(x ** 2) + 1.0          # np.float64, never 0 (WCA/SA divide by fitness differences)


def opt_class(item):
    mod = importlib.import_module(item.get('cls_file', item['file'])[:-3].replace('/', '.'))
    return getattr(mod, item['opt'])


def pyval(v):
    return v if isinstance(v, (int, float)) and not isinstance(v, np.generic) else float(v)


def run_case(case, items):
    """-> dict(obs=[{hp: value}], hp0={...all public numeric hyperparameters before start...}, exc=None|{...})"""
    its = [it for it in items if it['opt'] == case['opt']]
    cls = opt_class(its[0])
    np.random.seed(case['seed'] % (2 ** 32))
    nv = 2
    res = {'obs': [], 'hp0': None, 'exc': None, 'ctor_exc': None}
    try:
        space = SearchSpace(n_agents=case['n_agents'], n_variables=nv, n_iterations=case['n_it'],
                            lower_bound=[-5.0] * nv, upper_bound=[5.0] * nv)
        opt = cls(hyperparams=dict(case['hyperparams']))
        for name, val in case.get('post_set', []):
            setattr(opt, name, val)
    except Exception as ex:  # noqa: BLE001   the setting is rejected by the guards: not a valid setting
        res['ctor_exc'] = '%s: %s' % (type(ex).__name__, ex)
        return res
    names = sorted({it['hp'] for it in its})
    allv = set()
    for it in its:
        allv |= set(it.get('vars') or [])
    hpnames = sorted(allv - {'t', 'n_it', 'n_agents', 'p'} | set(names) | set(ORACLE_BOUNDS.get(case['opt'], ())))
    res['hp0'] = {n: getattr(opt, n) for n in hpnames}
    mode = case.get('mode', 'natural')
    calls = [0]

    def hook(o, sp, fn):
        res['obs'].append({n: getattr(o, n) for n in names})
        j = calls[0]
        calls[0] += 1
        if mode == 'all':       # every agent strictly improves at the next evaluation
            for a in sp.agents:
                a.position = np.full_like(a.position, 4.0 / (j + 1.0))
        elif mode == 'none':    # no agent improves after the first evaluation
            for a in sp.agents:
                a.position = np.full_like(a.position, min(5.0, 1.0 + j))
        elif mode == 'count':   # exactly p_j = (j - 1) mod (n + 1) agents improve at the evaluation after hook j >= 1
            pj = (j - 1) % (len(sp.agents) + 1) if j else len(sp.agents)
            for i, a in enumerate(sp.agents):
                a.position = np.full_like(a.position, 4.0 / (j + 1.0) if (i < pj or j == 0) else 5.0)

    try:
        Opytimizer(space=space, optimizer=opt, function=Function(pointer=objective)).start(pre_evaluation_hook=hook)
        res['obs'].append({n: getattr(opt, n) for n in names})
    except Exception as ex:  # noqa: BLE001
        tb = traceback.extract_tb(sys.exc_info()[2])
        frames = [(f.filename, f.name, f.lineno) for f in tb]
        res['exc'] = {'type': type(ex).__name__, 'msg': str(ex)[:200], 'frames': frames[-6:],
                      'partial': {n: repr(getattr(opt, n, None)) for n in names}}
    return res


ORACLE_BOUNDS = {'AIWPSO': ('w_min', 'w_max'), 'IHS': ('PAR_min', 'PAR_max', 'bw_min', 'bw_max'), 'SA': ('beta',)}


def writes_before(item, j, n_it):
    """Number of writes of this item that happened before observation j."""
    if j == 0:
        return 0
    if j == n_it + 1:
        return n_it
    if item.get('tree') is None:          # untranslated write: position relative to the hook unknown
        return j if j > 1 else 0
    return j if item['phase'] == 'pre' else j - 1


def check_case(case, items, stats):
    """-> list of records for this case."""
    recs = []
    r = run_case(case, items)
    if r['ctor_exc'] is not None:
        stats['rejected'] += 1
        return recs, r
    its = [it for it in items if it['opt'] == case['opt']]
    n_it = case['n_it']
    hp0 = r['hp0']

    def rec(key, what, found_input=True, **extra):
        if key in [x['key'] for x in recs]:
            return                  # one record per key and case
        d = {'key': key, 'what': what, 'found_input': found_input,
             'replay': dict({'kind': 'c15_sched', 'case': case, 'key': key}, **extra)}
        recs.append(d)

    if r['exc'] is not None:
        ex = r['exc']
        # which adaptive write (if any) raised: the setter of the hyperparameter, or the write statement itself
        hit = None
        for it in its:
            for fname, func, line in ex['frames']:
                if fname.replace('\\', '/').endswith(it['file']) and (it['line'] <= line <= it.get('end_line', it['line'])
                                                                        or func == it['hp']):
                    hit = it
            if hit:
                break
        if hit is None:
            stats['crashes'].append({'case': case, 'exc': ex['type'] + ': ' + ex['msg']})
            return recs, r
        env0 = dict(hp0)
        key = special_key(case['opt'], hit['hp'], env0) or '%s:%s:write-raises' % (case['opt'], hit['hp'])
        rec(key, '%s.%s: the adaptive write `%s` (%s:%d) raised %s: %s after %d observations -- the schedule leaves the '
            'domain of its own arithmetic / setter for a setting accepted by the guards (hyperparams %s)'
            % (case['opt'], hit['hp'], hit['text'], hit['file'], hit['line'], ex['type'], ex['msg'], len(r['obs']),
               fmt_hp(hp0)), observed=ex)
        return recs, r
    obs = r['obs']
    if len(obs) != n_it + 2:
        rec('corr:%s:hook-count' % case['opt'], 'expected %d observations (hook before the loop, one per iteration, return), got %d'
            % (n_it + 2, len(obs)), found_input=False)
        return recs, r
    for it in its:
        hp = it['hp']
        seq = [o[hp] for o in obs]
        stats['observations'] += len(seq)
        kind = ORACLE.get((case['opt'], hp))
        # ---- correspondence with the regenerated term (skipped for a write the translator rejected)
        for j in range(len(seq) - 1 if it.get('tree') is not None else 0):
            k0, k1 = writes_before(it, j, n_it), writes_before(it, j + 1, n_it)
            a, b = seq[j], seq[j + 1]
            stats['comparisons'] += 1
            if k1 == k0:
                same = (a == b) or (a != a and b != b)
                if not same:
                    rec('corr:%s.%s' % (case['opt'], hp),
                        '%s.%s changed between observations %d and %d (%r -> %r) where the regenerated program has no write'
                        % (case['opt'], hp, j, j + 1, a, b), found_input=False, theorem='%s_%s_after_hook' % (case['opt'].lower(), hp))
                continue
            env = dict(hp0)
            env.update({hp: a, 't': k0, 'n_it': n_it, 'n_agents': case['n_agents']})
            cands = range(0, case['n_agents'] + 1) if 'p' in it['vars'] else [None]
            ok = False
            undefined = False
            exp_vals = []
            for p in cands:
                if p is not None:
                    env['p'] = p
                if not defined(it['conds'], env):
                    undefined = True
                    continue
                try:
                    e = ev(it['tree'], env)
                except (ZeroDivisionError, OverflowError, ValueError):
                    undefined = True
                    continue
                exp_vals.append(e)
                if close(e, b):
                    ok = True
                    break
            if undefined and not ok:
                stats['undefined'] += 1
                continue           # the model says nothing here; the oracle below judges the implementation
            if ok:
                stats['agree'] += 1
                if p is not None:
                    stats['p_seen'].add((p, case['n_agents']))
            else:
                rec('corr:%s.%s' % (case['opt'], hp),
                    '%s.%s after write %d: implementation %r, regenerated schedule %s (old value %r, %s)'
                    % (case['opt'], hp, k0, b, [float(x) for x in exp_vals[:5]], a, fmt_hp(hp0)),
                    found_input=False, theorem='Gen.Schedules.%s_%s_next' % (case['opt'].lower(), hp))
        # ---- the property oracle on the implementation
        if kind is None:
            rec('%s:%s:unexpected-adaptive' % (case['opt'], hp), 'adaptive hyperparameter %s.%s has no clause in the property' % (case['opt'], hp),
                found_input=False)
            continue
        if kind[0] == 'range':
            lo, hi = hp0[kind[1]], hp0[kind[2]]
            if not lo <= hi:
                # an inverted (empty) declared range is not a valid setting for C15: nothing can lie in it.
                # (That the setters accept it is a guard matter, property C14.)  The matrix never generates one.
                stats['premise_false'] += 1
                continue
            for j, v in enumerate(seq):
                stats['oracle_checks'] += 1
                fv = float(v)
                if lo <= fv <= hi:
                    continue
                nwr = writes_before(it, j, n_it)
                sk = special_key(case['opt'], hp, hp0)
                if sk and nwr > 0:
                    key = sk
                elif nwr == 0:
                    key = '%s:%s:initial-outside-range' % (case['opt'], hp)
                elif fv == fv and (close(fv, lo) or close(fv, hi)):
                    key = '%s:%s:rounding-outside-range:%s' % (case['opt'], hp, circumstance(it, hp0, lo, hi, fv, nwr - 1, n_it,
                                                                                           case['n_agents']))
                else:
                    key = '%s:%s:out-of-range' % (case['opt'], hp)
                rec(key, '%s.%s = %r at observation %d (%s; %d writes so far) is outside [%s, %s] = [%r, %r]; n_iterations = %d, '
                    'n_agents = %d, %s' % (case['opt'], hp, v, j, obs_name(j, n_it), nwr, kind[1], kind[2], lo, hi, n_it,
                                           case['n_agents'], fmt_hp(hp0)), observed=[repr(x) for x in seq])
        else:
            if not kind[1](hp0):
                stats['premise_false'] += 1
                continue
            for j, v in enumerate(seq):
                stats['oracle_checks'] += 1
                fv = float(v)
                bad = None
                if fv != fv:
                    bad = 'nan'
                elif fv < 0:
                    bad = 'negative'
                elif j > 0 and not fv <= float(seq[j - 1]):
                    bad = 'increases'
                if bad:
                    rec('%s:%s:%s' % (case['opt'], hp, bad),
                        '%s.%s = %r at observation %d (%s) after %r: the value %s; n_iterations = %d, %s'
                        % (case['opt'], hp, v, j, obs_name(j, n_it), seq[j - 1] if j else None,
                           {'nan': 'is NaN', 'negative': 'is negative', 'increases': 'increased'}[bad], n_it, fmt_hp(hp0)),
                        observed=[repr(x) for x in seq])
                    break
    return recs, r


def circumstance(it, hp0, lo, hi, v, t, n_it, n_agents):
    """Which kind of write produced an ulp-level excursion -- a recorded finding covers only its own kind:
    degenerate-range (lo == hi) | p=n, p=0, interior (counter schedules) | first-/last-iteration, interior."""
    if lo == hi:
        return 'degenerate-range'
    if 'p' in (it.get('vars') or []) and it.get('tree') is not None:
        env = dict(hp0)
        env.update({'t': t, 'n_it': n_it, 'n_agents': n_agents})
        for p in range(n_agents + 1):
            env['p'] = p
            try:
                if defined(it['conds'], env) and close(ev(it['tree'], env), v) and float(ev(it['tree'], env)) == float(v):
                    return 'p=n' if p == n_agents else ('p=0' if p == 0 else 'interior')
            except (ZeroDivisionError, OverflowError, ValueError, KeyError):
                pass
        return 'unmatched'
    if t <= 0:
        return 'first-iteration'
    return 'last-iteration' if t >= n_it - 1 else 'interior'


def special_key(opt, hp, hp0):
    if opt == 'IHS' and hp == 'bw' and hp0.get('bw_min') == 0:
        return 'IHS:bw_min=0'
    if opt == 'IHS' and hp == 'bw' and 0 < hp0.get('bw_min', 1) <= hp0.get('bw_max', 1) \
            and hp0['bw_min'] / hp0['bw_max'] == 0.0:
        return 'IHS:bw_min/bw_max-underflows-to-0'       # float range only: the real-valued schedule is defined
    return None


def obs_name(j, n_it):
    if j == 0:
        return 'hook before the loop'
    if j == n_it + 1:
        return 'after start()'
    return 'hook of iteration t=%d' % (j - 1)


def fmt_hp(hp0):
    return 'hyperparameters ' + ', '.join('%s=%r' % (k, pyval(v)) for k, v in sorted(hp0.items()))


# ---------------------------------------------------------------- the case matrix

def corners(opt, rnd, quick):
    """[(hyperparams, post_set, tag)] -- settings accepted by the guards, always with min <= max for every
    declared range (C15 quantifies over valid settings; an empty range is not one)."""
    out = []
    if opt == 'AIWPSO':
        out += [({}, [], 'default'),
                ({'w_min': 0, 'w_max': 0, 'w': 0}, [], 'degenerate-0'),
                ({'w_min': 0.4, 'w_max': 0.4, 'w': 0.4}, [], 'degenerate'),
                ({'w_min': 0, 'w_max': 1}, [], 'int-bounds'),
                ({'w_min': 0.3, 'w_max': 2.5, 'w': 1.0}, [], 'wide'),
                ({'w_min': 1e-3, 'w_max': 1e3, 'w': 1.0}, [], 'huge'),
                ({'w_min': 0.8, 'w_max': 0.9}, [], 'initial-w-below'),
                ({'w': 5.0}, [], 'initial-w-above'),
                ({'w_min': 0.4, 'w_max': 0.4}, [], 'degenerate-initial-w-outside')]
        for i in range(10 if quick else 60):
            a = round(rnd.uniform(0, 2), rnd.choice([1, 3, 17]))
            b = a + round(rnd.uniform(0, 2), rnd.choice([1, 3, 17]))
            out.append(({'w_min': a, 'w_max': b, 'w': a}, [], 'random'))
    elif opt == 'IHS':
        out += [({}, [], 'default'),
                ({'PAR_min': 0.2, 'PAR_max': 0.2, 'PAR': 0.2, 'bw_min': 0.5, 'bw_max': 0.5, 'bw': 0.5}, [], 'degenerate'),
                ({'PAR_min': 0.3, 'PAR_max': 0.9, 'bw_min': 1e-6, 'bw_max': 1e3}, [], 'wide'),
                ({'PAR_min': 0, 'PAR_max': 0, 'PAR': 0}, [], 'PAR-0'),
                ({'PAR_min': 1, 'PAR_max': 1, 'PAR': 1, 'bw_min': 1e-300, 'bw_max': 1e300}, [], 'PAR-1-bw-extreme'),
                ({'bw_min': 0, 'bw_max': 5}, [], 'bw_min=0'),
                ({'bw_min': 0, 'bw_max': 0, 'bw': 0}, [], 'bw_min=bw_max=0'),
                ({'PAR_min': 0.8, 'PAR_max': 0.9}, [], 'initial-PAR-below'),
                ({'bw_min': 2, 'bw_max': 3}, [], 'initial-bw-below'),
                # a constant bandwidth / pitch rate given as a degenerate range while the inherited HS value is left alone: the first
                # in-loop write must still bring the value into the (one-point) range
                ({'bw_min': 5.0, 'bw_max': 5.0}, [], 'degenerate-initial-bw-outside'),
                ({'PAR_min': 0.2, 'PAR_max': 0.2}, [], 'degenerate-initial-PAR-outside')]
        for i in range(8 if quick else 40):
            a = round(rnd.uniform(0, 1), 3)
            b = round(rnd.uniform(a, 1), 3)
            c = round(10 ** rnd.uniform(-6, 2), 6)
            d = round(c * 10 ** rnd.uniform(0, 4), 6)
            out.append(({'PAR_min': a, 'PAR_max': b, 'PAR': a, 'bw_min': c, 'bw_max': d, 'bw': c}, [], 'random'))
    elif opt == 'SA':
        out += [({}, [], 'default'), ({'beta': 1}, [], 'beta=1'), ({'beta': 0}, [], 'beta=0'), ({'T': 0}, [], 'T=0'),
                ({'T': 1e-300, 'beta': 1e-200}, [], 'underflow'), ({'T': 5e-324, 'beta': 0.5}, [], 'subnormal-to-zero'),
                ({'T': 1e-310, 'beta': 1e-20}, [], 'subnormal-underflow'), ({'T': 3e-323, 'beta': 0.999}, [], 'subnormal-slow'), ({'T': 1e300, 'beta': 0.5}, [], 'huge'),
                ({'T': 5, 'beta': 1.0}, [], 'float-1'), ({'T': 3.5, 'beta': 1.5}, [], 'beta>1 (no claim)')]
        for i in range(8 if quick else 40):
            out.append(({'T': round(10 ** rnd.uniform(-3, 3), 4), 'beta': round(rnd.uniform(0, 1), rnd.choice([2, 6, 17]))}, [], 'random'))
    elif opt == 'FA':
        out += [({}, [], 'default'), ({'alpha': 0}, [], 'alpha=0'), ({'alpha': 1e-300}, [], 'tiny'), ({'alpha': 5e-324}, [], 'subnormal'),
                ({'alpha': 7.0}, [], 'large'), ({'alpha': 1e300}, [], 'huge')]
        for i in range(6 if quick else 30):
            out.append(({'alpha': round(10 ** rnd.uniform(-3, 2), 5)}, [], 'random'))
    elif opt == 'WCA':
        out += [({}, [], 'default'), ({'d_max': 0}, [], 'd_max=0'), ({'d_max': 1e-300}, [], 'tiny'),
                ({'d_max': 5e-324}, [], 'subnormal'), ({'d_max': 2.5}, [], 'large'), ({'d_max': 1e300}, [], 'huge')]
        for i in range(6 if quick else 30):
            out.append(({'d_max': round(10 ** rnd.uniform(-4, 1), 6)}, [], 'random'))
    else:
        out.append(({}, [], 'default'))
    return out


def matrix(items, quick):
    rnd = hlib.rng('c15_sched')
    opts = sorted({it['opt'] for it in items})
    n_its = [1, 2, 3, 7] if quick else [1, 2, 3, 7, 25, 100]
    cases = []
    for opt in opts:
        modes = ['natural', 'all', 'none'] if opt == 'AIWPSO' or any('p' in (it.get('vars') or []) for it in items if it['opt'] == opt) \
            else ['natural']
        pops = [4] if quick else [4, 7]
        if opt == 'AIWPSO':
            pops = [1, 4] if quick else [1, 3, 4, 7]
        for hp, post, tag in corners(opt, rnd, quick):
            for n_it in n_its:
                for mode in modes:
                    for na in pops:
                        if opt == 'WCA' and na < 4:
                            continue
                        cases.append({'opt': opt, 'hyperparams': hp, 'post_set': post, 'tag': tag, 'n_it': n_it,
                                      'n_agents': na, 'mode': mode, 'seed': rnd.randrange(2 ** 31)})
    return cases


def main():
    pl = hlib.payload() or {}
    items = pl.get('items', [])
    stats = {'rejected': 0, 'crashes': [], 'observations': 0, 'comparisons': 0, 'agree': 0, 'undefined': 0,
             'oracle_checks': 0, 'premise_false': 0, 'p_seen': set()}
    if pl.get('mode') == 'replay':
        recs, r = check_case(pl['case'], items, stats)
        want = pl.get('key')
        same = [x for x in recs if x['key'] == want] if want else recs
        hlib.emit({'fails': bool(same), 'records': recs[:5], 'observed': [{k: repr(v) for k, v in o.items()} for o in r['obs']],
                   'exc': r['exc'], 'ctor_exc': r['ctor_exc']})
        return
    cases = matrix(items, hlib.QUICK)
    records = []
    per_key = {}
    dist = {}
    samples = []
    nontrivial = 0
    seen_cfg = set()
    for case in cases:
        recs, r = check_case(case, items, stats)
        k = '%s/%s' % (case['opt'], case['tag'].split(' ')[0])
        dist[k] = dist.get(k, 0) + 1
        if r['obs'] and len(r['obs']) > 2 and any(repr(r['obs'][0]) != repr(o) for o in r['obs'][1:]):
            sig = json.dumps([case['opt'], case['hyperparams'], case['post_set'], case['n_it'], case['n_agents'], case['mode']],
                             sort_keys=True)
            if sig not in seen_cfg:          # distinct configurations in which an adaptive hyperparameter changed
                seen_cfg.add(sig)
                nontrivial += 1
        if len(samples) < 5 and case['n_it'] == 3 and case['tag'] == 'default' and case['mode'] == 'natural' \
                and case['opt'] not in [s['opt'] for s in samples]:
            samples.append({'opt': case['opt'], 'n_it': 3, 'observed': [{k2: pyval(v) for k2, v in o.items()} for o in r['obs']]})
        for x in recs:
            per_key[x['key']] = per_key.get(x['key'], 0) + 1
            if per_key[x['key']] <= 2:
                records.append(x)
    hlib.emit({'cases': len(cases), 'records': records, 'per_key': per_key, 'dist': dist, 'samples': samples,
               'nontrivial': nontrivial, 'rejected': stats['rejected'], 'crashes': stats['crashes'][:10],
               'n_crashes': len(stats['crashes']), 'observations': stats['observations'], 'comparisons': stats['comparisons'],
               'agree': stats['agree'], 'undefined': stats['undefined'], 'oracle_checks': stats['oracle_checks'],
               'premise_false': stats['premise_false'], 'p_seen': sorted(stats['p_seen'])})


if __name__ == '__main__':
    main()
