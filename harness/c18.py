"""C18 harness: the primitives of math/random.py, math/distribution.py, math/general.py under scripted NumPy
answers (correspondence with Model/Prims.v + property oracle) and under the real generator (property oracle).

stdin payload: {} -> generate everything; {"replay": {...}} -> re-run one recorded case."""
import math
import numpy as np
from harness import hlib
from harness.hlib import key, unkey, nextafter

import opytimizer.math.random as rnd
import opytimizer.math.distribution as dist
import opytimizer.math.general as gen
import opytimizer.utils.constants as const

INF = float('inf')
NAN = float('nan')
PV = [0.0, -0.0, 5e-324, 0.25, nextafter(0.5, 0.0), 0.5, nextafter(0.5, 1.0), nextafter(1.0, 0.0), 1.0,
      nextafter(1.0, 2.0), -0.1, 1.5, NAN]
FV = [-2.0, -1.5, -0.0, 0.0, 1.0, 3.0, -INF, INF, 1e-300, -1e-300, 5e-324, -5e-324, 2.5]


class Patch:
    """temporarily replace np.random.<name>"""

    def __init__(self, name, fn):
        self.name, self.fn = name, fn

    def __enter__(self):
        self.orig = getattr(np.random, self.name)
        setattr(np.random, self.name, self.fn)
        return self

    def __exit__(self, *a):
        setattr(np.random, self.name, self.orig)


def same_float(a, b):
    return key(a) == key(b)


# ------------------------------------------------------------------ Bernoulli (scripted uniform)

def run_bern(p, us):
    calls = []

    def uniform(low=0.0, high=1.0, size=None):
        calls.append([float(low), float(high), size if isinstance(size, int) else repr(size)])
        n = 1 if size is None else int(np.prod(size))
        return np.array(us[:n], dtype=float).reshape(size if size is not None else ())
    with Patch('uniform', uniform):
        try:
            out = dist.generate_bernoulli_distribution(p, len(us))
        except Exception as ex:  # noqa: BLE001
            return {'raised': type(ex).__name__ + ': ' + str(ex)[:200], 'calls': calls}
    out = np.asarray(out)
    return {'shape': list(out.shape), 'out': [float(v) for v in out.ravel()], 'calls': calls}


def bern_oracle(p, us, res):
    if 'raised' in res:
        return 'bernoulli:raises', 'generate_bernoulli_distribution(%r, %d) raised %s' % (p, len(us), res['raised'])
    out = res['out']
    if res['shape'] != [len(us)]:
        return 'bernoulli:shape', 'shape %s for size %d' % (res['shape'], len(us))
    if any(not (v == 0.0 or v == 1.0) for v in out):
        return 'bernoulli:01', 'entries other than 0 and 1: %s' % out
    if p == 0.0 and all(u >= 0.0 for u in us) and any(v != 0.0 for v in out):
        return 'bernoulli:p0', 'probability 0 with draws %s (all >= 0) gives %s, not all 0' % (us, out)
    if p == 1.0 and all(u < 1.0 for u in us) and any(v != 1.0 for v in out):
        return 'bernoulli:p1', 'probability 1 with draws %s (all < 1) gives %s, not all 1' % (us, out)
    return None, None


def bern_cases():
    r = hlib.rng('c18bern')
    groups = []        # (us, [p...])  : one stream, several probabilities (monotonicity)
    groups.append((list(PV), list(PV)))
    # legal draws only (every one in [0, 1)), including the ones closest to 1 and closest to the thresholds: probability 1 gives all ones,
    # probability 0 all zeros, and a draw just below a threshold counts as below it (nothing may round the stream before comparing)
    legal = [0.0, 5e-324, 0.25, nextafter(0.5, 0.0), 0.5, nextafter(0.5, 1.0), 0.2999999999, 1.0 - 1e-10, 1.0 - 2.0 ** -30, nextafter(1.0, 0.0)]
    groups.append((legal, [0.0, 1.0, 0.5, nextafter(0.5, 1.0), 0.3, 1.0 - 2.0 ** -40, nextafter(1.0, 0.0)]))
    groups.append(([nextafter(1.0, 0.0)] * 5, [1.0, nextafter(1.0, 0.0), 0.0]))
    n = 60 if hlib.QUICK else 700
    for _ in range(n):
        size = r.randint(0, 8)
        us = []
        for _ in range(size):
            c = r.random()
            us.append(r.choice(PV) if c < 0.25 else r.random() if c < 0.9 else 0.0)
        ps = []
        for _ in range(r.randint(1, 4)):
            c = r.random()
            if c < 0.35 and us:
                ps.append(r.choice(us))                        # threshold exactly at a stream value
            elif c < 0.5 and us:
                u = r.choice(us)
                ps.append(u if u != u else nextafter(u, r.choice([-INF, INF])))
            elif c < 0.65:
                ps.append(r.choice([0.0, 1.0, -0.0]))
            elif c < 0.75:
                ps.append(r.choice(PV))
            else:
                ps.append(r.random())
        groups.append((us, ps))
    rows, viol = [], []
    for us, ps in groups:
        results = []
        for p in ps:
            res = run_bern(p, us)
            k, msg = bern_oracle(p, us, res)
            row = {'p': key(p), 'us': [key(u) for u in us], 'res': res, 'oracle': msg, 'okey': k,
                   'args_ok': res.get('calls') == [[0.0, 1.0, len(us)]]}
            rows.append(row)
            results.append((p, res))
        # monotone in p for the fixed stream
        good = [(p, res['out']) for p, res in results if p == p and 'out' in res and len(res['out']) == len(us)]
        for (p, a) in good:
            for (q, b) in good:
                if p <= q and any(x > y for x, y in zip(a, b)):
                    viol.append({'okey': 'bernoulli:monotone', 'oracle': 'p=%r <= q=%r on the same stream %s but %s is not <= %s'
                                 % (p, q, us, a, b), 'p': key(p), 'q': key(q), 'us': [key(u) for u in us]})
    return rows, viol


# ------------------------------------------------------------------ tournament (scripted choice)

def run_tournament(fit, as_array, n, script):
    used = []
    bad_arg = []

    def choice(a, *args, **kw):
        if args or kw:
            bad_arg.append('extra arguments')
        j = script[len(used)]
        used.append(j)
        if isinstance(a, (int, np.integer)):
            if int(a) != len(fit):
                bad_arg.append('choice(%r)' % a)
            return np.arange(a)[j]
        arr = np.asarray(a)
        if arr.shape != (len(fit),) or any(not same_float(x, y) for x, y in zip(arr, fit)):
            bad_arg.append('choice over something else than fitness')
        return arr[j]
    f = np.array(fit, dtype=float) if as_array else [float(v) for v in fit]
    with Patch('choice', choice):
        try:
            sel = gen.tournament_selection(f, n)
        except Exception as ex:  # noqa: BLE001
            return {'raised': type(ex).__name__ + ': ' + str(ex)[:200], 'used': len(used)}
    try:
        sel_l = [int(s) for s in sel]
        exact = all(float(s) == int(s) for s in sel)
    except Exception:  # noqa: BLE001
        return {'raised': 'result is not a list of integers: %r' % (sel,), 'used': len(used)}
    return {'sel': sel_l, 'used': len(used), 'bad_arg': bad_arg, 'exact': exact}


def tour_oracle(fit, n, script, res, ts):
    if 'raised' in res:
        return 'tournament:raises', 'tournament_selection(%s, %d) raised %s' % (fit, n, res['raised'])
    sel = res['sel']
    if len(sel) != n or not res['exact']:
        return 'tournament:count', '%d indices returned for n = %d: %s' % (len(sel), n, sel)
    for r_, i in enumerate(sel):
        if not (0 <= i < len(fit)):
            return 'tournament:valid', 'index %d is not a position of a fitness list of length %d' % (i, len(fit))
        drawn = script[r_ * ts:(r_ + 1) * ts]
        m = min(fit[j] for j in drawn)
        first = [k for k, v in enumerate(fit) if v == m][0]
        if not fit[i] == m:
            return 'tournament:minimum', ('round %d drew individuals %s (fitness %s) but selected index %d with fitness %r, '
                                          'not the minimum %r' % (r_, drawn, [fit[j] for j in drawn], i, fit[i], m))
        if i != first:
            return 'tournament:first', ('round %d: minimum fitness %r is first held at index %d, selected index %d'
                                        % (r_, m, first, i))
    if res['used'] != n * ts:
        return 'tournament:round-size', ('%d draws consumed for n = %d selections with TOURNAMENT_SIZE = %d (expected %d)'
                                         % (res['used'], n, ts, n * ts))
    return None, None


def wide_rows(which=None):
    """Fitness vectors in types wider than a double -- Python ints / np.int64 above 2**53 that differ by 1, np.longdouble values that
    differ below one double ulp: the comparisons of a round are made on the values as given (oracle only: outside the binary64 model)."""
    ld = np.longdouble
    e = ld(2) ** -60
    fams = {
        'bigint-list': [2 ** 53 + 2, 2 ** 53 + 1, 2 ** 53, 2 ** 53 + 3],
        'bigint-int64-array': np.array([2 ** 60 + 1, 2 ** 60, 2 ** 60 + 2], dtype=np.int64),
        'longdouble-array': np.array([ld(1) + 2 * e, ld(1) + e, ld(1), ld(1) + 3 * e], dtype=ld),
        'longdouble-list': [ld(5) + e, ld(5), ld(5) + 2 * e],
    }
    ts = int(const.TOURNAMENT_SIZE)
    out = []
    for name, fit in fams.items():
        if which and name != which:
            continue
        L = len(fit)
        n = 4
        script = [(3 * k + k // ts) % L for k in range(n * ts)]
        used = []

        def choice(a, *args, **kw):
            j = script[len(used)]
            used.append(j)
            return np.arange(a)[j] if isinstance(a, (int, np.integer)) else np.asarray(a)[j]       # what np.random.choice hands back: an array element
        with Patch('choice', choice):
            try:
                sel = [int(v) for v in gen.tournament_selection(fit, n)]
            except Exception as ex:  # noqa: BLE001
                out.append({'okey': 'tournament:wide-type:raises', 'family': name,
                            'oracle': 'tournament_selection over %s raised %s: %s' % (name, type(ex).__name__, str(ex)[:120])})
                continue
        msg = None
        for r_, i in enumerate(sel):
            drawn = script[r_ * ts:(r_ + 1) * ts]
            m = min(fit[j] for j in drawn)
            first = [k for k in range(L) if fit[k] == m][0]
            if i != first:
                msg = ('%s: round %d drew positions %s, the minimum of their fitnesses is first held at position %d, selected position %d '
                       '(the values differ by less than a double can tell apart)' % (name, r_, drawn, first, i))
                break
        if len(sel) != n:
            msg = '%s: %d indices for n = %d' % (name, len(sel), n)
        out.append({'okey': 'tournament:wide-type' if msg else None, 'family': name, 'oracle': msg})
    return out


def tour_cases():
    r = hlib.rng('c18tour')
    ts = int(const.TOURNAMENT_SIZE)
    rows = []
    n_cases = 200 if hlib.QUICK else 3000
    for c in range(n_cases):
        L = r.randint(1, 7)
        pool = r.sample(FV, r.randint(1, min(4, len(FV))))          # few distinct values -> ties
        if r.random() < 0.3:
            pool = pool + [float(r.randint(-3, 3)) for _ in range(2)]
        fit = [r.choice(pool) for _ in range(L)]
        n = r.randint(0, 5)
        script = [r.randrange(L) for _ in range(n * max(ts, 1) + 4)]
        res = run_tournament(fit, c % 2 == 0, n, script)
        k, msg = tour_oracle(fit, n, script, res, ts) if ts >= 1 else (None, None)
        rows.append({'fit': [key(v) for v in fit], 'as_array': c % 2 == 0, 'n': n, 'script': script, 'res': res,
                     'oracle': msg, 'okey': k, 'ts': ts, 'family': 'ties'})
    rows += near_tie_rows(r, ts)
    rows += size_history_rows(r)
    # SCALE: large populations and many rounds (thresholds, index types, accumulated state only show beyond toy sizes)
    for (L, n) in ([(300, 40), (1000, 7), (300, 41)] if hlib.QUICK else [(300, 40), (1000, 7), (300, 41), (5000, 3), (64, 700), (257, 257)]):
        fit = [float(r.randint(-50, 50)) for _ in range(L)]
        script = [r.randrange(L) for _ in range(n * max(ts, 1) + 4)]
        if (L, n) == (300, 41):
            # the fitter individuals sit at the HIGH positions and only those are drawn: every winner is a position above 255
            fit = [float(L - i) for i in range(L)]
            script = [r.randrange(L - 40, L) for _ in range(n * max(ts, 1) + 4)]
        res = run_tournament(fit, True, n, script)
        k, msg = tour_oracle(fit, n, script, res, ts) if ts >= 1 else (None, None)
        rows.append({'fit': [key(v) for v in fit], 'as_array': True, 'n': n, 'script': script, 'res': res,
                     'oracle': msg, 'okey': k, 'ts': ts, 'family': 'scale'})
    return rows


# near-tied DISTINCT fitness values, the larger one at the LOWER index, with exact ties and signed zeros mixed in:
# the winner must be located by exact equality with the round minimum
NEAR = [(1.0 + 1e-9, 1.0), (2e-9, 1e-9), (1e5 + 1e-3, 1e5), (-1.0, -1.0 - 1e-9), (3.0000001, 3.0), (1e-300, 5e-324),
        (0.0, -0.0), (1.0, 1.0), (nextafter(2.0, 3.0), 2.0)]


def tour_row(fit, as_array, n, script, ts, family, reassigned=False):
    res = run_tournament(fit, as_array, n, script)
    k, msg = tour_oracle(fit, n, script, res, ts) if ts >= 1 else (None, None)
    return {'fit': [key(v) for v in fit], 'as_array': as_array, 'n': n, 'script': script, 'res': res, 'oracle': msg,
            'okey': k, 'ts': ts, 'family': family, 'reassigned': reassigned}


def near_tie_rows(r, ts):
    rows = []
    reps = 1 if hlib.QUICK else 8
    for rep in range(reps):
        for hi, lo in NEAR:
            pad = [r.choice([7.0, 9.5, 1e9]) for _ in range(r.randint(0, 2))]
            fit = [hi] + pad + [lo] + [r.choice([hi, lo, 8.0]) for _ in range(r.randint(0, 2))]
            L = len(fit)
            win = 1 + len(pad)                        # first position of the smaller value
            n = r.randint(1, 4)
            script = []
            for _ in range(n):
                rnd_ = [win] + [r.choice([0, win, r.randrange(L)]) for _ in range(max(ts, 1) - 1)]
                r.shuffle(rnd_)
                script += rnd_
            script += [r.randrange(L) for _ in range(4)]
            rows.append(tour_row(fit, rep % 2 == 0, n, script, ts, 'near-tie'))
    return rows


def size_history_rows(r):
    """re-assign constants.TOURNAMENT_SIZE (and restore it): rounds must draw that many individuals from then on"""
    rows = []
    orig = const.TOURNAMENT_SIZE
    sizes = [3, 5, 1, orig] if hlib.QUICK else [3, 5, 1, 4, orig, 7, 1, orig]
    try:
        for ts in sizes:
            const.TOURNAMENT_SIZE = ts
            for c in range(6 if hlib.QUICK else 25):
                L = r.randint(2, 7)
                fit = [r.choice(FV[:6]) if r.random() < 0.5 else float(r.randint(-4, 4)) for _ in range(L)]
                n = r.randint(1, 4)
                script = [r.randrange(L) for _ in range(n * ts + 4)]
                rows.append(tour_row(fit, c % 2 == 0, n, script, ts, 'size-history', reassigned=True))
    finally:
        const.TOURNAMENT_SIZE = orig
    return rows


# ------------------------------------------------------------------ pairwise

def run_pairwise(vals, kind):
    src = {'list': list(vals), 'tuple': tuple(vals), 'gen': (v for v in vals), 'array': np.array(vals, dtype=int)}[kind]
    try:
        out = [tuple(t) for t in gen.pairwise(src)]
    except Exception as ex:  # noqa: BLE001
        return {'raised': type(ex).__name__ + ': ' + str(ex)[:200]}
    return {'out': [[int(v) for v in t] for t in out]}


def pair_oracle(vals, res):
    if 'raised' in res:
        return 'pairwise:raises', 'pairwise(%s) raised %s' % (vals, res['raised'])
    out = res['out']
    flat = [v for t in out for v in t]
    if flat != list(vals[:len(flat)]):
        return 'pairwise:consecutive', 'pairwise(%s) yields %s: not consecutive disjoint items of the input' % (vals, out)
    short = [t for t in out if len(t) != 2]
    if short:
        if len(vals) % 2 == 1 and short == [out[-1]] and out[-1] == [vals[-1]] and len(flat) == len(vals):
            return 'pairwise:odd-length-final-singleton', ('pairwise(%s) yields %s: the last item comes out as a 1-tuple, not a pair'
                                                           % (vals, out))
        return 'pairwise:pairs', 'pairwise(%s) yields %s: items that are not pairs' % (vals, out)
    if len(flat) < len(vals) - 1:
        return 'pairwise:consecutive', 'pairwise(%s) yields %s: pairs are missing' % (vals, out)
    return None, None


def pair_cases():
    r = hlib.rng('c18pair')
    rows = []
    for L in range(0, 10):
        for kind in ('list', 'tuple', 'gen', 'array'):
            vals = [r.randint(-50, 50) for _ in range(L)] if kind != 'list' else list(range(1, L + 1))
            res = run_pairwise(vals, kind)
            k, msg = pair_oracle(vals, res)
            rows.append({'vals': vals, 'kind': kind, 'res': res, 'oracle': msg, 'okey': k})
    for L in ([1000, 257] if hlib.QUICK else [1000, 257, 4097, 10001]):          # SCALE
        vals = [r.randint(-10 ** 6, 10 ** 6) for _ in range(L)]
        res = run_pairwise(vals, 'list')
        k, msg = pair_oracle(vals, res)
        rows.append({'vals': vals, 'kind': 'list', 'res': res, 'oracle': msg, 'okey': k})
    if not hlib.QUICK:
        for _ in range(200):
            L = r.randint(0, 40)
            vals = [r.randint(-10 ** 6, 10 ** 6) for _ in range(L)]
            res = run_pairwise(vals, 'list')
            k, msg = pair_oracle(vals, res)
            rows.append({'vals': vals, 'kind': 'list', 'res': res, 'oracle': msg, 'okey': k})
    return rows


# ------------------------------------------------------------------ Levy (scripted normal)

def mantegna(beta, g1, g2):
    num = math.gamma(1.0 + beta) * math.sin(math.pi * beta / 2.0)
    den = math.gamma((1.0 + beta) / 2.0) * beta * 2.0 ** ((beta - 1.0) / 2.0)
    sigma = (num / den) ** (1.0 / beta)
    with np.errstate(all='ignore'):
        return float(np.float64(g1) * sigma / np.float64(abs(g2)) ** (1.0 / beta))


def close(a, b):
    if a != a or b != b:
        return a != a and b != b
    if math.isinf(a) or math.isinf(b):
        return a == b
    return abs(a - b) <= 1e-9 * max(abs(a), abs(b)) + 1e-300


def run_levy(beta, draws, size):
    calls = []

    def normal(loc=0.0, scale=1.0, size=None):
        k = len(calls)
        calls.append([float(loc), float(scale), size if isinstance(size, int) else repr(size)])
        return np.array(draws[k], dtype=float) if k < len(draws) else np.zeros(size)
    with Patch('normal', normal):
        try:
            out = dist.generate_levy_distribution(beta, size)
        except Exception as ex:  # noqa: BLE001
            return {'raised': type(ex).__name__ + ': ' + str(ex)[:200], 'calls': calls}
    out = np.asarray(out, dtype=float)
    return {'shape': list(out.shape), 'out': [float(v) for v in out.ravel()], 'calls': calls}


def levy_oracle(beta, draws, size, res):
    """-> (key, message, swapped_only)"""
    if 'raised' in res:
        return 'levy:raises', 'generate_levy_distribution(%r, %d) raised %s' % (beta, size, res['raised']), False
    if len(res['calls']) != 2:
        return 'levy:draws', '%d Gaussian draws consumed instead of two' % len(res['calls']), False
    if res['shape'] != [size]:
        return 'levy:shape', 'shape %s for size %d' % (res['shape'], size), False
    exp = [mantegna(beta, a, b) for a, b in zip(draws[0], draws[1])]
    if all(close(o, e) for o, e in zip(res['out'], exp)):
        return None, None, False
    swp = [mantegna(beta, b, a) for a, b in zip(draws[0], draws[1])]
    if all(close(o, e) for o, e in zip(res['out'], swp)):
        return None, 'step = Mantegna(g1 := second draw, g2 := first draw): the roles of the two draws are exchanged', True
    return 'levy:formula', ('beta=%r, draws g1=%s g2=%s: step %s differs from Mantegna\'s formula g1*sigma/|g2|^(1/beta) = %s'
                            % (beta, draws[0], draws[1], res['out'], exp)), False


def levy_call(r, beta):
    size = r.randint(1, 5)
    g1 = [r.gauss(0, 1) if r.random() < 0.9 else r.choice([0.0, -3.5, 1e-8]) for _ in range(size)]
    g2 = []
    for _ in range(size):
        v = r.gauss(0, 1) if r.random() < 0.8 else r.choice([-1.0, 1.0, 2.0, -0.5, 1e-3, -7.0])
        g2.append(v if v != 0.0 else 1.0)
    return {'beta': beta, 'g1': g1, 'g2': g2, 'size': size}


def run_levy_seq(calls):
    """the recorded SEQUENCE of calls in this one process (state kept between calls would show here)"""
    rows = []
    for pos, c in enumerate(calls):
        res = run_levy(c['beta'], [c['g1'], c['g2']], c['size'])
        k, msg, swapped = levy_oracle(c['beta'], [c['g1'], c['g2']], c['size'], res)
        if k and pos > 0:
            msg = 'call %d of a sequence with beta = %s in one process: %s' % (pos + 1, [x['beta'] for x in calls[:pos + 1]], msg)
        std = res.get('calls') == [[0.0, 1.0, c['size']], [0.0, 1.0, c['size']]]
        rows.append(dict(c, res=res, oracle=msg if k else None, okey=k, swapped=swapped, standard_draws=std, pos=pos))
    return rows


def levy_cases():
    """sequences of three calls with two different exponents (b1, b2, b1), both orders, all in this process"""
    r = hlib.rng('c18levy')
    rows = []
    betas = [0.3, 0.5, 1.0, 1.5, 1.99, 2.0, 0.1]
    n = 14 if hlib.QUICK else 200
    for c in range(n):
        b1 = betas[c % len(betas)] if c < 2 * len(betas) else r.choice([r.uniform(0.2, 2.0), r.uniform(0.05, 0.5), r.uniform(1.5, 2.0)])
        b2 = b1
        while abs(b2 - b1) < 0.05:
            b2 = r.choice(betas + [r.uniform(0.1, 2.0)])
        if (c % 2 == 1) != (b1 < b2):          # alternate: small exponent first / large exponent first
            b1, b2 = b2, b1
        calls = [levy_call(r, b) for b in (b1, b2, b1)]
        seq_rows = run_levy_seq(calls)
        for row in seq_rows:
            row['seq'] = c
        rows += seq_rows
    # IEEE corners of the formula: a second draw that is zero or tiny for the exponent (the step is +-inf, or NaN for 0/0) -- still
    # "Mantegna's formula applied to the two draws consumed"
    for k, (beta, g2) in enumerate([(1.5, 0.0), (0.5, -0.0), (0.01, 1e-3), (0.01, -2.5e-5), (0.3, 5e-324), (2.0, 1e-200), (1.0, 0.0)]):
        calls = [{'beta': beta, 'g1': [1.0, -2.0, 0.0], 'g2': [g2, g2, g2], 'size': 3}]
        seq_rows = run_levy_seq(calls)
        for row in seq_rows:
            row['seq'] = n + k
        rows += seq_rows
    return rows


# ------------------------------------------------------------------ wrappers: what is handed to NumPy

def wrapper_probe():
    out = []
    for fname, npname in (('generate_uniform_random_number', 'uniform'), ('generate_gaussian_random_number', 'normal')):
        for args, kwargs in (((1.5, 2.5, 7), {}), ((), {}), ((-3.0,), {}), ((1.5, 2.5), {'size': (2, 3)}), ((0.25, 4.0, (3, 1, 2)), {})):
            seen = []
            token = object()

            def fake(*a, **k):
                seen.append([list(a), k])
                return token
            with Patch(npname, fake):
                try:
                    res = getattr(rnd, fname)(*args, **kwargs)
                    err = None
                except Exception as ex:  # noqa: BLE001
                    res, err = None, type(ex).__name__ + ': ' + str(ex)
            defaults = [0.0, 1.0, 1]
            want = list(args) + defaults[len(args):]
            if 'size' in kwargs:
                want[2] = kwargs['size']
            names = {'uniform': ['low', 'high', 'size'], 'normal': ['loc', 'scale', 'size']}[npname]
            got = None
            if len(seen) == 1:
                a, k = seen[0]
                got = list(a) + [k.get(nm, '<missing>') for nm in names[len(a):]] if len(a) <= 3 and set(k) <= set(names[len(a):]) else '<unrecognised call>'
            ok = err is None and got == want and res is token
            out.append({'wrapper': fname, 'args': repr((args, kwargs)), 'numpy_received': repr(got), 'expected': repr(want),
                        'returned_unchanged': res is token, 'error': err, 'ok': ok})
    return out


# ------------------------------------------------------------------ the real generator

def real_numpy():
    r = hlib.rng('c18real')
    viol, n_eval = [], 0
    sizes = [1, 2, 7, 50, 0, (2, 3), (4, 1, 2), (3,)]
    n = 60 if hlib.QUICK else 600
    high_hits = []
    for c in range(n):
        seed = r.randint(0, 2 ** 31 - 1)
        size = r.choice(sizes)
        shape = (size,) if isinstance(size, int) else tuple(size)
        # uniform
        low = r.choice([0.0, -5.0, r.uniform(-1e6, 1e6), r.uniform(-1, 1)])
        high = low + r.choice([1.0, 10.0, r.uniform(1e-3, 1e6), r.uniform(1e-3, 1.0)])
        np.random.seed(seed)
        try:
            u, uerr = rnd.generate_uniform_random_number(low, high, size), None
        except Exception as ex:  # noqa: BLE001
            u, uerr = None, type(ex).__name__ + ': ' + str(ex)[:200]
        n_eval += 1
        if uerr:
            viol.append({'okey': 'uniform:raises', 'oracle': 'generate_uniform_random_number(%r, %r, %r) raised %s' % (low, high, size, uerr),
                         'call': ['uniform', low, high, repr(size), seed]})
        elif np.shape(u) != shape:
            viol.append({'okey': 'uniform:shape', 'oracle': 'generate_uniform_random_number(%r, %r, %r) has shape %s' % (low, high, size, np.shape(u)),
                         'call': ['uniform', low, high, repr(size), seed]})
        elif not np.all((u >= low) & (u <= high)):
            viol.append({'okey': 'uniform:range', 'oracle': 'generate_uniform_random_number(%r, %r, %r) under seed %d returns values outside [low, high]: %s'
                         % (low, high, size, seed, [float(v) for v in np.ravel(u) if not low <= v <= high][:3]), 'call': ['uniform', low, high, repr(size), seed]})
        elif np.any(u == high):
            high_hits.append(['uniform', low, high, repr(size), seed])
        # gaussian
        m, sd = r.choice([0.0, r.uniform(-1e3, 1e3)]), r.choice([1.0, 0.0, r.uniform(0, 1e3), r.uniform(0, 1)])
        try:
            np.random.seed(seed)
            a = rnd.generate_gaussian_random_number(m, sd, size)
            np.random.seed(seed)
            z = rnd.generate_gaussian_random_number(0.0, 1.0, size)
            gerr = None
        except Exception as ex:  # noqa: BLE001
            a = z = None
            gerr = type(ex).__name__ + ': ' + str(ex)[:200]
        n_eval += 1
        if gerr:
            viol.append({'okey': 'gaussian:raises', 'oracle': 'generate_gaussian_random_number(%r, %r, %r) raised %s' % (m, sd, size, gerr),
                         'call': ['gaussian', m, sd, repr(size), seed]})
        elif np.shape(a) != shape:
            viol.append({'okey': 'gaussian:shape', 'oracle': 'generate_gaussian_random_number(%r, %r, %r) has shape %s' % (m, sd, size, np.shape(a)),
                         'call': ['gaussian', m, sd, repr(size), seed]})
        elif not np.all(np.abs(a - (m + sd * z)) <= 1e-12 * (abs(m) + np.abs(sd * z)) + 1e-300):
            viol.append({'okey': 'gaussian:affine', 'oracle': 'generate_gaussian_random_number(%r, %r, %r) is not mean + deviation * standard draw (seed %d)'
                         % (m, sd, size, seed), 'call': ['gaussian', m, sd, repr(size), seed]})
        # Bernoulli under the real stream
        bsize = r.choice([1, 3, 20, 0])
        prev = None
        for p in [0.0, r.uniform(0, 0.5), 0.5, r.uniform(0.5, 1), 1.0]:
            np.random.seed(seed)
            n_eval += 1
            msg = None
            try:
                b = dist.generate_bernoulli_distribution(p, bsize)
            except Exception as ex:  # noqa: BLE001
                viol.append({'okey': 'bernoulli:raises', 'oracle': 'generate_bernoulli_distribution(%r, %d) raised %s: %s'
                             % (p, bsize, type(ex).__name__, ex), 'call': ['bernoulli', p, bsize, seed]})
                break
            if np.shape(b) != (bsize,):
                msg = ('bernoulli:shape', 'shape %s for size %d' % (np.shape(b), bsize))
            elif not np.all((b == 0) | (b == 1)):
                msg = ('bernoulli:01', 'entries other than 0/1: %s' % b)
            elif p == 0.0 and np.any(b != 0):
                msg = ('bernoulli:p0', 'probability 0 gives %s under seed %d' % (b, seed))
            elif p == 1.0 and np.any(b != 1):
                msg = ('bernoulli:p1', 'probability 1 gives %s under seed %d' % (b, seed))
            elif prev is not None and np.any(prev > b):
                msg = ('bernoulli:monotone', 'not monotone in the probability under seed %d at p=%r' % (seed, p))
            if msg:
                viol.append({'okey': msg[0], 'oracle': msg[1], 'call': ['bernoulli', p, bsize, seed]})
            prev = b
    # the known rounding witness: a range one ulp wide
    np.random.seed(0)
    hi1 = nextafter(1.0, 2.0)
    try:
        w = np.asarray(rnd.generate_uniform_random_number(1.0, hi1, 10))
    except Exception:  # noqa: BLE001
        w = np.array([1.0])
    n_eval += 1
    if np.any(w == hi1):
        high_hits.insert(0, ['uniform', 1.0, hi1, '10', 0])
    elif not np.all((w >= 1.0) & (w < hi1)):
        viol.append({'okey': 'uniform:range', 'oracle': 'uniform(1.0, nextafter(1.0)) leaves the range', 'call': ['uniform', 1.0, hi1, '10', 0]})
    return {'violations': viol, 'high_hits': high_hits, 'evaluations': n_eval}


def replay(rp):
    kind = rp.get('kind')
    c = rp.get('case', {})
    if kind == 'bernoulli':
        us = [unkey(k) for k in c['us']]
        p = unkey(c['p'])
        res = run_bern(p, us)
        k, msg = bern_oracle(p, us, res)
        out = {'res': res, 'oracle': msg, 'fails': bool(k)}
        if 'q' in c:
            q = unkey(c['q'])
            r2 = run_bern(q, us)
            out['res_q'] = r2
            if 'out' in res and 'out' in r2 and any(x > y for x, y in zip(res['out'], r2['out'])):
                out.update({'fails': True, 'oracle': 'not monotone: %s vs %s' % (res['out'], r2['out'])})
        return out
    if kind == 'tournament':
        fit = [unkey(k) for k in c['fit']]
        orig = const.TOURNAMENT_SIZE
        try:
            if c.get('reassigned'):
                const.TOURNAMENT_SIZE = c['ts']          # the recorded history: re-assign the constant, then select
            ts = int(const.TOURNAMENT_SIZE)
            res = run_tournament(fit, c['as_array'], c['n'], c['script'])
        finally:
            const.TOURNAMENT_SIZE = orig
        k, msg = tour_oracle(fit, c['n'], c['script'], res, ts)
        return {'res': res, 'oracle': msg, 'fails': bool(k), 'row': dict(c, res=res, ts=ts)}
    if kind == 'tour_wide':
        rows = wide_rows(c.get('family'))
        bad = [x for x in rows if x['oracle']]
        return {'rows': rows, 'oracle': bad[0]['oracle'] if bad else None, 'fails': bool(bad)}
    if kind == 'pairwise':
        res = run_pairwise(c['vals'], c['kind'])
        k, msg = pair_oracle(c['vals'], res)
        return {'res': res, 'oracle': msg, 'fails': bool(k), 'okey': k, 'row': dict(c, res=res)}
    if kind == 'levy':
        calls = c['calls'] if 'calls' in c else [c]
        rows = run_levy_seq(calls)
        return {'calls': [{'beta': x['beta'], 'out': x['res'].get('out'), 'oracle': x['oracle'], 'swapped': x['swapped']} for x in rows],
                'oracle': next((x['oracle'] for x in rows if x['okey']), None),
                'fails': any(bool(x['okey']) or x['swapped'] or not x['standard_draws'] for x in rows)}
    if kind == 'real':
        try:
            return replay_real(c['call'])
        except Exception as ex:  # noqa: BLE001
            return {'fails': True, 'raised': type(ex).__name__ + ': ' + str(ex)[:300]}
    if kind == 'wrapper':
        pr = wrapper_probe()
        return {'probe': [p for p in pr if not p['ok']], 'fails': any(not p['ok'] for p in pr)}
    return {'fails': False, 'note': 'no concrete input recorded: ' + str(rp)[:400]}


def replay_real(call):
    if True:
        if call[0] == 'uniform':
            np.random.seed(call[4])
            size = eval(call[3])
            u = rnd.generate_uniform_random_number(call[1], call[2], size)
            shape = (size,) if isinstance(size, int) else tuple(size)
            # a draw equal to `high` is the known finding uniform:high-attained-by-rounding; outside [low, high] is not
            bad = np.shape(u) != shape or not np.all((u >= call[1]) & (u <= call[2]))
            return {'observed': [float(v) for v in np.ravel(u)][:20], 'fails': bool(bad)}
        if call[0] == 'gaussian':
            size = eval(call[3])
            np.random.seed(call[4])
            a = rnd.generate_gaussian_random_number(call[1], call[2], size)
            np.random.seed(call[4])
            z = rnd.generate_gaussian_random_number(0.0, 1.0, size)
            shape = (size,) if isinstance(size, int) else tuple(size)
            bad = np.shape(a) != shape or not np.all(np.abs(a - (call[1] + call[2] * z)) <= 1e-12 * (abs(call[1]) + np.abs(call[2] * z)) + 1e-300)
            return {'observed': [float(v) for v in np.ravel(a)][:20], 'fails': bool(bad)}
        if call[0] == 'bernoulli':
            np.random.seed(call[3])
            b = dist.generate_bernoulli_distribution(call[1], call[2])
            bad = np.shape(b) != (call[2],) or not np.all((b == 0) | (b == 1)) or (call[1] == 0.0 and np.any(b != 0)) \
                or (call[1] == 1.0 and np.any(b != 1))
            np.random.seed(call[3])
            b0 = dist.generate_bernoulli_distribution(0.0, call[2])
            bad = bad or bool(np.any(b0 > b))
            return {'observed': [float(v) for v in b], 'fails': bool(bad)}
    return {'fails': False, 'note': 'unknown call'}


def prior_task():
    """The property quantifies over histories: every observation of this harness (and of its replays) is made in a process in which a
    small optimization task has already run through Opytimizer.start() -- state a task leaves behind in the process (NumPy's error
    mode, a cached constant, a spare deviate) then meets the primitives."""
    try:
        from opytimizer import Opytimizer
        from opytimizer.core.function import Function
        from opytimizer.optimizers.pso import PSO
        from opytimizer.spaces.search import SearchSpace
        st = np.random.get_state()
        np.random.seed(7)
        Opytimizer(space=SearchSpace(n_agents=2, n_variables=1, n_iterations=1, lower_bound=[0], upper_bound=[1]), optimizer=PSO(),
                   function=Function(pointer=lambda x: float(np.sum(x ** 2)))).start()
        np.random.set_state(st)
    except Exception:  # noqa: BLE001   (a task that does not run is C03's subject)
        pass


def main():
    prior_task()
    hlib.prior_tasks()
    p = hlib.payload()
    if p and 'replay' in p:
        hlib.emit(replay(p['replay']))
        return
    brows, bviol = bern_cases()
    hlib.emit({'bern': brows, 'bern_mono': bviol, 'tour_wide': wide_rows(), 'tour': tour_cases(), 'pair': pair_cases(), 'levy': levy_cases(),
               'wrappers': wrapper_probe(), 'real': real_numpy(), 'ts': int(const.TOURNAMENT_SIZE)})


if __name__ == '__main__':
    main()
