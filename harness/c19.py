"""C19 harness: real optimizer runs -> History; get() on every key x index; save/load round trip;
random dump sequences with mutation of the dumped objects.  Emits key-encoded cases for the Coq model
(Model/History.v) and evaluates the property oracle on the implementation itself.

Value encoding (JSON): ['f', key] float, ['i', n] int, ['b', bool], ['o', id] opaque object (0 = None),
['l', [...]] list, ['t', [...]] tuple, ['a', dtype, nested] ndarray, ['s', str]."""
import functools
import importlib
import itertools
import json
import os
import sys

import numpy as np
from harness import hlib
from harness.hlib import key, unkey

import opytimizer.utils.exception as oe
from opytimizer import Opytimizer
from opytimizer.core.agent import Agent
from opytimizer.core.function import Function
from opytimizer.core.node import Node
from opytimizer.spaces.hyper import HyperSpace
from opytimizer.spaces.search import SearchSpace
from opytimizer.spaces.tree import TreeSpace
from opytimizer.utils.history import History

OPTIMIZERS = ['abc', 'aiwpso', 'ba', 'bha', 'cs', 'fa', 'fpa', 'gp', 'gsa', 'hc', 'hs', 'ihs', 'pso', 'rpso',
              'sa', 'sca', 'wca']
SERIES_INDEX_LEN = {'agents': 2, 'best_agent': 1, 'local': 3}


# ------------------------------------------------------------------ encoding
class Enc:
    """Canonical, type-preserving encoding of history values; opaque objects get ids by canonical serialisation."""

    def __init__(self):
        self.table = {}
        self.unknown = []

    def oid(self, ser):
        if ser not in self.table:
            self.table[ser] = len(self.table) + 1
        return self.table[ser]

    def enc(self, x):
        if isinstance(x, (bool, np.bool_)):
            return ['b', bool(x)]
        if isinstance(x, (int, np.integer)):
            return ['i', int(x)]
        if isinstance(x, np.longdouble):
            # an extended-precision scalar is not a double: an opaque value identified by its (round-trippable) repr
            return ['o', self.oid('longdouble:' + repr(x))]
        if isinstance(x, (float, np.floating)):
            return ['f', key(x)]
        if x is None:
            return ['o', 0]
        if isinstance(x, list):
            return ['l', [self.enc(v) for v in x]]
        if isinstance(x, tuple):
            return ['t', [self.enc(v) for v in x]]
        if isinstance(x, np.ndarray):
            if x.dtype == object:
                return ['a', 'O', self.enc(x.tolist())]
            return ['a', x.dtype.str, self.enc(x.tolist())]
        if isinstance(x, str):
            return ['s', x]
        if isinstance(x, Node):
            return ['o', self.oid('node:' + node_ser(x))]
        self.unknown.append(type(x).__name__)
        return ['o', self.oid('unknown:' + type(x).__name__ + ':' + repr(x))]


def node_ser(root):
    """Canonical serialisation of the Node graph reachable from `root` (left, right, parent pointers)."""
    index = {}
    order = []
    stack = [root]
    while stack:
        n = stack.pop()
        if n is None or id(n) in index:
            continue
        if not isinstance(n, Node):
            index[id(n)] = len(order)
            order.append(('FOREIGN', repr(n)))
            continue
        index[id(n)] = len(order)
        order.append(n)
        for ch in (n.parent, n.right, n.left):
            stack.append(ch)
    out = []
    for n in order:
        if isinstance(n, tuple):
            out.append(list(n))
            continue

        def ref(m):
            return None if m is None else index[id(m)]
        val = None
        if n.value is not None:
            v = np.asarray(n.value)
            val = [list(v.shape), [key(z) for z in v.reshape(-1).astype(float)]]
        out.append([n.name, n.type, n.flag, val, ref(n.left), ref(n.right), ref(n.parent)])
    return json.dumps(out)


def enc_dict(d, E):
    return [[k, E.enc(v)] for k, v in d.items()]


def norm_num(e):
    """Numbers by float key, arrays as nested lists, tuples as lists: the view in which get() output is compared."""
    t = e[0]
    if t == 'f':
        return ['n', e[1]]
    if t == 'i':
        return ['n', key(float(e[1]))]
    if t in ('l', 't'):
        return ['l', [norm_num(v) for v in e[1]]]
    if t == 'a':
        return norm_num(e[2])
    return e


# ------------------------------------------------------------------ get: cases and oracle
NONTUPLES = {'list': lambda: [0, 0], 'int': lambda: 0, 'none': lambda: None, 'ndarray': lambda: np.array([0, 0]),
             'str': lambda: 'ab', 'float': lambda: 1.0, 'range': lambda: range(2)}


NPINT = {'int64': np.int64, 'intp': np.intp, 'int32': np.int32, 'uint8': np.uint8}


def mk_index(spec):
    if 'tuple' in spec:
        if spec.get('np'):
            # the same integers as NumPy integer scalars (np.argmin / np.arange results are the usual source of an index);
            # 'mixed': only the first component
            cast = NPINT[spec['np'].split(':')[0]]
            if spec['np'].endswith(':mixed'):
                return tuple([cast(spec['tuple'][0])] + list(spec['tuple'][1:])) if spec['tuple'] else ()
            return tuple(cast(i) for i in spec['tuple'])
        return tuple(spec['tuple'])
    return NONTUPLES[spec['nontuple']]()


def call_get(h, k, spec, E):
    try:
        r = h.get(k, mk_index(spec))
    except Exception as ex:                                     # noqa: BLE001
        return {'err': hlib.exc_kind(ex)}
    if not isinstance(r, np.ndarray):
        return {'err': 'Untyped:not-an-array:' + type(r).__name__}
    return {'ok': norm_num(E.enc(r.tolist())), 'shape': list(r.shape), 'dtype': r.dtype.str}


def direct(rec, idx):
    return functools.reduce(lambda a, i: a[i], idx, rec)


def get_oracle(h, k, spec, res, E):
    """The property text on the implementation: typed rejections, and for a valid index the per-iteration
    components in order, obtained by direct indexing of the raw records.  None = satisfied / silent."""
    if 'nontuple' in spec:
        return None if res.get('err') == 'TypeError' else 'non-tuple index %s was not rejected with TypeError: %r' % (spec['nontuple'], res)
    idx = spec['tuple']
    if not hasattr(h, k):
        return None
    recs = getattr(h, k)
    if not isinstance(recs, list):
        return None                                    # not a series (store_best_only): the text is silent
    want_len = SERIES_INDEX_LEN.get(k, 0)
    if len(idx) != want_len:
        return None if res.get('err') == 'SizeError' else 'index of length %d for `%s` (needs %d) was not rejected with SizeError: %r' % (len(idx), k, want_len, res)
    try:
        pieces = [direct(r, idx) for r in recs]
    except (IndexError, TypeError):
        return None                                    # out of range: the text is silent
    pieces = [p.tolist() if isinstance(p, np.ndarray) else p for p in pieces]
    if all(isinstance(p, (list, tuple)) for p in pieces):
        if any(isinstance(q, (list, tuple)) for p in pieces for q in p):
            nrows = len(pieces[0])
            if any(len(p) != nrows for p in pieces):
                return None
            exp = [sum((list(p[r]) for p in pieces), []) for r in range(nrows)]
        else:
            exp = sum((list(p) for p in pieces), [])
    else:
        exp = list(pieces)
    if 'ok' not in res:
        return 'valid index %r of `%s` raised %s' % (tuple(idx), k, res.get('err'))
    if res['ok'] != norm_num(E.enc(exp)):
        return 'get(%r, %r) is not the per-iteration series of that component' % (k, tuple(idx))
    return None


def index_specs(h, k, r, full):
    """Every valid index of the key, plus invalid ones."""
    out = []
    v = getattr(h, k, None)
    dims = []
    if k == 'agents' and v:
        dims = [len(v[0]), 2]
    elif k == 'best_agent' and v:
        dims = [2]
    elif k == 'local' and v:
        dims = [len(v[0]), len(v[0][0]), len(v[0][0][0])]
    valid = list(itertools.product(*[range(d) for d in dims]))
    if not full and len(valid) > 12:
        valid = r.sample(valid, 12)
    for idx in valid:
        out.append({'tuple': list(idx)})
    # NumPy integer scalars as components of a valid index
    for n, idx in enumerate(valid[:6] if not full else valid[:24]):
        kind = ['int64', 'intp', 'int32', 'int64:mixed', 'uint8', 'intp:mixed'][n % 6]
        out.append({'tuple': list(idx), 'np': kind})
    if dims:
        out.append({'tuple': [-1] * len(dims)})
        out.append({'tuple': [-d for d in dims]})
        out.append({'tuple': [r.randrange(-d, d) for d in dims]})
        # out of range, first / last axis
        out.append({'tuple': [dims[0]] + [0] * (len(dims) - 1)})
        out.append({'tuple': [0] * (len(dims) - 1) + [dims[-1]]})
        out.append({'tuple': [0] * (len(dims) - 1) + [-dims[-1] - 1]})
        # too short / too long (also with out-of-range components: the size check comes first)
        out.append({'tuple': [0] * (len(dims) - 1)})
        out.append({'tuple': [0] * (len(dims) + 1)})
        out.append({'tuple': [99] * (len(dims) + 1)})
        out.append({'tuple': []})
    else:
        out.append({'tuple': []})                      # the valid index of a series of scalars (`time`)
        out.append({'tuple': [0]})
        out.append({'tuple': [0, 0]})
        out.append({'tuple': [-1]})
    for nt in (['list', 'int', 'none', 'ndarray'] if not full else sorted(NONTUPLES)):
        out.append({'nontuple': nt})
    return out


# ------------------------------------------------------------------ real runs
def objective(x):
    return np.sum(x ** 2) + 1.0          # positive: ABC's onlooker loop needs a sign-definite objective (finding e, C03)


LD_FACTOR = np.longdouble(1) + np.longdouble(2) ** -60


def objective_ld(x):
    """an extended-precision objective: np.longdouble values that no double equals"""
    return np.longdouble(np.sum(x ** 2) + 1.0) * LD_FACTOR


def hand_built(tag, sbo):
    """histories that no task produced: nothing dumped yet, only keys of the user's own, one record of each standard key"""
    h = History(store_best_only=sbo)
    if tag == 'custom-keys-only':
        h.dump(loss=0.5, step=3)
        h.dump(loss=0.25, step=4)
    elif tag == 'one-record':
        a = Agent(n_variables=2, n_dimensions=1)
        a.position = np.array([[1.5], [-2.0]])
        a.fit = 3.25
        h.dump(agents=[a], best_agent=a, note=1.0)
    return h


def make_run(name, sbo, size, seed, ld=False):
    if name.startswith('hand:'):
        return hand_built(name[5:], sbo)
    np.random.seed(seed)
    mod = importlib.import_module('opytimizer.optimizers.' + name)
    cls = getattr(mod, name.upper())
    n, nv, T = size[:3]
    lb, ub = [-5.0] * nv, [5.0] * nv
    if name == 'gp':
        s = TreeSpace(n_trees=n, n_terminals=2, n_variables=nv, n_iterations=T, min_depth=1, max_depth=3,
                      functions=['SUM', 'MUL', 'DIV', 'SUB'], lower_bound=lb, upper_bound=ub)
    elif len(size) > 3:
        s = HyperSpace(n_agents=n, n_variables=nv, n_dimensions=size[3], n_iterations=T, lower_bound=lb, upper_bound=ub)
    else:
        s = SearchSpace(n_agents=n, n_variables=nv, n_iterations=T, lower_bound=lb, upper_bound=ub)
    o = Opytimizer(space=s, optimizer=cls(), function=Function(pointer=objective_ld if ld else objective))
    if seed % 2 == 1:
        # a task started with a pre-evaluation hook that is a closure (not importable by name, hence not picklable): whatever the task
        # puts into its History must still survive save/load
        calls = []

        def hook(optimizer, space, function):
            calls.append(len(space.agents))
        return o.start(store_best_only=sbo, pre_evaluation_hook=hook)
    return o.start(store_best_only=sbo)


SAVELOAD_COUNT = [1]        # replays (one call) take the overwrite branch


def saveload_check(h, tag, E):
    """save -> load into a fresh History (with the opposite flag) -> compare __dict__ deeply."""
    path = os.path.join(os.getcwd(), 'hist_%s.pkl' % tag)
    before = enc_dict(h.__dict__, E)
    SAVELOAD_COUNT[0] += 1
    if SAVELOAD_COUNT[0] % 2 == 0:
        # the path already holds another pickled History (a reused output file / checkpointing): save() must replace it
        pre = History(store_best_only=not bool(h.store_best_only))
        pre.dump(marker=1.0)
        pre.save(path)
    fresh = History(store_best_only=not bool(h.store_best_only))
    fresh_before = enc_dict(fresh.__dict__, E)
    try:
        h.save(path)
        after_save = enc_dict(h.__dict__, E)
        fresh.load(path)
    except Exception as ex:                                         # noqa: BLE001
        try:
            os.remove(path)
        except OSError:
            pass
        return {'before': before, 'fresh': fresh_before, 'after': before, 'raised': True,
                'oracle': 'save()/load() of a history with store_best_only=%r raised %s: %s' % (bool(h.store_best_only), hlib.exc_kind(ex), str(ex)[:120])}
    after = enc_dict(fresh.__dict__, E)
    oracle = None
    if after_save != before:
        oracle = 'save() changed the history'
    elif sorted(k for k, _ in after) != sorted(k for k, _ in before):
        oracle = 'attributes after load %r differ from attributes before save %r' % ([k for k, _ in after], [k for k, _ in before])
    elif dict((k, json.dumps(v)) for k, v in after) != dict((k, json.dumps(v)) for k, v in before):
        bad = [k for k, v in after if dict((a, json.dumps(b)) for a, b in before).get(k) != json.dumps(v)]
        oracle = 'attribute(s) %r changed value across save/load' % bad
    try:
        os.remove(path)
    except OSError:
        pass
    return {'before': before, 'fresh': fresh_before, 'after': after, 'oracle': oracle}


def run_cases(r, quick):
    sizes_q = [[2, 2, 2], [3, 1, 3]]
    sizes_t = [[2, 2, 2], [3, 1, 3], [4, 3, 4], [2, 1, 1], [5, 2, 2]]
    runs = []
    skipped = []
    for oi, name in enumerate(OPTIMIZERS):
        for sbo in (False, True):
            if quick:
                sizes = [sizes_q[oi % 2]] if sbo else list(sizes_q)
            else:
                sizes = list(sizes_t)
            if name in ('pso', 'aiwpso') and (not quick or sbo is False):
                sizes = sizes + [[2, 2, 2, 3]]                      # HyperSpace: n_dimensions = 3
            if name in ('pso', 'hs') and sbo is False:
                sizes = sizes + [[3, 2, 300]]                       # SCALE: a long history (300 records per series)
            if name == 'hc' and sbo is False and not quick:
                sizes = sizes + [[130, 3, 4]]                       # SCALE: a large population
            plan = [(size, False) for size in sizes]
            if sbo is False or not quick:
                plan.append((sizes_q[(oi + 1) % 2], True))              # the same task with an extended-precision (np.longdouble) objective
            for size, ld in plan:
                seed = r.randrange(1, 10 ** 6)
                E = Enc()
                try:
                    h = make_run(name, sbo, size, seed, ld)
                except Exception as ex:                                 # noqa: BLE001
                    skipped.append({'optimizer': name, 'sbo': sbo, 'size': size, 'seed': seed,
                                    'why': '%s: %s' % (type(ex).__name__, ex)})
                    continue
                run = {'optimizer': name, 'sbo': sbo, 'size': size, 'seed': seed, 'ld': ld, 'gets': []}
                keys = list(h.__dict__.keys()) + ['no_such_key']
                for k in ([] if ld else keys):             # (series of extended-precision values: save/load only)
                    for spec in index_specs(h, k, r, not quick):
                        res = call_get(h, k, spec, E)
                        res_oracle = get_oracle(h, k, spec, res, E)
                        run['gets'].append({'key': k, 'index': spec, 'res': res, 'oracle': res_oracle})
                # every attribute of a History returned by start() is a series (a list of per-dump records): `get` can only serve those
                for k in list(h.__dict__.keys()):
                    if k != 'store_best_only' and not k.startswith('_') and not isinstance(getattr(h, k), list):
                        run['gets'].append({'key': k, 'index': {'tuple': []}, 'res': {'err': 'not-a-series'},
                                            'oracle': 'attribute `%s` of the History returned by start() is a %s, not a series of records: '
                                                      'get(%r, ()) cannot return it' % (k, type(getattr(h, k)).__name__, k)})
                run['saveload'] = saveload_check(h, '%s_%d' % (name, int(sbo)), E)
                run['hist'] = run['saveload']['before']
                run['unknown'] = E.unknown
                runs.append(run)
    for tag in ('empty', 'custom-keys-only', 'one-record'):
        for sbo in (False, True):
            E = Enc()
            h = hand_built(tag, sbo)
            run = {'optimizer': 'hand:' + tag, 'sbo': sbo, 'size': [0, 0, 0], 'seed': 0, 'ld': False, 'gets': []}
            run['saveload'] = saveload_check(h, 'hand_%s_%d' % (tag.replace('-', '_'), int(sbo)), E)
            run['hist'] = run['saveload']['before']
            run['unknown'] = E.unknown
            runs.append(run)
    return runs, skipped


# ------------------------------------------------------------------ hand-built dump sequences
def mk_agent(pos, fit):
    a = Agent(n_variables=max(1, len(pos)), n_dimensions=max(1, len(pos[0]) if pos else 1))
    a.position = np.array([[unkey(k) for k in row] for row in pos], dtype=float).reshape(len(pos), len(pos[0]) if pos else 0)
    a.fit = unkey(fit)
    return a


def dec_val(e):
    t = e[0]
    if t == 'f':
        return unkey(e[1])
    if t == 'i':
        return int(e[1])
    if t == 'b':
        return bool(e[1])
    if t == 'o':
        return None
    if t == 'l':
        return [dec_val(v) for v in e[1]]
    if t == 't':
        return tuple(dec_val(v) for v in e[1])
    raise ValueError(e)


def build_value(vs):
    if 'agents' in vs:
        return [mk_agent(p, f) for p, f in vs['agents']]
    if 'agent' in vs:
        return mk_agent(*vs['agent'])
    if 'arrays' in vs:
        arrs = [np.array([[unkey(k) for k in row] for row in p], dtype=float) for p in vs['arrays']]
        shapes = set(a.shape for a in arrs)
        if vs.get('as3d') and len(shapes) == 1:
            return np.array(arrs)
        return arrs
    return dec_val(vs['val'])


def mutate(obj):
    """Disturb everything reachable from a dumped value, in place."""
    if isinstance(obj, Agent):
        obj.position += 1.5
        if obj.position.size:
            obj.position[0][0] = -7.25
        obj.fit = -3.5
    elif isinstance(obj, np.ndarray):
        if obj.dtype != object:
            obj *= 2.0
            obj += 0.125
    elif isinstance(obj, list):
        for o in obj:
            mutate(o)


def run_sequence(spec):
    """Execute a dump sequence on the real History.  -> dict with final encoded history, oracle, gets."""
    E = Enc()
    h = History(store_best_only=dec_val(spec['flag']))
    oracle = None
    raised_at = None
    for si, step in enumerate(spec['steps']):
        vals = [(k, build_value(vs)) for k, vs in step]
        kw = dict(vals)
        before = enc_dict(h.__dict__, E)
        try:
            h.dump(**kw)
        except Exception as ex:                                         # noqa: BLE001
            raised_at = {'step': si, 'err': hlib.exc_kind(ex)}
            break
        snap = enc_dict(h.__dict__, E)
        # earlier records are a prefix of the new series
        bd = dict((k, v) for k, v in before)
        for k, v in snap:
            if k in bd and v[0] == 'l' and bd[k][0] == 'l' and v[1][:len(bd[k][1])] != bd[k][1] and oracle is None:
                oracle = 'dump #%d rewrote earlier records of `%s`' % (si, k)
        for k, v in vals:
            if k in ('agents', 'best_agent', 'local'):
                mutate(v)
        moved = enc_dict(h.__dict__, E)
        if moved != snap and oracle is None:
            bad = [k for (k, v), (_, w) in zip(snap, moved) if v != w]
            oracle = 'records of %r changed when the dumped objects were modified after dump #%d' % (bad, si)
    out = {'final': enc_dict(h.__dict__, E), 'raised': raised_at, 'oracle': oracle, 'gets': []}
    if raised_at is None:
        for k, ispec in spec['gets']:
            res = call_get(h, k, ispec, E)
            orc = None
            if 'nontuple' in ispec and res.get('err') != 'TypeError':
                orc = 'non-tuple index %s was not rejected with TypeError: %r' % (ispec['nontuple'], res)
            out['gets'].append({'key': k, 'index': ispec, 'res': res, 'oracle': orc})
    return out


SPECIAL = [0.0, -0.0, 1.0, -1.0, float('inf'), float('-inf'), float('nan'), 5e-324, 1.7976931348623157e308, 2.5, -3.75]


def rnd_key(r):
    if r.random() < 0.2:
        return key(r.choice(SPECIAL))
    return key(round(r.uniform(-9, 9), r.randint(0, 6)))


def rnd_pos(r, nv, nd):
    return [[rnd_key(r) for _ in range(nd)] for _ in range(nv)]


def rnd_val(r, depth=0):
    c = r.random()
    if c < 0.3 or depth > 2:
        return ['f', rnd_key(r)]
    if c < 0.4:
        return ['i', r.randint(-3, 3)]
    if c < 0.45:
        return ['o', 0]
    # (no booleans next to numbers: NumPy's dtype promotion True -> 1.0 is outside the model)
    n = r.randint(0, 3)
    return [r.choice(['l', 't']), [rnd_val(r, depth + 1) for _ in range(n)]]


def rnd_regular_val(r, shape):
    if not shape:
        return ['f', rnd_key(r)]
    return [r.choice(['l', 'l', 't']), [rnd_regular_val(r, shape[1:]) for _ in range(shape[0])]]


def sequence_specs(r, n_seq):
    specs = []
    for si in range(n_seq):
        mode = si % 4                  # 0,1: uniform shapes; 2: shapes vary between dumps; 3: wild
        flag = r.choice([['b', False], ['b', False], ['b', True], ['i', 0], ['i', 1], ['f', key(0.0)], ['o', 0]])
        n, nv, nd = r.randint(1, 3), r.randint(1, 3), r.randint(1, 2)
        keys = r.sample(['agents', 'best_agent', 'local', 'time', 'foo', 'best_tree'], r.randint(1, 5))
        foo_shape = [r.randint(1, 2) for _ in range(r.randint(0, 2))]
        steps = []
        for t in range(r.randint(1, 4)):
            if mode >= 2 and r.random() < 0.5:
                n, nv, nd = r.randint(1, 3), r.randint(1, 3), r.randint(1, 2)
            step = []
            ks = list(keys)
            if mode == 3 and r.random() < 0.3:
                ks = r.sample(ks, r.randint(1, len(ks)))
            r.shuffle(ks)
            for k in ks:
                if k == 'agents':
                    vs = {'agents': [[rnd_pos(r, nv, nd), rnd_key(r)] for _ in range(n)]}
                elif k == 'best_agent':
                    vs = {'agent': [rnd_pos(r, nv, nd), rnd_key(r)]}
                elif k == 'local':
                    vs = {'arrays': [rnd_pos(r, nv, nd) for _ in range(n)], 'as3d': r.random() < 0.7}
                elif k == 'time':
                    vs = {'val': ['f', rnd_key(r)]}
                elif k == 'foo':
                    vs = {'val': rnd_val(r) if mode == 3 else rnd_regular_val(r, foo_shape)}
                else:
                    vs = {'val': ['o', 0]}
                step.append([k, vs])
            if mode == 3 and r.random() < 0.08:
                step.append(['store_best_only', {'val': ['b', True]}])           # .append on a bool
            if mode == 3 and r.random() < 0.08:
                step = [s for s in step if s[0] != 'agents'] + [['agents', {'val': ['f', rnd_key(r)]}]]   # not iterable
            steps.append(step)
        gets = []
        for _ in range(r.randint(4, 9)):
            k = r.choice(keys + ['store_best_only', 'nope'])
            if r.random() < 0.12:
                ispec = {'nontuple': r.choice(sorted(NONTUPLES))}
            else:
                want = SERIES_INDEX_LEN.get(k, len(foo_shape) if k == 'foo' else 0)
                ln = want if r.random() < 0.75 else r.randint(0, 4)
                ispec = {'tuple': [r.randint(-3, 3) if r.random() < 0.3 else r.randint(0, 1) for _ in range(ln)]}
            gets.append([k, ispec])
        specs.append({'flag': flag, 'steps': steps, 'gets': gets, 'mode': mode})
    return specs


# ------------------------------------------------------------------ main / replay
def replay(doc):
    kind = doc.get('kind')
    if kind in ('run-get', 'run-saveload'):
        E = Enc()
        try:
            h = make_run(doc['optimizer'], doc['sbo'], doc['size'], doc['seed'], bool(doc.get('ld')))
        except Exception as ex:                                         # noqa: BLE001
            return {'fails': True, 'detail': 'run raised %s: %s' % (type(ex).__name__, ex)}
        if kind == 'run-get':
            res = call_get(h, doc['key'], doc['index'], E)
            orc = get_oracle(h, doc['key'], doc['index'], res, E)
            return {'fails': orc is not None, 'detail': orc, 'res': res}
        sl = saveload_check(h, 'replay', E)
        return {'fails': sl['oracle'] is not None, 'detail': sl['oracle']}
    if kind == 'seq':
        out = run_sequence(doc['spec'])
        orc = out['oracle'] or next((g['oracle'] for g in out['gets'] if g['oracle']), None)
        return {'fails': orc is not None, 'detail': orc}
    return {'fails': False, 'detail': 'unknown replay kind %r' % kind}


def main():
    # SCALE of rejections: more than a thousand typed rejections in one process (with the usual limit of 1024 open files): each one must
    # still be the typed error (something opened per error and never closed runs out)
    many = None
    try:
        import resource
        soft, hard = resource.getrlimit(resource.RLIMIT_NOFILE)
        if soft == resource.RLIM_INFINITY or soft > 1024:
            resource.setrlimit(resource.RLIMIT_NOFILE, (1024, hard))
        hh = History()
        ag_ = Agent(n_variables=1, n_dimensions=1)
        ag_.position = np.array([[1.0]])
        ag_.fit = 1.0
        hh.dump(agents=[ag_], best_agent=ag_)
        for n_ in range(1300):
            try:
                hh.get('agents', (0,) if n_ % 2 else [0, 0])
                many = 'invalid get #%d was accepted' % n_
                break
            except Exception as ex:  # noqa: BLE001
                if hlib.exc_kind(ex) not in ('SizeError', 'TypeError'):
                    many = 'rejection #%d of an invalid index raised %s: %s instead of the typed error' % (n_, type(ex).__name__, str(ex)[:100])
                    break
    except ImportError:
        pass
    p = hlib.payload()
    if p and 'replay' in p:
        hlib.emit(replay(p['replay']))
        return
    r = hlib.rng('c19')
    runs, skipped = run_cases(r, hlib.QUICK)
    specs = sequence_specs(hlib.rng('c19seq'), 300 if hlib.QUICK else 3000)
    seqs = []
    for s in specs:
        out = run_sequence(s)
        out['spec'] = s
        seqs.append(out)
    hlib.emit({'runs': runs, 'skipped': skipped, 'seqs': seqs, 'numpy': np.__version__, 'many_rejections': many})


if __name__ == '__main__':
    main()
