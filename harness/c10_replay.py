"""Re-run one recorded C10 case against the current /repo and re-evaluate the property oracle."""
from harness import hlib, c10

doc = hlib.payload()
rp = doc['replay']
res = {'fails': False}
if 'spec' not in rp:
    res['note'] = 'no concrete input recorded (broken obligation): ' + str(rp)[:500]
elif rp.get('kind'):
    msg = c10.run_kind(rp['kind'], rp['spec'])
    res.update({'oracle': msg, 'recorded': rp.get('msg'), 'fails': bool(msg)})
else:
    terms = c10.dec_terms(rp['terms'])
    if rp.get('edit'):
        msg = c10.run_edit(rp['edit'])
    elif rp.get('history'):
        msg = c10.run_history(rp['history'])
    else:
        msg, _ = c10.oracle(rp['spec'], terms, tuple(rp['shape']))
    if not msg:
        # purity: evaluating must leave every terminal array bit-identical
        terms2 = c10.dec_terms(rp['terms'])
        root = c10.build(rp['spec'], terms2)
        keep = [t.copy() for t in terms2]
        _ = root.position
        if any(not c10.same_bits(a, b) for a, b in zip(keep, terms2)):
            msg = 'evaluating modified a terminal array in place'
    if rp.get('key') == 'eps' and c10.c.EPSILON != c10.EPS:
        msg = msg or 'constants.EPSILON = %r, the documented protection constant is 1e-10' % (c10.c.EPSILON,)
    res.update({'oracle': msg, 'recorded': rp.get('msg'), 'fails': bool(msg)})
    try:
        res['position'] = c10.build(rp['spec'], c10.dec_terms(rp['terms'])).position
    except Exception as ex:  # noqa: BLE001
        res['position'] = repr(ex)
hlib.emit(res)
