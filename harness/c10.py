"""C10 harness: the property oracle on the real Node.position, and samples for the Coq validation.

Oracle (what the property text demands, nothing more): for every sub-tree `s` of every generated tree,
  * a terminal's position is its stored array;
  * a function node's position is the documented operator (an independent per-node reference, written
    from the property text with the literal 1e-10) applied to the positions *its children report*,
    bit for bit (NaN == NaN), of the declared shape (n_variables, n_dimensions) and dtype float64;
  * evaluating does not modify the tree: a serialisation of the whole object graph (identities, names,
    types, flags, links, terminal array identities and bytes) is identical before and after;
  * the root also equals an independent bottom-up recursive evaluation.
Trees: exhaustive over all 13 shapes of depth <= 2 x all labellings by the ten operators (551 trees),
sampled random trees of depth 3..4 beyond; terminal arrays with signs, zeros, tiny, large and
eps-cancelling entries in several (n_variables, n_dimensions).
"""
import copy
import itertools
import numpy as np
from harness import hlib
from harness.hlib import key, unkey

from opytimizer.core.node import Node
import opytimizer.utils.constants as c

UNARY = ['EXP', 'SQRT', 'LOG', 'ABS', 'SIN', 'COS']
BINARY = ['SUM', 'SUB', 'MUL', 'DIV']
EPS = 1e-10        # the documented protection constant (property text / constants.py docstring)

REF = {
    'SUM': lambda x, y: np.add(x, y),
    'SUB': lambda x, y: np.subtract(x, y),
    'MUL': lambda x, y: np.multiply(x, y),
    'DIV': lambda x, y: np.divide(x, np.add(y, EPS)),
    'EXP': lambda x, y: np.exp(x),
    'SQRT': lambda x, y: np.sqrt(np.fabs(x)),
    'LOG': lambda x, y: np.log(np.add(np.fabs(x), EPS)),
    'ABS': lambda x, y: np.fabs(x),
    'SIN': lambda x, y: np.sin(x),
    'COS': lambda x, y: np.cos(x),
}

INF = float('inf')
SPECIAL = [0.0, -0.0, 1.0, -1.0, 0.5, -2.5, 5e-324, -5e-324, 1e-300, -1e-300, 1e300, -1e300, 1.7e308, -1.7e308,
           1e-10, -1e-10, 2e-10, -1e-10 * (1 + 2 ** -30), 3.141592653589793, -1.5707963267948966, 710.0, -745.2,
           1e-5, 123456.789, -7.0, 36.0, 1e16, -3e-8]
DIMS = [(1, 1), (2, 3), (3, 1), (1, 4), (4, 2)]


# ------------------------------------------------------------------ tree specs
# spec: ['T', k] | ['U', name, spec] | ['B', name, spec, spec] | ['U2', name, spec, spec] (unary node that also has a right child)

def shapes(depth):
    """All shapes of depth <= depth: 'L' | ('U', s) | ('B', s, t)."""
    if depth == 0:
        return ['L']
    sub = shapes(depth - 1)
    return ['L'] + [('U', s) for s in sub] + [('B', s, t) for s in sub for t in sub]


def labellings(shape):
    """All operator labellings of a shape (terminal identifiers filled in later)."""
    if shape == 'L':
        yield ['T', None]
    elif shape[0] == 'U':
        for name in UNARY:
            for s in labellings(shape[1]):
                yield ['U', name, s]
    else:
        for name in BINARY:
            for s in labellings(shape[1]):
                for t in labellings(shape[2]):
                    yield ['B', name, s, t]


def fill_terminals(spec, r, n_terms):
    if spec[0] == 'T':
        return ['T', r.randrange(n_terms)]
    return spec[:2] + [fill_terminals(s, r, n_terms) for s in spec[2:]]


def random_spec(r, depth, n_terms, p_leaf=0.25):
    if depth == 0 or r.random() < p_leaf:
        return ['T', r.randrange(n_terms)]
    c0 = r.random()
    if c0 < 0.45:
        return ['U', r.choice(UNARY), random_spec(r, depth - 1, n_terms)]
    if c0 < 0.95:
        return ['B', r.choice(BINARY), random_spec(r, depth - 1, n_terms), random_spec(r, depth - 1, n_terms)]
    return ['U2', r.choice(UNARY), random_spec(r, depth - 1, n_terms), random_spec(r, depth - 1, n_terms)]


def spec_depth(spec):
    return 0 if spec[0] == 'T' else 1 + max(spec_depth(s) for s in spec[2:])


def build(spec, terms, types=('TERMINAL', 'FUNCTION')):
    """The real object graph, linked the way TreeSpace.grow links it."""
    if spec[0] == 'T':
        return Node(name=spec[1], type=types[0], value=terms[spec[1]])
    n = Node(name=spec[1], type=types[1])
    kids = [build(s, terms, types) for s in spec[2:]]
    n.left = kids[0]
    kids[0].parent = n
    if len(kids) > 1:
        n.right = kids[1]
        kids[1].flag = False
        kids[1].parent = n
    return n


def all_nodes(root):
    out, stack = [], [root]
    while stack:
        n = stack.pop()
        out.append(n)
        for ch in (n.right, n.left):
            if ch is not None:
                stack.append(ch)
    return out


def serialise(root):
    out = []
    for n in all_nodes(root):
        v = n.value
        out.append((id(n), n.name, n.type, n.flag, id(n.left) if n.left is not None else None,
                    id(n.right) if n.right is not None else None, id(n.parent) if n.parent is not None else None,
                    None if v is None else (id(v), v.shape, str(v.dtype), v.tobytes())))
    return out


def same_bits(a, b):
    return (isinstance(a, np.ndarray) and isinstance(b, np.ndarray) and a.shape == b.shape and a.dtype == b.dtype
            and a.tobytes() == b.tobytes()) or \
           (isinstance(a, np.ndarray) and isinstance(b, np.ndarray) and a.shape == b.shape
            and bool(np.all((a == b) | ((a != a) & (b != b)))) and bool(np.all(np.signbit(a) == np.signbit(b))))


def reference(spec, terms):
    if spec[0] == 'T':
        return terms[spec[1]]
    x = reference(spec[2], terms)
    y = reference(spec[3], terms) if len(spec) > 3 else None
    return REF[spec[1]](x, y)


def first_diff(a, b):
    if not (isinstance(a, np.ndarray) and isinstance(b, np.ndarray)) or a.shape != b.shape:
        return None
    for idx in np.ndindex(a.shape):
        u, v = float(a[idx]), float(b[idx])
        if key(u) != key(v):
            return [list(idx), u, v]
    return None


class NoResult(BaseException):
    pass


ORACLE_SECONDS = 45


def oracle(spec, terms, shape):
    """the oracle under a time limit: building and evaluating a tree of n nodes takes time linear in n (milliseconds for the deepest
    chains used here); a tree whose position is not delivered within the limit has no position to compare"""
    import signal

    def on_alarm(signum, frame):
        raise NoResult()
    old = signal.signal(signal.SIGALRM, on_alarm)
    signal.alarm(ORACLE_SECONDS)
    try:
        return oracle_untimed(spec, terms, shape)
    except NoResult:
        return 'no-position-delivered: building the tree and reading the position of its %d levels did not finish within %d s' % (spec_depth(spec), ORACLE_SECONDS), []
    finally:
        signal.alarm(0)
        signal.signal(signal.SIGALRM, old)


def oracle_untimed(spec, terms, shape):
    """-> (message or None, node samples).  Runs the real Node.position on every sub-tree."""
    root = build(spec, terms)
    before = serialise(root)
    samples = []
    msg = None
    nodes = all_nodes(root)
    for n in reversed(nodes):            # children before parents
        try:
            p = n.position
        except Exception as ex:  # noqa: BLE001
            return '%s node raised %s: %s' % (n.name, type(ex).__name__, ex), samples
        if n.type == 'TERMINAL':
            if p is not n.value and not same_bits(p, n.value):
                return 'terminal %r does not yield its stored array' % (n.name,), samples
            continue
        xs = n.left.position
        ys = n.right.position if n.right is not None else None
        want = REF[n.name](xs, ys)
        if not isinstance(p, np.ndarray):
            return '%s node returned %s instead of an array' % (n.name, type(p).__name__), samples
        if p.shape != shape or p.dtype != np.float64:
            return '%s node has shape %s dtype %s, declared shape is %s float64' % (n.name, p.shape, p.dtype, shape), samples
        if not same_bits(p, want):
            d = first_diff(p, want)
            return '%s node: position differs from the documented operator on its children\'s values at %s' % (n.name, d), samples
        samples.append((n.name, xs, ys, p))
    top = root.position
    if not same_bits(top, reference(spec, terms)):
        return 'root position differs from the bottom-up reference evaluation at %s' % first_diff(top, reference(spec, terms)), samples
    again = root.position
    if not same_bits(top, again):
        return 'evaluating twice gives different results', samples
    if serialise(root) != before:
        return 'evaluating modified the tree (serialisation before/after differs)', samples
    return msg, samples


# ------------------------------------------------------------------ terminal kinds: what a terminal is GIVEN is what it yields
# "terminals yield their stored array ... for every terminal value": arrays of other ranks, memory layouts and float widths than the
# (n_variables, n_dimensions) float64 C-arrays a TreeSpace creates.  The reference is computed from the arrays handed to Node(...),
# never from what the node says it holds.

def kind_terms(kind):
    base = np.array([[1.5, -2.25, 0.0], [3.0, 0.5, -7.0]])
    if kind == '0d':
        return [np.array(2.5), np.array(-0.75)]
    if kind == '1d':
        return [np.array([1.5, -2.0, 0.0]), np.array([0.25, 4.0, -1.0])]
    if kind == 'f32':
        return [np.array([[1.5], [-2.25]], dtype=np.float32), np.array([[0.0], [-1e-10]], dtype=np.float32)]
    if kind == 'fortran':
        return [np.asfortranarray(base), np.asfortranarray(base[::-1] * 0.5)]
    if kind == 'view':
        big = np.arange(24, dtype=float).reshape(4, 6) - 7.5
        return [big[::2, ::3], big.T[1::3, :2].T[:, :2]]
    if kind == '3d':
        return [base.reshape(1, 2, 3), (base * -0.5).reshape(1, 2, 3)]
    if kind in ('runtime-type-strings', 'unpickled'):
        return [base, base[::-1] * 0.5 + 1.0]
    raise KeyError(kind)


KINDS = ['0d', '1d', 'f32', 'fortran', 'view', '3d', 'runtime-type-strings', 'unpickled']


def strict_same(a, b):
    return isinstance(a, np.ndarray) and isinstance(b, np.ndarray) and a.shape == b.shape and a.dtype == b.dtype and a.tobytes() == b.tobytes()


def run_kind(kind, spec):
    given = kind_terms(kind)
    keep = [np.array(t, copy=True) for t in given]
    if kind == 'runtime-type-strings':
        # equal to 'TERMINAL' / 'FUNCTION' but distinct string objects (a parser, a JSON file): node types are compared by value
        root = build(spec, given, (''.join(['TERM', 'INAL']), 'function'.upper()))
    else:
        root = build(spec, given)
    if kind == 'unpickled':
        import pickle
        root = pickle.loads(pickle.dumps(root))                      # a tree restored from a file / sent to another process

    def walk(sp, n):
        with np.errstate(all='ignore'):
            want = reference(sp, keep)
            try:
                p = n.position
            except Exception as ex:  # noqa: BLE001
                return '%s node raised %s: %s' % (n.name, type(ex).__name__, ex)
        if not strict_same(np.asarray(p), np.asarray(want)):
            return '%s %s over %s terminals: position has shape %s dtype %s, the expression over the arrays given to Node(...) has shape %s dtype %s%s' % (
                n.type.lower(), n.name, kind, getattr(p, 'shape', None), getattr(p, 'dtype', None), want.shape, want.dtype,
                '' if getattr(p, 'shape', None) != want.shape or getattr(p, 'dtype', None) != want.dtype else ' and other values')
        if sp[0] != 'T':
            for sub, child in zip(sp[2:], [n.left, n.right]):
                m = walk(sub, child)
                if m:
                    return m
        return None
    msg = walk(spec, root)
    if not msg and kind != 'unpickled' and any(not strict_same(a, b) for a, b in zip(keep, given)):
        msg = 'evaluating modified a %s terminal array in place' % kind
    return msg


def kind_cases():
    out = []
    for kind in KINDS:
        out.append((kind, ['T', 0]))
        for op in UNARY:
            out.append((kind, ['U', op, ['T', 0]]))
        for op in BINARY:
            out.append((kind, ['B', op, ['T', 0], ['T', 1]]))
        out.append((kind, ['B', 'DIV', ['U', 'LOG', ['T', 1]], ['B', 'SUB', ['T', 0], ['T', 0]]]))
    return out


# ------------------------------------------------------------------ evaluate -> edit -> evaluate again

def graph_reference(n):
    """Bottom-up value of the object graph as it is NOW (independent of anything Node.position may remember)."""
    if n.type == 'TERMINAL':
        return n.value
    x = graph_reference(n.left)
    y = graph_reference(n.right) if n.right is not None else None
    return REF[n.name](x, y)


def check_graph(root, shape):
    """Per-node oracle on an existing object graph, parents read before children (a remembered value shows first
    at the ancestors of an edit)."""
    for n in all_nodes(root):
        try:
            p = n.position
        except Exception as ex:  # noqa: BLE001
            return '%s node raised %s: %s' % (n.name, type(ex).__name__, ex)
        want = graph_reference(n)
        if not isinstance(p, np.ndarray) or p.shape != shape or not same_bits(p, want):
            return '%r node: position %s is not the value of the current tree %s' % (
                n.name, np.asarray(p).tolist() if isinstance(p, np.ndarray) else type(p).__name__, np.asarray(want).tolist())
        if n.type == 'FUNCTION':
            xs = n.left.position
            ys = n.right.position if n.right is not None else None
            if not same_bits(p, REF[n.name](xs, ys)):
                return '%r node: position differs from the documented operator on its children\'s current values' % (n.name,)
    return None


def node_at(root, path):
    n = root
    for step in path:
        n = n.left if step == 'L' else n.right
    return n


def paths(spec, prefix=()):
    """[(path, sub-spec)] of every node."""
    out = [(list(prefix), spec)]
    if spec[0] != 'T':
        out += paths(spec[2], prefix + ('L',))
        if len(spec) > 3:
            out += paths(spec[3], prefix + ('R',))
    return out


def run_edit(case):
    """One scenario: evaluate every node, edit the tree through the public interface, evaluate again.
    kind 'replace' : a sub-tree at depth >= 2 is replaced through the parent's left/right setter (GP mutation/crossover);
    kind 'inplace' : a terminal's array is rewritten in place, t.value[:] = ... (TreeSpace._initialize_terminals);
    kind 'retype'  : a terminal node is re-typed to FUNCTION, renamed and given children (in-place grow / point mutation);
    on_copy        : the edit is made on a copy.deepcopy of the tree; the tree that is not edited must keep its value."""
    shape = tuple(case['shape'])
    terms = dec_terms(case['terms'])
    root = build(case['spec'], terms)
    for n in all_nodes(root) + list(reversed(all_nodes(root))):
        _ = n.position
    old = np.array(root.position, copy=True)
    other = copy.deepcopy(root)
    target, untouched = (other, root) if case['on_copy'] else (root, other)
    path = case['path']
    if case['kind'] == 'replace':
        new = build(case['new_spec'], dec_terms(case['new_terms']))
        parent = node_at(target, path[:-1])
        if path[-1] == 'L':
            parent.left = new
        else:
            parent.right = new
            new.flag = False
        new.parent = parent
    elif case['kind'] == 'retype':
        # a node built as a TERMINAL (with its array) is turned into a function node through the public setters
        t = node_at(target, path)
        new = build(case['new_spec'], dec_terms(case['new_terms']))
        t.type = 'FUNCTION'
        t.name = case['new_spec'][1]
        t.left = new.left
        new.left.parent = t
        if new.right is not None:
            t.right = new.right
            new.right.parent = t
    else:
        t = node_at(target, path)
        t.value[:] = np.array([[unkey(k) for k in row] for row in case['new_values']], dtype=float)
    msg = check_graph(target, shape)
    if msg:
        return 'stale-after-edit (%s%s at %s): %s' % (case['kind'], ' on a deepcopy' if case['on_copy'] else '', '/'.join(path), msg)
    try:
        now = untouched.position
    except Exception as ex:  # noqa: BLE001
        return 'stale-after-edit: the tree that was not edited raised %s' % type(ex).__name__
    if not same_bits(now, old) or check_graph(untouched, shape):
        return 'stale-after-edit (%s): the tree that was NOT edited (%s) changed its value' % (
            case['kind'], 'original' if case['on_copy'] else 'deepcopy taken before the edit')
    return None


def run_history(case):
    """Evaluations must not depend on what was evaluated before in the same process.
    kind 'same-bytes-other-shape' : the tree is evaluated over (a, b) arrays, then the same tree over the same numbers
                                    laid out as (b, a) arrays (identical bytes) -- the second result has shape (b, a);
    kind 'caller-writes-result'   : the array returned by .position of a function-rooted tree is overwritten in place
                                    by the caller (as a clip / scaling would); evaluating again gives the tree's value."""
    shape = tuple(case['shape'])
    terms = dec_terms(case['terms'])
    root = build(case['spec'], terms)
    msg = check_graph(root, shape)
    if msg:
        return 'history (first evaluation): ' + msg
    if case['kind'] == 'same-bytes-other-shape':
        shape2 = (shape[1], shape[0])
        terms2 = [np.array(t, copy=True).reshape(shape2) for t in dec_terms(case['terms'])]
        msg = check_graph(build(case['spec'], terms2), shape2)
        if msg:
            return 'history (same numbers as %s arrays after %s arrays): %s' % (shape2, shape, msg)
        msg = check_graph(root, shape)
    else:
        for _ in range(2):
            p = root.position
            if root.type == 'FUNCTION':
                p[...] = 7.25
            msg = check_graph(root, shape)
            if msg:
                break
    return ('history (%s): %s' % (case['kind'], msg)) if msg else None


def history_cases(r, n_terms):
    out = []
    n = 24 if hlib.QUICK else 600
    k = 0
    while len(out) < n:
        k += 1
        spec = ['U', UNARY[k % len(UNARY)], ['T', 0]] if k % 3 == 0 else random_spec(r, r.choice([1, 2, 3]), n_terms, p_leaf=0.05)
        if spec[0] == 'T':
            continue
        shape = r.choice([(3, 1), (1, 4), (2, 3), (4, 2)])
        out.append({'kind': ['same-bytes-other-shape', 'caller-writes-result'][len(out) % 2], 'spec': spec, 'shape': list(shape),
                    'terms': enc_terms(terminal_sets(r, shape, n_terms, 'moderate'))})
    return out


def edit_cases(r, n_terms):
    out = []
    n = 20 if hlib.QUICK else 500
    tries = 0
    while len(out) < 4 * n and tries < 40 * n:
        tries += 1
        spec = random_spec(r, r.choice([2, 3, 3, 4]), n_terms, p_leaf=0.1)
        if spec_depth(spec) < 2:
            continue
        shape = r.choice(DIMS)
        terms = terminal_sets(r, shape, n_terms, 'moderate')
        kind = ['replace', 'inplace', r.choice(['replace', 'inplace']), 'retype'][len(out) % 4]
        on_copy = len(out) % 4 == 2 or (kind == 'retype' and len(out) % 8 == 7)
        ps = paths(spec)
        if kind == 'replace':
            cand = [p for p, s in ps if len(p) >= 2]
            if not cand:
                continue
            path = r.choice(cand)
            case = {'kind': kind, 'on_copy': on_copy, 'path': path, 'new_spec': random_spec(r, 1, n_terms),
                    'new_terms': enc_terms(terminal_sets(r, shape, n_terms, 'moderate'))}
        elif kind == 'retype':
            cand = [p for p, s in ps if s[0] == 'T' and len(p) >= 1]
            if not cand:
                continue
            path = r.choice(cand)
            new_spec = random_spec(r, 1, n_terms, p_leaf=0.0)
            if new_spec[0] == 'U2':
                new_spec[0] = 'U'
                new_spec = new_spec[:3]
            case = {'kind': kind, 'on_copy': on_copy, 'path': path, 'new_spec': new_spec,
                    'new_terms': enc_terms(terminal_sets(r, shape, n_terms, 'moderate'))}
        else:
            cand = [p for p, s in ps if s[0] == 'T' and len(p) >= 2]
            if not cand:
                continue
            path = r.choice(cand)
            case = {'kind': kind, 'on_copy': on_copy, 'path': path,
                    'new_values': enc_terms(terminal_sets(r, shape, 1, 'moderate'))[0]}
        case.update({'spec': spec, 'shape': list(shape), 'terms': enc_terms(terms)})
        out.append(case)
    return out


# ------------------------------------------------------------------ terminal arrays

def terminal_sets(r, shape, n_terms, mode):
    out = []
    size = shape[0] * shape[1]
    for t in range(n_terms):
        if mode == 'special':
            vals = [r.choice(SPECIAL) for _ in range(size)]
        elif mode == 'moderate':
            vals = [r.choice([-1, 1]) * r.uniform(0.05, 6.0) for _ in range(size)]
        else:
            vals = []
            for _ in range(size):
                c0 = r.random()
                if c0 < 0.3:
                    vals.append(r.choice(SPECIAL))
                elif c0 < 0.6:
                    vals.append(r.uniform(-10, 10))
                elif c0 < 0.8:
                    vals.append(r.uniform(-1, 1) * 10.0 ** r.randint(-300, 300))
                elif c0 < 0.9:
                    vals.append(float(r.randint(-4, 4)))
                else:
                    vals.append(r.choice([INF, -INF, float('nan')]) if r.random() < 0.2 else r.uniform(-1e-9, 1e-9))
        out.append(np.array(vals, dtype=float).reshape(shape))
    return out


def enc_terms(terms):
    return [[[key(v) for v in row] for row in t] for t in terms]


def dec_terms(enc):
    return [np.array([[unkey(k) for k in row] for row in t], dtype=float) for t in enc]


def main():
    hlib.prior_tasks()      # trees are evaluated in a process in which optimisation tasks have already run
    r = hlib.rng('c10')
    res = {'cases': 0, 'nodes': 0, 'fails': [], 'dist': {}, 'coq': [], 'eps_float_is_1e-10': bool(c.EPSILON == EPS),
           'n_args': dict(c.N_ARGS_FUNCTION)}
    if c.EPSILON != EPS:
        res['fails'].append({'key': 'eps', 'msg': 'constants.EPSILON = %r, the documented protection constant is 1e-10' % (c.EPSILON,),
                             'spec': ['B', 'DIV', ['T', 0], ['T', 1]], 'shape': [1, 1],
                             'terms': enc_terms([np.array([[1.0]]), np.array([[0.0]])])})
    n_terms = 3
    specs = []
    for sh in shapes(2):
        for lab in labellings(sh):
            specs.append(('exh-d%d' % spec_depth(lab), fill_terminals(lab, r, n_terms)))
    res['exhaustive_trees'] = len(specs)
    n_rand = 150 if hlib.QUICK else 6000
    for i in range(n_rand):
        sp = random_spec(r, r.choice([3, 3, 4]), n_terms)
        specs.append(('rnd-d%d' % spec_depth(sp), sp))
    # SCALE: deep chains (hundreds of nested nodes: recursion depth, accumulated intermediate results)
    for d in ((60, 200, 700) if hlib.QUICK else (60, 200, 400, 700)):
        for fam in (['ABS', 'SUM'], ['SQRT', 'MUL'], ['COS', 'SUB']):
            sp = ['T', 0]
            for k in range(d):
                sp = ['U', fam[0], sp] if k % 2 == 0 else ['B', fam[1], sp, ['T', 1 + k % 2]]
            specs.append(('deep-d%d' % d, sp))
    modes = ['special', 'mixed'] if hlib.QUICK else ['special', 'mixed', 'moderate', 'mixed']
    want_coq = 70 if hlib.QUICK else 1500
    pool = []
    seen = set()
    for tag, sp in specs:
        for mi, mode in enumerate(modes):
            shape = DIMS[(res['cases'] + mi) % len(DIMS)]
            terms = terminal_sets(r, shape, n_terms, mode)
            enc_before = enc_terms(terms)      # recorded before evaluating: an in-place mutant rewrites `terms`
            if tag.startswith('deep') and res.get('deep_gave_up'):
                continue                       # one undelivered deep position is the finding; the deeper ones would only wait as long
            msg, samples = oracle(sp, terms, shape)
            if msg and msg.startswith('no-position-delivered'):
                res['deep_gave_up'] = True
            res['cases'] += 1
            res['nodes'] += len(samples)
            k = '%s/%s' % (tag, mode)
            res['dist'][k] = res['dist'].get(k, 0) + 1
            name = msg.split(' ')[0] if msg else ''
            if msg:
                res['n_failing_cases'] = res.get('n_failing_cases', 0) + 1
            if msg and len(res['fails']) < 4 and ('node:%s' % name) not in [f['key'] for f in res['fails']]:
                res['fails'].append({'key': 'node:%s' % name, 'msg': msg, 'spec': sp, 'shape': list(shape), 'terms': enc_before})
            for (name, xs, ys, p) in samples:
                idx = (r.randrange(shape[0]), r.randrange(shape[1]))
                x = float(xs[idx])
                y = float(ys[idx]) if (ys is not None and name in BINARY) else 0.0
                f = float(p[idx])
                if coq_eligible(name, x, y, f):
                    pool.append((name, x, y, f))
    # evaluate -> edit -> evaluate again
    res['edit_cases'] = 0
    for case in edit_cases(r, n_terms):
        msg = run_edit(case)
        res['edit_cases'] += 1
        k = 'edit/%s%s' % (case['kind'], '/copy' if case['on_copy'] else '')
        res['dist'][k] = res['dist'].get(k, 0) + 1
        if msg:
            res['n_failing_cases'] = res.get('n_failing_cases', 0) + 1
            if 'node:stale-after-edit' not in [f['key'] for f in res['fails']]:
                res['fails'].append({'key': 'node:stale-after-edit', 'msg': msg, 'spec': case['spec'], 'shape': case['shape'],
                                     'terms': case['terms'], 'edit': case})
    for case in history_cases(r, n_terms):
        msg = run_history(case)
        res['edit_cases'] += 1
        k = 'history/%s' % case['kind']
        res['dist'][k] = res['dist'].get(k, 0) + 1
        if msg:
            res['n_failing_cases'] = res.get('n_failing_cases', 0) + 1
            if 'node:history' not in [f['key'] for f in res['fails']]:
                res['fails'].append({'key': 'node:history', 'msg': msg, 'spec': case['spec'], 'shape': case['shape'],
                                     'terms': case['terms'], 'history': case})
    for kind, sp in kind_cases():
        msg = run_kind(kind, sp)
        res['edit_cases'] += 1
        k = 'terminal-kind/%s' % kind
        res['dist'][k] = res['dist'].get(k, 0) + 1
        if msg:
            res['n_failing_cases'] = res.get('n_failing_cases', 0) + 1
            if 'node:terminal-kind' not in [f['key'] for f in res['fails']]:
                res['fails'].append({'key': 'node:terminal-kind', 'msg': msg, 'spec': sp, 'shape': [], 'terms': [], 'kind': kind})
    # moderate-magnitude scalar cases so that every operator is represented in the Coq sample
    for name in UNARY + BINARY:
        for _ in range(6 if hlib.QUICK else 60):
            x = r.choice([-1, 1]) * r.uniform(0.01, 30.0)
            y = r.choice([-1, 1]) * r.uniform(0.01, 30.0)
            t = [np.array([[x]]), np.array([[y]])]
            sp = ['B', name, ['T', 0], ['T', 1]] if name in BINARY else ['U', name, ['T', 0]]
            try:
                f = float(build(sp, t).position[0, 0])
            except Exception:  # noqa: BLE001  (already reported by the oracle above)
                continue
            if coq_eligible(name, x, y, f):
                pool.insert(0, (name, x, y, f))
    # stratified by operator
    by = {}
    for cse in pool:
        by.setdefault(cse[0], []).append(cse)
    per = max(1, want_coq // 10)
    for name in sorted(by):
        lst = by[name]
        head = lst[:per // 2]
        tail = lst[per // 2:]
        r.shuffle(tail)
        for cse in head + tail[:per - len(head)]:
            res['coq'].append({'op': cse[0], 'x': float_ratio(cse[1]), 'y': float_ratio(cse[2]), 'f': float_ratio(cse[3]),
                               'xf': cse[1], 'yf': cse[2], 'ff': cse[3]})
    hlib.emit(res)


def float_ratio(v):
    n, d = float(v).as_integer_ratio()
    return [str(n), str(d)]


def coq_eligible(name, x, y, f):
    """Cases for the Interval validation: finite, not subnormal, exponents small enough for Coq literals,
    and well-conditioned (the two operators with an inner rounded sum are skipped where that sum cancels)."""
    import math
    vals = [x, f] + ([y] if name in BINARY else [])
    for v in vals:
        if not math.isfinite(v) or (v != 0.0 and not (1e-60 < abs(v) < 1e60)):
            return False
    if name in ('SIN', 'COS') and abs(x) > 1e4:
        return False
    if name == 'EXP' and abs(x) > 130:
        return False
    if name == 'DIV' and abs(y + EPS) < 2.0 ** -8 * max(abs(y), EPS):
        return False
    if name == 'LOG' and abs(f) < 1e-3:
        return False
    if name in ('SIN', 'COS') and abs(f) < 1e-6:
        return False
    return True


if __name__ == '__main__':
    main()
